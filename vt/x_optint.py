"""Truthiness tests on ``int | None`` values (shared helper).

Class of defect decided: *a value for which 0 is legal and ``None`` means
"absent" is tested by truthiness* (``if end:``, ``x and x + 1``, ``a if n else b``)
instead of ``is None`` — the zero case silently takes the "absent" branch.

``optint_names(repo, fi)`` — local names / parameters of ``fi`` typed ``int | None``:
parameters and callee results by *annotation* (``int | None``, ``Optional[int]``,
elements of ``tuple[int | None, ...] | None`` when unpacked), closed under
aliasing and arithmetic (flow-insensitive).
``check_truthiness(ck, rule, fi, extra=())`` — one failed obligation per
truthiness use: atoms of ``if``/``elif``/``while``/``assert``/conditional-expression
tests and comprehension conditions, and value-position ``X and ...``.  A
value-position ``X or 0`` is the identity on ints and is accepted; ``X or D``
with another default is **not decided** (needs value reasoning) and skipped.
Returns the number of Optional[int] names found (for floors).
"""
from __future__ import annotations

import ast
from typing import Iterable, List, Optional, Set

from . import q
from .model import FuncInfo, Repo


def _members(ann: ast.AST) -> List[ast.AST]:
    if isinstance(ann, ast.BinOp) and isinstance(ann.op, ast.BitOr):
        return _members(ann.left) + _members(ann.right)
    if isinstance(ann, ast.Subscript) and q.dotted(ann.value) in ("Optional", "typing.Optional"):
        return _members(ann.slice) + [ast.Constant(value=None)]
    if isinstance(ann, ast.Subscript) and q.dotted(ann.value) in ("Union", "typing.Union"):
        out = []
        for e in (ann.slice.elts if isinstance(ann.slice, ast.Tuple) else [ann.slice]):
            out += _members(e)
        return out
    if isinstance(ann, ast.Constant) and isinstance(ann.value, str):
        try:
            return _members(ast.parse(ann.value, mode="eval").body)
        except SyntaxError:
            return [ann]
    return [ann]


def ann_kind(ann: Optional[ast.AST]):
    """'optint' | ('tuple', [kinds]) | None."""
    if ann is None:
        return None
    ms = _members(ann)
    has_none = any(isinstance(m, ast.Constant) and m.value is None for m in ms)
    if has_none and any(isinstance(m, ast.Name) and m.id == "int" for m in ms):
        return "optint"
    for m in ms:
        if isinstance(m, ast.Subscript) and q.dotted(m.value) in ("tuple", "Tuple", "typing.Tuple"):
            elts = m.slice.elts if isinstance(m.slice, ast.Tuple) else [m.slice]
            return ("tuple", [ann_kind(e) for e in elts])
    return None


def _callee_kind(repo: Repo, fi: FuncInfo, call: ast.Call):
    name = q.call_attr(call)
    if name is None:
        return None
    cands = []
    if name in fi.module.funcs:
        cands.append(fi.module.funcs[name])
    if fi.cls is not None:
        qn = "%s.%s" % (fi.cls.name, name)
        if qn in fi.module.funcs:
            cands.append(fi.module.funcs[qn])
    d = q.dotted(call.func) or ""
    parts = d.split(".")
    if len(parts) == 2 and parts[0] not in ("self", "cls"):
        for rel, m in repo.modules.items():
            if rel.endswith("/" + parts[0] + ".py") and name in m.funcs:
                cands.append(m.funcs[name])
    for c in cands:
        k = ann_kind(c.node.returns)
        if k is not None:
            return k
    return None


def optint_names(repo: Repo, fi: FuncInfo) -> Set[str]:
    names: Set[str] = set()
    tuples = {}
    a = fi.node.args
    for p in a.posonlyargs + a.args + a.kwonlyargs:
        k = ann_kind(p.annotation)
        if k == "optint":
            names.add(p.arg)
        elif isinstance(k, tuple):
            tuples[p.arg] = k[1]
    changed = True
    while changed:
        changed = False

        def add(n):
            nonlocal changed
            if n not in names:
                names.add(n)
                changed = True

        for st in q.walk_body(fi.node):
            if isinstance(st, ast.AnnAssign) and isinstance(st.target, ast.Name):
                k = ann_kind(st.annotation)
                if k == "optint":
                    add(st.target.id)
                continue
            if not isinstance(st, ast.Assign):
                continue
            v = st.value
            for t in st.targets:
                if isinstance(t, ast.Name):
                    if isinstance(v, ast.Call):
                        k = _callee_kind(repo, fi, v)
                        if k == "optint":
                            add(t.id)
                        elif isinstance(k, tuple) and t.id not in tuples:
                            tuples[t.id] = k[1]
                            changed = True
                    elif isinstance(v, (ast.Name, ast.BinOp, ast.UnaryOp, ast.IfExp)) and not isinstance(getattr(v, "op", None), ast.Not):
                        if any(isinstance(x, ast.Name) and x.id in names for x in ast.walk(v)) and not any(isinstance(x, (ast.Compare, ast.Call)) for x in ast.walk(v)):
                            add(t.id)
                elif isinstance(t, (ast.Tuple, ast.List)):
                    kinds = None
                    if isinstance(v, ast.Name) and v.id in tuples:
                        kinds = tuples[v.id]
                    elif isinstance(v, ast.Call):
                        k = _callee_kind(repo, fi, v)
                        if isinstance(k, tuple):
                            kinds = k[1]
                    if kinds is not None and len(kinds) == len(t.elts):
                        for e, k in zip(t.elts, kinds):
                            if isinstance(e, ast.Name) and k == "optint":
                                add(e.id)
                    elif isinstance(v, (ast.Tuple, ast.List)) and len(v.elts) == len(t.elts):
                        for e, x in zip(t.elts, v.elts):
                            if isinstance(e, ast.Name) and any(isinstance(y, ast.Name) and y.id in names for y in ast.walk(x)) and not any(isinstance(y, (ast.Compare, ast.Call)) for y in ast.walk(x)):
                                add(e.id)
    return names


def _atoms(e: ast.AST) -> List[ast.AST]:
    if isinstance(e, ast.BoolOp):
        out = []
        for v in e.values:
            out += _atoms(v)
        return out
    if isinstance(e, ast.UnaryOp) and isinstance(e.op, ast.Not):
        return _atoms(e.operand)
    return [e]


def check_truthiness(ck, rule: str, fi: FuncInfo, extra: Iterable[str] = ()) -> int:
    names = optint_names(ck.repo, fi) | set(extra)
    if not names:
        return 0
    tests = []
    test_nodes = set()
    for n in q.walk_body(fi.node):
        if isinstance(n, (ast.If, ast.While, ast.IfExp, ast.Assert)):
            tests.append(n.test)
        elif isinstance(n, ast.comprehension):
            tests.extend(n.ifs)
    for t in tests:
        for x in ast.walk(t):
            test_nodes.add(id(x))
        for a in _atoms(t):
            if isinstance(a, ast.Name) and a.id in names:
                ck.ob(rule, fi, t, False, "truthiness test on %s, an int-or-None value for which 0 is legal: the zero case takes the 'absent' branch (use 'is None')" % a.id)
    ok_sites = 0
    for n in q.walk_body(fi.node):
        if isinstance(n, ast.BoolOp) and id(n) not in test_nodes:
            for v in n.values[:-1]:
                if isinstance(v, ast.Name) and v.id in names:
                    if isinstance(n.op, ast.And):
                        ck.ob(rule, fi, n, False, "'%s and ...' short-circuits on 0, a legal value of the int-or-None %s" % (v.id, v.id))
                    elif isinstance(n.values[-1], ast.Constant) and n.values[-1].value == 0 and len(n.values) == 2:
                        ok_sites += 1
                        ck.ob(rule, fi, n, True, "'%s or 0' is the identity on integers (None -> 0)" % v.id)
    # explicit None tests are what is expected; record them so the evidence shows the governed sites
    for t in tests:
        for a in _atoms(t):
            if isinstance(a, ast.Compare) and len(a.ops) == 1 and isinstance(a.ops[0], (ast.Is, ast.IsNot)) and isinstance(a.left, ast.Name) and a.left.id in names:
                ck.ob(rule, fi, a, True, "%s is tested with an explicit None comparison" % a.left.id)
    return len(names)
