"""Per-value dispatch walks and no-return call modelling (helpers for TBL/DEFUSE rules).

Nothing here runs the analysed code.  Three small tools:

* :func:`always_raises` / :func:`noreturn_cfg` -- a private CFG copy of a function in which
  statement-level calls to a *verified* never-returning helper (its own CFG has no path to the
  normal exit) lose their fall-through edge, so that ``if bad: helper_that_raises()`` acts as a guard
  for dominance / must-fact queries.
* :func:`walk` -- forward propagation of a small abstract value from arbitrary start nodes along
  non-exception edges, where a caller-supplied oracle may decide a test node (used to run a dispatch
  chain ``if op == 'a': ... elif op in (...)`` once per concrete value of ``op`` by constant folding).
* :func:`value_oracle` -- the usual oracle: fold tests that mention only the dispatch variable, plus
  ``x is None`` tests of a local bound once to ``<dict literal>.get(var)``.
* :func:`branch_flag` -- guard dominance whose fact survives *uses* of the tested object and dies only on
  rebinding (``x is None`` / truthiness of a local is not changed by ``x[k] = v``, ``f(**x)``, ``x.m()``;
  the default must-facts of vt.cfg forget it there).
* :func:`iter_order` -- does a loop iterable walk a collection forward / reversed / partially.
* :func:`own_nodes`, :func:`single_assignment` -- own-scope walks that do not enter nested definitions which
  are direct statements of the body (``q.walk_body`` does enter those).
"""
from __future__ import annotations

import ast
from typing import Callable, Dict, Iterable, List, Optional, Set, Tuple

from . import q
from .cfg import CFG, Node, build
from .model import AnalysisError, FuncInfo


def always_raises(fi: FuncInfo) -> bool:
    """No path of ``fi`` reaches the normal exit (every path ends in ``raise``)."""
    cfg = fi.cfg
    return cfg.exit.id not in cfg.reachable()


def noreturn_cfg(fi: FuncInfo, is_noreturn: Callable[[ast.Call], bool]) -> Tuple[CFG, int]:
    """Fresh CFG of ``fi`` where expression statements that are a call satisfying ``is_noreturn`` keep
    only their exception edge.  Returns (cfg, number of calls cut)."""
    cfg = build(fi.node)
    cut = 0
    for n in cfg.nodes:
        if n.kind == "stmt" and isinstance(n.ast, ast.Expr) and isinstance(n.ast.value, ast.Call) and is_noreturn(n.ast.value):
            for sid, kind in list(cfg.succ[n.id]):
                if kind != "exc":
                    cfg.succ[n.id].remove((sid, kind))
                    cfg.pred[sid].remove((n.id, kind))
            if not any(k == "exc" for _, k in cfg.succ[n.id]):
                cfg.edge(n, cfg.rexit, "exc")
            cut += 1
    cfg._dom = None
    cfg._pdom = None
    return cfg, cut


def walk(
    cfg: CFG,
    starts: Iterable[Tuple[int, object]],
    transfer: Callable[[Node, object], object],
    decide: Optional[Callable[[Node], Optional[bool]]] = None,
    stop: Optional[Callable[[Node], bool]] = None,
    follow_exc: bool = False,
    max_states: int = 50000,
) -> Dict[int, Set[object]]:
    """Propagate values from ``starts`` (node id, value-at-entry).  ``transfer(node, v)`` gives the value
    after the node (None stops the path).  ``decide(test node)`` may return True/False to follow only
    that branch.  ``stop(node)``: the value is recorded at the node's entry but not propagated further.
    Returns the set of values at the entry of every reached node."""
    seen: Dict[int, Set[object]] = {}
    work: List[Tuple[int, object]] = []
    for nid, v in starts:
        if v not in seen.setdefault(nid, set()):
            seen[nid].add(v)
            work.append((nid, v))
    total = 0
    while work:
        nid, v = work.pop()
        n = cfg.nodes[nid]
        if stop is not None and stop(n):
            continue
        out = transfer(n, v)
        if out is None:
            continue
        verdict = decide(n) if (decide is not None and n.kind == "test") else None
        for sid, kind in cfg.succ[nid]:
            if kind == "exc":
                if not follow_exc:
                    continue
                nv = v
            else:
                nv = out
            if verdict is not None and kind in ("true", "false") and (kind == "true") != verdict:
                continue
            s = seen.setdefault(sid, set())
            if nv not in s:
                s.add(nv)
                total += 1
                if total > max_states:
                    raise AnalysisError("state explosion in x_valuewalk.walk")
                work.append((sid, nv))
    return seen


def branch_flag(cfg: CFG, text: str, pol: bool, rebinding: Iterable[str] = ()) -> Dict[int, bool]:
    """node id -> True iff on *every* path from entry to the node the branch ``(text, pol)`` (canonical
    condition text / polarity as in cfg.canon_fact) was taken, and none of the dotted paths in
    ``rebinding`` was re-assigned afterwards.  Unlike the default must-facts this does not forget the
    outcome when the tested object is merely used (method call, passed as argument, item store): only a
    rebinding of the name changes ``x is None`` / truthiness of a local."""
    from .cfg import canon_fact, explore

    want = canon_fact(ast.parse(text, mode="eval").body, pol)
    reb = set(rebinding)

    def transfer(n, val):
        if val and n.kind in ("stmt", "for", "with") and n.ast is not None:
            if n.kind == "stmt":
                ap = q.assigned_paths(n.ast)
            elif n.kind == "for":
                ap = q.assigned_paths(ast.Assign(targets=[n.ast.target], value=ast.Constant(value=None)))
            else:
                ap = set()
                for it in n.ast.items:
                    if it.optional_vars is not None:
                        ap |= q.assigned_paths(ast.Assign(targets=[it.optional_vars], value=ast.Constant(value=None)))
            if ap & reb:
                return False
        return val

    def edge(n, kind, val):
        if n.kind == "test" and kind in ("true", "false"):
            cf = canon_fact(n.ast, kind == "true")
            if cf == want:
                return True
            if cf[0] == want[0]:
                return False
        return val

    seen = explore(cfg, False, transfer, lambda t: False, edge_transfer=edge)
    return {nid: all(v for _f, v in sts) for nid, sts in seen.items()}


def alias_expand(fn: ast.AST, e: Optional[ast.AST], depth: int = 6) -> Optional[ast.AST]:
    """Copy of expression ``e`` (of function ``fn``) in which every local name that is bound exactly once,
    by a plain assignment, is replaced by the expression it was bound to (recursively).  Lets a rule see
    through temporaries, named booleans and aliases (``old = self.pos`` ... ``f(old)`` reads as ``f(self.pos)``)."""
    import copy

    if e is None:
        return None

    class T(ast.NodeTransformer):
        def __init__(self, d):
            self.d = d

        def visit_Name(self, node):
            if isinstance(node.ctx, ast.Load) and self.d > 0:
                v = single_assignment(fn, node.id)
                if v is not None and not any(isinstance(x, (ast.Await, ast.Yield, ast.YieldFrom, ast.NamedExpr)) for x in ast.walk(v)):
                    return T(self.d - 1).visit(copy.deepcopy(v))
            return node

        def visit_Lambda(self, node):
            return node

    return T(depth).visit(copy.deepcopy(e))


def xdotted(fn: ast.AST, e: Optional[ast.AST]) -> Optional[str]:
    """q.dotted after alias expansion."""
    return q.dotted(alias_expand(fn, e)) if e is not None else None


def xunparse(fn: ast.AST, e: Optional[ast.AST]) -> Optional[str]:
    return q.unparse(alias_expand(fn, e)) if e is not None else None


def iter_order(it: ast.AST, coll: str) -> Optional[str]:
    """How a loop iterable walks the collection at dotted path ``coll``: 'forward' (all elements, in
    order), 'reversed', 'reordered', 'partial' (a proper slice); None if not understood."""
    if q.dotted(it) == coll:
        return "forward"
    if isinstance(it, ast.Call) and isinstance(it.func, ast.Name) and len(it.args) >= 1:
        inner = iter_order(it.args[0], coll)
        if it.func.id in ("list", "tuple", "iter", "enumerate") and inner:
            return inner
        if it.func.id == "reversed" and inner:
            return {"forward": "reversed", "reversed": "forward"}.get(inner, inner)
        if it.func.id == "sorted" and inner:
            return "reordered"
    if isinstance(it, ast.Subscript) and isinstance(it.slice, ast.Slice) and q.dotted(it.value) == coll:
        st = it.slice.step
        whole = it.slice.lower is None and it.slice.upper is None
        if st is None:
            return "forward" if whole else "partial"
        try:
            neg = q.fold(st, {}) == -1
        except q.NotFoldable:
            return None
        return "reversed" if (neg and whole) else "partial"
    return None


def own_nodes(fn: ast.AST):
    """Nodes of the function's own scope.  Unlike ``q.walk_body`` this does not enter nested function /
    class definitions that are direct statements of the body (the definition node itself is yielded)."""
    for st in fn.body:
        if isinstance(st, q.ScopeNode):
            yield st
        else:
            yield from q.walk_local(st)


def single_assignment(fn: ast.AST, name: str) -> Optional[ast.AST]:
    """The value of ``name = <value>`` when that plain assignment is the only binding of ``name`` in
    the function's own scope (None for parameters, names bound twice, loop/with/unpack targets)."""
    a = fn.args
    params = {x.arg for x in a.posonlyargs + a.args + a.kwonlyargs} | {x.arg for x in (a.vararg, a.kwarg) if x is not None}
    if name in params:
        return None
    binds = [n for n in own_nodes(fn) if isinstance(n, ast.Name) and n.id == name and isinstance(n.ctx, (ast.Store, ast.Del))]
    if len(binds) != 1:
        return None
    for n in own_nodes(fn):
        if isinstance(n, ast.Assign) and len(n.targets) == 1 and n.targets[0] is binds[0]:
            return n.value
        if isinstance(n, ast.AnnAssign) and n.target is binds[0] and n.value is not None:
            return n.value
    return None


def dict_literal(e: ast.AST) -> Optional[Dict[object, ast.AST]]:
    if isinstance(e, ast.Dict) and all(isinstance(k, ast.Constant) for k in e.keys):
        return {k.value: v for k, v in zip(e.keys, e.values)}
    return None


def const_collection(e: ast.AST) -> Optional[Set[object]]:
    """Elements of a tuple/list/set literal (or ``frozenset/set/tuple/list(<literal>)``) of constants."""
    if isinstance(e, ast.Call) and isinstance(e.func, ast.Name) and e.func.id in ("frozenset", "set", "tuple", "list") and len(e.args) == 1 and not e.keywords:
        return const_collection(e.args[0])
    if isinstance(e, (ast.Tuple, ast.List, ast.Set)) and all(isinstance(x, ast.Constant) for x in e.elts):
        return {x.value for x in e.elts}
    return None


def value_oracle(fn: ast.AST, var: str, value: object) -> Callable[[Node], Optional[bool]]:
    """Oracle for :func:`walk`: decide tests from the concrete ``value`` of the dispatch variable."""

    def table_lookup(name: str) -> Optional[Tuple[bool, object]]:
        """``name`` is bound once to ``D.get(var)`` with ``D`` bound once to a dict literal: returns
        (found, value node)."""
        v = single_assignment(fn, name)
        if isinstance(v, ast.Call) and isinstance(v.func, ast.Attribute) and v.func.attr == "get" and len(v.args) == 1 and not v.keywords and isinstance(v.args[0], ast.Name) and v.args[0].id == var and isinstance(v.func.value, (ast.Name, ast.Dict)):
            d = single_assignment(fn, v.func.value.id) if isinstance(v.func.value, ast.Name) else v.func.value
            dl = dict_literal(d) if d is not None else None
            if dl is not None:
                return (value in dl, dl.get(value))
        return None

    def decide(n: Node) -> Optional[bool]:
        e = n.ast
        names = q.names_in(e)
        if names and names <= {var}:
            try:
                return bool(q.fold(e, {var: value}))
            except q.NotFoldable:
                return None
        if isinstance(e, ast.Compare) and len(e.ops) == 1 and isinstance(e.left, ast.Name) and isinstance(e.comparators[0], ast.Constant) and e.comparators[0].value is None and isinstance(e.ops[0], (ast.Is, ast.IsNot)):
            r = table_lookup(e.left.id)
            if r is not None:
                found = r[0]
                return (not found) if isinstance(e.ops[0], ast.Is) else found
        return None

    return decide


def untupled(fi: FuncInfo) -> FuncInfo:
    """FuncInfo over a copy of the function in which ``a, b = x, y`` (tuple display on both sides, same length, no
    target read on the right) is written as ``a = x; b = y``.  Behaviour preserving; lets dataflow rules treat the
    components separately."""
    import copy

    node = copy.deepcopy(fi.node)

    class T(ast.NodeTransformer):
        def _split(self, st):
            if isinstance(st, ast.Assign) and len(st.targets) == 1 and isinstance(st.targets[0], ast.Tuple) and isinstance(st.value, ast.Tuple) and len(st.targets[0].elts) == len(st.value.elts) and all(isinstance(t, ast.Name) for t in st.targets[0].elts):
                tnames = {t.id for t in st.targets[0].elts}
                if not (tnames & q.names_in(st.value)):
                    return [ast.copy_location(ast.Assign(targets=[t], value=v), st) for t, v in zip(st.targets[0].elts, st.value.elts)]
            return [st]

        def generic_visit(self, n):
            super().generic_visit(n)
            for fld in ("body", "orelse", "finalbody"):
                b = getattr(n, fld, None)
                if isinstance(b, list) and b and isinstance(b[0], ast.stmt):
                    nb = []
                    for st in b:
                        nb.extend(self._split(st))
                    setattr(n, fld, nb)
            return n

    node = T().visit(node)
    ast.fix_missing_locations(node)
    return FuncInfo(fi.module, fi.qualname, node, fi.cls, fi.parent)


def unknown_private_calls(fi: FuncInfo, known: Iterable[str] = ()) -> List[str]:
    """Names of private (single leading underscore) functions/methods defined in ``fi``'s module that ``fi``
    references (calls, passes as a callback, binds with functools.partial) and that are not in ``known``."""
    m = fi.module
    known = set(known)
    private = {}
    for qn, f in m.funcs.items():
        nm = f.name
        if nm.startswith("_") and not nm.startswith("__") and ".<locals>." not in qn:
            private.setdefault(nm, []).append(qn)
    out = set()
    for n in ast.walk(fi.node):
        nm = None
        if isinstance(n, ast.Attribute) and isinstance(n.ctx, ast.Load) and n.attr in private and isinstance(n.value, ast.Name) and (n.value.id in ("self", "cls") or n.value.id in m.classes):
            nm = n.attr
        elif isinstance(n, ast.Name) and isinstance(n.ctx, ast.Load) and n.id in private and any("." not in qn for qn in private[n.id]):
            nm = n.id
        if nm and nm not in known and nm != fi.name:
            out.add(nm)
    return sorted(out)


def guard_obligations(ck, known: Iterable[str] = ()):
    """Rule 3 of the robustness rounds, enforced centrally: a failed obligation located in function F becomes an
    AnalysisError (not a VIOLATION) when F delegates to a private helper of its module that the rule does not
    follow -- the required statement may simply have moved there.  ``known``: private helpers the property's
    rules analyse in their own right (or that are irrelevant to it)."""
    if getattr(ck, "_g8_guarded", False):
        return ck
    orig = ck.ob
    known = set(known)

    def ob(rule, fi, node, ok, what, construct=None, path=None, file=None):
        if not ok and fi is not None:
            unk = unknown_private_calls(fi, known)
            if unk:
                raise AnalysisError("%s: '%s' is not established here and the function delegates to %s, which the rule does not follow (function splitting?)" % (fi.qualname, what[:120], ", ".join(unk)))
        return orig(rule, fi, node, ok, what, construct=construct, path=path, file=file)

    ck.ob = ob
    ck._g8_guarded = True
    return ck


_PLAIN_CACHE: Dict[Tuple[str, str], ast.Module] = {}


def plain_assignments(repo, relpaths: Iterable[str]):
    """Repo in which, for the given modules, every annotated assignment with a value (``x: T = v``) is written as the
    plain assignment ``x = v`` (locations kept).  Purely notational; lets rules treat both spellings alike."""
    import copy

    class T(ast.NodeTransformer):
        def visit_AnnAssign(self, node):
            self.generic_visit(node)
            if node.value is not None and isinstance(node.target, (ast.Name, ast.Attribute, ast.Subscript)):
                return ast.copy_location(ast.Assign(targets=[node.target], value=node.value), node)
            return node

    for rel in relpaths:
        if not rel.startswith("tornado/"):
            rel = "tornado/" + rel
        m = repo.module(rel)
        if not any(isinstance(n, ast.AnnAssign) and n.value is not None for n in ast.walk(m.tree)):
            continue
        key = (rel, m.digest)
        if key not in _PLAIN_CACHE:
            if len(_PLAIN_CACHE) > 16:
                _PLAIN_CACHE.clear()
            t = T().visit(copy.deepcopy(m.tree))
            ast.fix_missing_locations(t)
            _PLAIN_CACHE[key] = t
        repo = repo.with_module(rel, tree=copy.deepcopy(_PLAIN_CACHE[key]))
    return repo


# ---------------------------------------------------------------------------------------------------------
# canonical form of a module (hygiene normalisation): purely notational rewrites, each behaviour preserving


_CANON_CACHE: Dict[Tuple[str, str, Tuple[str, ...]], ast.Module] = {}


def _literal_ok(v: ast.AST) -> bool:
    if isinstance(v, ast.Constant):
        return True
    if isinstance(v, (ast.Tuple, ast.Set)) and v.elts and all(isinstance(e, ast.Constant) for e in v.elts):
        return True
    if isinstance(v, ast.UnaryOp) and isinstance(v.op, ast.USub) and isinstance(v.operand, ast.Constant):
        return True
    return False


def canonical_tree(tree: ast.Module, keep_names: Iterable[str] = ()) -> ast.Module:
    """C1 ``x: T = v`` -> ``x = v``;  C2 ``x = x + y`` -> ``x += y`` (also - and |);  C3 a module-level name bound once
    to a literal (constant / tuple or set of constants) and never rebound or shadowed is replaced by the literal at
    its uses inside functions;  C4 keyword arguments of calls to functions / methods / classes defined once in the
    module are written positionally when they continue the positional arguments in parameter order;  C5 a local
    bound once and read once, in the very next statement, is substituted there (explaining locals, ``r = E; return r``).
    Names in ``keep_names`` are never inlined (constants a rule refers to by name)."""
    import copy

    tree = copy.deepcopy(tree)
    keep = set(keep_names)

    # C1 + C2
    class T1(ast.NodeTransformer):
        def visit_AnnAssign(self, node):
            self.generic_visit(node)
            if node.value is not None and isinstance(node.target, (ast.Name, ast.Attribute, ast.Subscript)):
                return ast.copy_location(ast.Assign(targets=[node.target], value=node.value), node)
            return node

        def visit_Assign(self, node):
            self.generic_visit(node)
            if len(node.targets) == 1 and isinstance(node.targets[0], (ast.Name, ast.Attribute)) and isinstance(node.value, ast.BinOp) and isinstance(node.value.op, (ast.Add, ast.Sub, ast.BitOr)):
                if q.unparse(node.value.left) == q.unparse(node.targets[0]):
                    return ast.copy_location(ast.AugAssign(target=node.targets[0], op=node.value.op, value=node.value.right), node)
            return node

    tree = T1().visit(tree)

    # C3 module-level literals
    binds: Dict[str, List[ast.AST]] = {}
    for st in tree.body:
        if isinstance(st, ast.Assign):
            for t in st.targets:
                for nm in [x.id for x in ast.walk(t) if isinstance(x, ast.Name)]:
                    binds.setdefault(nm, []).append(st.value if isinstance(t, ast.Name) else None)
        elif isinstance(st, (ast.FunctionDef, ast.AsyncFunctionDef, ast.ClassDef)):
            binds.setdefault(st.name, []).append(None)
        elif isinstance(st, (ast.Import, ast.ImportFrom)):
            for a in st.names:
                binds.setdefault((a.asname or a.name).split(".")[0], []).append(None)
    lits = {nm: vs[0] for nm, vs in binds.items() if len(vs) == 1 and vs[0] is not None and _literal_ok(vs[0]) and nm not in keep and (nm.startswith("_") or nm.isupper())}
    # names stored anywhere else (globals rebinding, locals, parameters) are not touched in that scope
    if lits:
        class T3(ast.NodeTransformer):
            def __init__(self):
                self.shadow: List[Set[str]] = []

            def _scope(self, node):
                loc = set()
                a = node.args
                for x in a.posonlyargs + a.args + a.kwonlyargs + ([a.vararg] if a.vararg else []) + ([a.kwarg] if a.kwarg else []):
                    loc.add(x.arg)
                for n in ast.walk(node):
                    if isinstance(n, ast.Name) and isinstance(n.ctx, (ast.Store, ast.Del)):
                        loc.add(n.id)
                    elif isinstance(n, ast.Global):
                        loc.update(n.names)
                self.shadow.append(loc)
                self.generic_visit(node)
                self.shadow.pop()
                return node

            visit_FunctionDef = _scope
            visit_AsyncFunctionDef = _scope
            visit_Lambda = _scope

            def visit_Name(self, node):
                if self.shadow and isinstance(node.ctx, ast.Load) and node.id in lits and not any(node.id in s_ for s_ in self.shadow):
                    return ast.copy_location(copy.deepcopy(lits[node.id]), node)
                return node

        tree = T3().visit(tree)

    # C4 keyword -> positional for callees defined once in this module
    sigs: Dict[str, List[Tuple[List[str], bool, bool]]] = {}
    for n in ast.walk(tree):
        if isinstance(n, ast.ClassDef):
            for st in n.body:
                if isinstance(st, (ast.FunctionDef, ast.AsyncFunctionDef)):
                    ps = [a.arg for a in st.args.posonlyargs + st.args.args]
                    is_static = any(q.dotted(d) == "staticmethod" for d in st.decorator_list)
                    sigs.setdefault(st.name, []).append((ps if is_static else ps[1:], bool(st.args.vararg), True))
                    if st.name == "__init__":
                        sigs.setdefault(n.name, []).append((ps[1:], bool(st.args.vararg), False))
    for st in tree.body:
        if isinstance(st, (ast.FunctionDef, ast.AsyncFunctionDef)) and not any(q.dotted(d) in ("overload", "typing.overload") for d in st.decorator_list):
            sigs.setdefault(st.name, []).append(([a.arg for a in st.args.posonlyargs + st.args.args], bool(st.args.vararg), False))

    class T4(ast.NodeTransformer):
        def visit_Call(self, node):
            self.generic_visit(node)
            if not node.keywords or any(isinstance(a, ast.Starred) for a in node.args):
                return node
            nm = None
            if isinstance(node.func, ast.Name):
                nm = node.func.id
            elif isinstance(node.func, ast.Attribute) and isinstance(node.func.value, ast.Name) and node.func.value.id in ("self", "cls"):
                nm = node.func.attr
            elif isinstance(node.func, ast.Attribute) and isinstance(node.func.value, ast.Call) and q.dotted(node.func.value.func) == "super":
                nm = None
            cands = sigs.get(nm or "", [])
            if len(cands) != 1 or cands[0][1]:
                return node
            ps = cands[0][0]
            kws = {k.arg: k for k in node.keywords if k.arg is not None}
            i = len(node.args)
            moved = []
            while i < len(ps) and ps[i] in kws:
                moved.append(kws.pop(ps[i]))
                i += 1
            if moved:
                node.args = list(node.args) + [k.value for k in moved]
                node.keywords = [k for k in node.keywords if k not in moved]
            return node

    tree = T4().visit(tree)

    # C6 walrus evaluated first in an `if` test -> assignment statement before the `if`
    def hoist_walrus(root):
        def first_named(e):
            """the NamedExpr that is evaluated before anything else in ``e`` (or None)"""
            if isinstance(e, ast.NamedExpr):
                return e
            if isinstance(e, ast.Compare):
                return first_named(e.left)
            if isinstance(e, ast.UnaryOp):
                return first_named(e.operand)
            if isinstance(e, ast.BoolOp):
                return first_named(e.values[0])
            if isinstance(e, ast.Attribute):
                return first_named(e.value)
            if isinstance(e, ast.Call):
                return first_named(e.func)
            return None

        for owner in ast.walk(root):
            for fld in ("body", "orelse", "finalbody"):
                body = getattr(owner, fld, None)
                if not (isinstance(body, list) and body and isinstance(body[0], ast.stmt)):
                    continue
                i = 0
                while i < len(body):
                    st = body[i]
                    if isinstance(st, ast.If):
                        ne = first_named(st.test)
                        if ne is not None and isinstance(ne.target, ast.Name) and not any(isinstance(x, ast.NamedExpr) for x in ast.walk(ne.value)):
                            class R(ast.NodeTransformer):
                                def visit_NamedExpr(self, node):
                                    if node is ne:
                                        return ast.copy_location(ast.Name(id=ne.target.id, ctx=ast.Load()), node)
                                    return self.generic_visit(node)

                            st.test = R().visit(st.test)
                            body.insert(i, ast.copy_location(ast.Assign(targets=[ast.Name(id=ne.target.id, ctx=ast.Store())], value=ne.value), st))
                            i += 1
                    i += 1

    hoist_walrus(tree)

    # C5 single-use temporaries read in the very next statement
    def inline_temps(fn):
        changed = True
        rounds = 0
        while changed and rounds < 6:
            changed = False
            rounds += 1
            params = {x.arg for x in fn.args.posonlyargs + fn.args.args + fn.args.kwonlyargs} | {x.arg for x in (fn.args.vararg, fn.args.kwarg) if x is not None}
            stores: Dict[str, int] = {}
            loads: Dict[str, int] = {}
            nested_uses: Set[str] = set()
            for n in ast.walk(fn):
                if isinstance(n, ast.Name):
                    if isinstance(n.ctx, ast.Load):
                        loads[n.id] = loads.get(n.id, 0) + 1
                    else:
                        stores[n.id] = stores.get(n.id, 0) + 1
            for n in ast.walk(fn):
                if n is not fn and isinstance(n, (ast.FunctionDef, ast.AsyncFunctionDef, ast.Lambda, ast.ClassDef)):
                    for x in ast.walk(n):
                        if isinstance(x, ast.Name):
                            nested_uses.add(x.id)
            for blk_owner in ast.walk(fn):
                for fld in ("body", "orelse", "finalbody"):
                    body = getattr(blk_owner, fld, None)
                    if not (isinstance(body, list) and body and isinstance(body[0], ast.stmt)):
                        continue
                    i = 0
                    while i + 1 < len(body):
                        st, nxt = body[i], body[i + 1]
                        if isinstance(st, ast.Assign) and len(st.targets) == 1 and isinstance(st.targets[0], ast.Name):
                            nm = st.targets[0].id
                            if nm not in params and stores.get(nm) == 1 and loads.get(nm) == 1 and nm not in nested_uses and not any(isinstance(x, (ast.Await, ast.Yield, ast.YieldFrom, ast.NamedExpr)) for x in ast.walk(st.value)):
                                # where may the single read sit in the next statement?
                                if isinstance(nxt, (ast.Return, ast.Expr, ast.Assign, ast.AugAssign)):
                                    roots = [nxt]
                                elif isinstance(nxt, (ast.If, ast.While)):
                                    roots = [nxt.test] if isinstance(nxt, ast.If) else []
                                else:
                                    roots = []
                                hit = [x for r_ in roots for x in ast.walk(r_) if isinstance(x, ast.Name) and x.id == nm and isinstance(x.ctx, ast.Load)]
                                in_scope = [x for r_ in roots for x in ast.walk(r_) if isinstance(x, (ast.Lambda, ast.ListComp, ast.SetComp, ast.DictComp, ast.GeneratorExp))]
                                if len(hit) == 1 and not any(hit[0] in list(ast.walk(sc)) for sc in in_scope):
                                    val = st.value

                                    class Sub(ast.NodeTransformer):
                                        def visit_Name(self, node):
                                            if node is hit[0]:
                                                return ast.copy_location(val, node)
                                            return node

                                    if isinstance(nxt, ast.If):
                                        nxt.test = Sub().visit(nxt.test)
                                    else:
                                        body[i + 1] = Sub().visit(nxt)
                                    del body[i]
                                    changed = True
                                    loads[nm] = 0
                                    continue
                        i += 1

    for n in ast.walk(tree):
        if isinstance(n, (ast.FunctionDef, ast.AsyncFunctionDef)):
            inline_temps(n)
    ast.fix_missing_locations(tree)
    compile(tree, "<canonical>", "exec")
    return tree


def canonical(repo, relpaths: Iterable[str], keep_names: Iterable[str] = ()):
    """Repo with the given modules rewritten by :func:`canonical_tree` (cached per source digest)."""
    import copy

    for rel in relpaths:
        if not rel.startswith("tornado/"):
            rel = "tornado/" + rel
        m = repo.module(rel)
        key = (rel, m.digest, tuple(sorted(keep_names)))
        if key not in _CANON_CACHE:
            if len(_CANON_CACHE) > 16:
                _CANON_CACHE.clear()
            try:
                _CANON_CACHE[key] = canonical_tree(m.tree, keep_names)
            except (SyntaxError, ValueError, RecursionError) as e:
                raise AnalysisError("canonicalisation of %s failed: %s" % (rel, e))
        repo = repo.with_module(rel, tree=copy.deepcopy(_CANON_CACHE[key]))
    return repo


def split_ifexp_assign(repo, rel: str, func_names: Iterable[str]):
    """C7: inside the named functions, ``x = a if t else b`` (single name / attribute-path target) becomes
    ``if t: x = a`` / ``else: x = b`` - the same evaluation order, so behaviour is unchanged; analyses that
    enumerate paths (peval) then see the two cases as branches.  In memory only."""
    import copy

    if not rel.startswith("tornado/"):
        rel = "tornado/" + rel
    names = set(func_names)
    tree = copy.deepcopy(repo.module(rel).tree)

    class T(ast.NodeTransformer):
        def visit_Assign(self, node):
            if len(node.targets) == 1 and (isinstance(node.targets[0], ast.Name) or q.dotted(node.targets[0]) is not None) and isinstance(node.value, ast.IfExp):
                a = ast.copy_location(ast.Assign(targets=[copy.deepcopy(node.targets[0])], value=node.value.body), node)
                b = ast.copy_location(ast.Assign(targets=[copy.deepcopy(node.targets[0])], value=node.value.orelse), node)
                return ast.copy_location(ast.If(test=node.value.test, body=[self.visit_Assign(a)], orelse=[self.visit_Assign(b)]), node)
            return node

    changed = False
    for fn in ast.walk(tree):
        if isinstance(fn, (ast.FunctionDef, ast.AsyncFunctionDef)) and fn.name in names:
            before = ast.dump(fn)
            T().visit(fn)
            changed = changed or ast.dump(fn) != before
    if not changed:
        return repo
    ast.fix_missing_locations(tree)
    return repo.with_module(rel, tree=tree)


def _named_functions(tree, func_names):
    names = set(func_names)
    return [fn for fn in ast.walk(tree) if isinstance(fn, (ast.FunctionDef, ast.AsyncFunctionDef)) and fn.name in names]


def expand_result_variable(repo, rel: str, func_names: Iterable[str]):
    """C8: single exit with a result variable -> early returns (inside the named functions, in memory only).

    ``r = E`` in *tail position* (last statement of the if/elif/else branches, of a ``try`` body or handler without
    else/finally, nested, of the statement immediately before the function's final ``return r``) is followed by
    nothing but that ``return r``; it becomes ``return E``.  If afterwards ``r`` has one remaining definition, at the
    top level of the body, whose value is a constant or a never re-bound parameter, the final ``return r`` returns
    that value and the definition is dropped.  Anything else is left alone."""
    import copy

    if not rel.startswith("tornado/"):
        rel = "tornado/" + rel
    tree = copy.deepcopy(repo.module(rel).tree)
    changed = False
    for fn in _named_functions(tree, func_names):
        body = fn.body
        if len(body) < 2 or not isinstance(body[-1], ast.Return) or not isinstance(body[-1].value, ast.Name):
            continue
        r = body[-1].value.id
        params = {a.arg for a in fn.args.posonlyargs + fn.args.args + fn.args.kwonlyargs} | ({fn.args.vararg.arg} if fn.args.vararg else set()) | ({fn.args.kwarg.arg} if fn.args.kwarg else set())
        if r in params or any(isinstance(n, (ast.FunctionDef, ast.AsyncFunctionDef, ast.Lambda, ast.Global, ast.Nonlocal)) for n in ast.walk(fn) if n is not fn):
            continue
        hit = [False]

        def push(block):
            if not block:
                return
            last = block[-1]
            if isinstance(last, ast.Assign) and len(last.targets) == 1 and isinstance(last.targets[0], ast.Name) and last.targets[0].id == r:
                block[-1] = ast.copy_location(ast.Return(value=last.value), last)
                hit[0] = True
            elif isinstance(last, ast.If):
                push(last.body)
                push(last.orelse)
            elif isinstance(last, ast.Try) and not last.orelse and not last.finalbody:
                push(last.body)
                for h in last.handlers:
                    push(h.body)

        head = body[:-1]
        push(head)
        fn.body = head + [body[-1]]
        if not hit[0]:
            continue
        changed = True
        defs = [n for n in ast.walk(fn) if isinstance(n, ast.Name) and n.id == r and isinstance(n.ctx, (ast.Store, ast.Del))]
        loads = [n for n in ast.walk(fn) if isinstance(n, ast.Name) and n.id == r and isinstance(n.ctx, ast.Load)]
        top = [st for st in fn.body if isinstance(st, ast.Assign) and len(st.targets) == 1 and isinstance(st.targets[0], ast.Name) and st.targets[0].id == r]
        if len(defs) == 1 and len(top) == 1 and len(loads) == 1 and loads[0] is fn.body[-1].value:
            v = top[0].value
            stable_param = isinstance(v, ast.Name) and v.id in params and not any(isinstance(n, ast.Name) and n.id == v.id and isinstance(n.ctx, (ast.Store, ast.Del)) for n in ast.walk(fn))
            if isinstance(v, ast.Constant) or stable_param:
                fn.body[-1] = ast.copy_location(ast.Return(value=v), fn.body[-1])
                fn.body.remove(top[0])
    if not changed:
        return repo
    ast.fix_missing_locations(tree)
    return repo.with_module(rel, tree=tree)


def coalesce_copies(repo, rel: str, func_names: Iterable[str]):
    """C9: a plain copy ``a = b`` between two local names, outside any loop, where ``b`` is never mentioned after the
    statement and ``a`` is never mentioned before it (source order; no nested scopes): the two names denote one
    variable, so one name is used throughout (the parameter's if one is a parameter, else ``a``) and the copy is
    dropped.  Left-overs of inlined helpers (``arg__i = param`` / ``value = result__i``).  In memory only."""
    import copy

    if not rel.startswith("tornado/"):
        rel = "tornado/" + rel
    tree = copy.deepcopy(repo.module(rel).tree)
    changed = False
    for fn in _named_functions(tree, func_names):
        if any(isinstance(n, (ast.FunctionDef, ast.AsyncFunctionDef, ast.Lambda, ast.Global, ast.Nonlocal, ast.ListComp, ast.SetComp, ast.DictComp, ast.GeneratorExp)) for n in ast.walk(fn) if n is not fn):
            continue
        params = {a.arg for a in fn.args.posonlyargs + fn.args.args + fn.args.kwonlyargs} | ({fn.args.vararg.arg} if fn.args.vararg else set()) | ({fn.args.kwarg.arg} if fn.args.kwarg else set())
        for _round in range(6):
            in_loop = {id(x) for lp in ast.walk(fn) if isinstance(lp, (ast.For, ast.AsyncFor, ast.While)) for x in ast.walk(lp)}
            order = {}
            k = [0]

            def number(node):
                # evaluation-compatible source order: for an assignment the value comes before the targets
                if isinstance(node, ast.Assign):
                    number(node.value)
                    for t in node.targets:
                        number(t)
                    order[id(node)] = k[0]
                    k[0] += 1
                    return
                order[id(node)] = k[0]
                k[0] += 1
                for c in ast.iter_child_nodes(node):
                    number(c)

            number(fn)
            names = [n for n in ast.walk(fn) if isinstance(n, ast.Name)]
            done = False
            for st in [s for s in ast.walk(fn) if isinstance(s, ast.Assign)]:
                if id(st) in in_loop or len(st.targets) != 1 or not isinstance(st.targets[0], ast.Name) or not isinstance(st.value, ast.Name):
                    continue
                a, b = st.targets[0].id, st.value.id
                if a == b or a in params:
                    continue
                pos_b, pos_a = order[id(st.value)], order[id(st.targets[0])]
                if any(n.id == b and n is not st.value and order[id(n)] > pos_b for n in names):
                    continue
                if any(n.id == a and n is not st.targets[0] and order[id(n)] < pos_a for n in names):
                    continue
                if b not in params and not any(n.id == b and isinstance(n.ctx, ast.Store) for n in names):
                    continue  # b is not a local of this function
                keep, drop = (b, a) if b in params else (a, b)
                parent = None
                for p_ in ast.walk(fn):
                    for fld in ("body", "orelse", "finalbody"):
                        blk = getattr(p_, fld, None)
                        if isinstance(blk, list) and any(x is st for x in blk):
                            parent = blk
                if parent is None or len(parent) < 2:
                    continue
                parent.remove(st)
                for n in names:
                    if n.id == drop:
                        n.id = keep
                done = changed = True
                break
            if not done:
                break
    if not changed:
        return repo
    ast.fix_missing_locations(tree)
    return repo.with_module(rel, tree=tree)
