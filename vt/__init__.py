"""Static verification toolkit for tornado (pure stdlib, nothing here imports or runs tornado)."""
