"""A tiny abstract interpreter over concrete small values (ints, strs, lists, tuples, bools, None) for straight
Python function bodies: assignments, if/while/for, list building (append/extend/insert/reverse), slicing, str methods,
comprehensions, f-strings, and calls of same-class / same-module helpers (inlined, depth-limited).

It is exhaustive constant folding of the analysed *source* for a given input - no tornado code is imported or executed;
every call is dispatched by name to a small table of pure Python builtins applied to constants.  Anything outside the
modelled subset raises AnalysisError (fail closed).  Used where a rule wants "the function's result for this input"
independent of the idiom the function is written in (C46 friendly_number)."""
from __future__ import annotations

import ast
from typing import Callable, Dict, List, Optional

from . import q
from .model import AnalysisError


class _Ret(Exception):
    def __init__(self, v):
        self.v = v


class _Brk(Exception):
    pass


class _Cont(Exception):
    pass


_BUILTINS = {"str": str, "int": int, "abs": abs, "len": len, "range": range, "reversed": lambda x: list(reversed(x)), "list": list, "tuple": tuple, "max": max, "min": min,
             "sorted": sorted, "divmod": divmod, "bool": bool, "format": format, "repr": repr, "sum": sum, "enumerate": lambda x, *a: list(enumerate(x, *a)), "zip": lambda *a: list(zip(*a)),
             "iter": iter, "next": next, "any": any, "all": all}
_STR_METHODS = {"join", "lstrip", "rstrip", "strip", "startswith", "endswith", "replace", "zfill", "format", "split", "rjust", "ljust", "lower", "upper", "isdigit", "partition", "rpartition"}
_LIST_METHODS = {"append", "extend", "insert", "reverse", "pop", "index", "copy"}
_OK = (int, str, list, tuple, bool, type(None), range, float)


class Mini:
    def __init__(self, resolve_call: Optional[Callable] = None, attrs: Optional[Dict[str, object]] = None, max_steps: int = 5000, max_depth: int = 3):
        self.resolve_call = resolve_call  # (call node) -> ast.FunctionDef | None   (helpers / recursion)
        self.attrs = attrs or {}          # dotted attribute paths with known values ("self.code": "en_US")
        self.steps = 0
        self.max_steps = max_steps
        self.max_depth = max_depth

    def fail(self, node, why=""):
        raise AnalysisError("mini-evaluator: %s not modelled%s" % (q.unparse(node)[:60] if isinstance(node, ast.AST) else node, (" (%s)" % why) if why else ""))

    def tick(self):
        self.steps += 1
        if self.steps > self.max_steps:
            raise AnalysisError("mini-evaluator: step limit exceeded")

    # -- functions -----------------------------------------------------------
    def call_function(self, fn: ast.AST, args: List[object], depth: int = 0):
        if depth > self.max_depth:
            raise AnalysisError("mini-evaluator: call depth exceeded")
        a = fn.args
        params = [x.arg for x in a.posonlyargs + a.args]
        if params and params[0] in ("self", "cls") and not any(q.dotted(d) == "staticmethod" for d in fn.decorator_list):
            params = params[1:]
        if a.vararg or a.kwarg or len(args) > len(params):
            self.fail(fn.name, "signature")
        env = dict(zip(params, args))
        defaults = a.defaults
        for p, d in zip(params[len(params) - len(defaults):], defaults):
            if p not in env:
                env[p] = self.expr(d, {}, depth)
        if len(env) != len(params):
            self.fail(fn.name, "missing argument")
        try:
            self.block(fn.body, env, depth)
        except _Ret as r:
            return r.v
        return None

    # -- statements -----------------------------------------------------------
    def block(self, stmts, env, depth):
        for st in stmts:
            self.stmt(st, env, depth)

    def assign(self, t, v, env, depth):
        if isinstance(t, ast.Name):
            env[t.id] = v
        elif isinstance(t, (ast.Tuple, ast.List)):
            vs = list(v)
            if len(vs) != len(t.elts):
                self.fail(t, "unpack arity")
            for tt, vv in zip(t.elts, vs):
                self.assign(tt, vv, env, depth)
        elif isinstance(t, ast.Subscript) and isinstance(self.expr(t.value, env, depth), list) and not isinstance(t.slice, ast.Slice):
            self.expr(t.value, env, depth)[self.expr(t.slice, env, depth)] = v
        else:
            self.fail(t, "assignment target")

    def stmt(self, st, env, depth):
        self.tick()
        if isinstance(st, ast.Expr):
            if isinstance(st.value, ast.Constant):
                return
            self.expr(st.value, env, depth)
        elif isinstance(st, ast.Assign):
            v = self.expr(st.value, env, depth)
            for t in st.targets:
                self.assign(t, v, env, depth)
        elif isinstance(st, ast.AnnAssign):
            if st.value is not None:
                self.assign(st.target, self.expr(st.value, env, depth), env, depth)
        elif isinstance(st, ast.AugAssign):
            cur = self.expr(ast.copy_location(_load(st.target), st.target), env, depth)
            v = self.binop(st.op, cur, self.expr(st.value, env, depth), st)
            self.assign(st.target, v, env, depth)
        elif isinstance(st, ast.Return):
            raise _Ret(self.expr(st.value, env, depth) if st.value is not None else None)
        elif isinstance(st, ast.If):
            self.block(st.body if self.expr(st.test, env, depth) else st.orelse, env, depth)
        elif isinstance(st, ast.While):
            while self.expr(st.test, env, depth):
                self.tick()
                try:
                    self.block(st.body, env, depth)
                except _Brk:
                    break
                except _Cont:
                    continue
            else:
                self.block(st.orelse, env, depth)
        elif isinstance(st, ast.For):
            broke = False
            for v in list(self.expr(st.iter, env, depth)):
                self.tick()
                self.assign(st.target, v, env, depth)
                try:
                    self.block(st.body, env, depth)
                except _Brk:
                    broke = True
                    break
                except _Cont:
                    continue
            if not broke:
                self.block(st.orelse, env, depth)
        elif isinstance(st, ast.Break):
            raise _Brk()
        elif isinstance(st, ast.Continue):
            raise _Cont()
        elif isinstance(st, ast.Pass):
            return
        elif isinstance(st, ast.Assert):
            if not self.expr(st.test, env, depth):
                raise AnalysisError("mini-evaluator: assertion %s fails on the folded input" % q.unparse(st.test)[:60])
        else:
            self.fail(st, "statement")

    # -- expressions -----------------------------------------------------------
    def binop(self, op, a, b, node):
        try:
            if isinstance(op, ast.Add):
                return a + b
            if isinstance(op, ast.Sub):
                return a - b
            if isinstance(op, ast.Mult):
                return a * b
            if isinstance(op, ast.FloorDiv):
                return a // b
            if isinstance(op, ast.Mod):
                return a % b
            if isinstance(op, ast.Div):
                return a / b
            if isinstance(op, ast.Pow) and isinstance(a, int) and isinstance(b, int) and 0 <= b < 64:
                return a ** b
        except Exception as e:
            raise AnalysisError("mini-evaluator: %s raises %s on the folded input" % (q.unparse(node)[:60], type(e).__name__))
        self.fail(node, "operator")

    def expr(self, e, env, depth):
        self.tick()
        if isinstance(e, ast.Constant):
            return e.value
        if isinstance(e, ast.Name):
            if e.id in env:
                return env[e.id]
            if e.id in ("True", "False", "None"):
                return {"True": True, "False": False, "None": None}[e.id]
            self.fail(e, "unbound name")
        if isinstance(e, ast.Attribute):
            d = q.dotted(e)
            if d in self.attrs:
                return self.attrs[d]
            self.fail(e, "attribute")
        if isinstance(e, (ast.Tuple, ast.List, ast.Set)):
            vals = []
            for x in e.elts:
                if isinstance(x, ast.Starred):
                    vals.extend(self.expr(x.value, env, depth))
                else:
                    vals.append(self.expr(x, env, depth))
            return tuple(vals) if isinstance(e, ast.Tuple) else (vals if isinstance(e, ast.List) else frozenset(vals))
        if isinstance(e, ast.BinOp):
            return self.binop(e.op, self.expr(e.left, env, depth), self.expr(e.right, env, depth), e)
        if isinstance(e, ast.UnaryOp):
            v = self.expr(e.operand, env, depth)
            if isinstance(e.op, ast.Not):
                return not v
            if isinstance(e.op, ast.USub):
                return -v
            if isinstance(e.op, ast.UAdd):
                return +v
            self.fail(e)
        if isinstance(e, ast.BoolOp):
            v = None
            for x in e.values:
                v = self.expr(x, env, depth)
                if isinstance(e.op, ast.And) and not v:
                    return v
                if isinstance(e.op, ast.Or) and v:
                    return v
            return v
        if isinstance(e, ast.Compare):
            left = self.expr(e.left, env, depth)
            for op, r in zip(e.ops, e.comparators):
                right = self.expr(r, env, depth)
                try:
                    ok = {ast.Eq: lambda: left == right, ast.NotEq: lambda: left != right, ast.Lt: lambda: left < right, ast.LtE: lambda: left <= right, ast.Gt: lambda: left > right,
                          ast.GtE: lambda: left >= right, ast.In: lambda: left in right, ast.NotIn: lambda: left not in right, ast.Is: lambda: left is right, ast.IsNot: lambda: left is not right}[type(op)]()
                except Exception as ex:
                    raise AnalysisError("mini-evaluator: comparison %s raises %s" % (q.unparse(e)[:60], type(ex).__name__))
                if not ok:
                    return False
                left = right
            return True
        if isinstance(e, ast.IfExp):
            return self.expr(e.body if self.expr(e.test, env, depth) else e.orelse, env, depth)
        if isinstance(e, ast.Subscript):
            base = self.expr(e.value, env, depth)
            if not isinstance(base, (str, list, tuple, range)):
                self.fail(e, "subscript base")
            try:
                if isinstance(e.slice, ast.Slice):
                    lo = self.expr(e.slice.lower, env, depth) if e.slice.lower is not None else None
                    hi = self.expr(e.slice.upper, env, depth) if e.slice.upper is not None else None
                    stp = self.expr(e.slice.step, env, depth) if e.slice.step is not None else None
                    return base[lo:hi:stp]
                return base[self.expr(e.slice, env, depth)]
            except Exception as ex:
                raise AnalysisError("mini-evaluator: %s raises %s on the folded input" % (q.unparse(e)[:60], type(ex).__name__))
        if isinstance(e, ast.JoinedStr):
            out = ""
            for v in e.values:
                if isinstance(v, ast.Constant):
                    out += str(v.value)
                else:
                    val = self.expr(v.value, env, depth)
                    spec = self.expr(v.format_spec, env, depth) if v.format_spec is not None else ""
                    if v.conversion == 114:
                        val = repr(val)
                    elif v.conversion == 115:
                        val = str(val)
                    out += format(val, spec)
            return out
        if isinstance(e, (ast.ListComp, ast.GeneratorExp, ast.SetComp)):
            out = []

            def gen(i, env2):
                if i == len(e.generators):
                    out.append(self.expr(e.elt, env2, depth))
                    return
                g = e.generators[i]
                for v in list(self.expr(g.iter, env2, depth)):
                    self.tick()
                    env3 = dict(env2)
                    self.assign(g.target, v, env3, depth)
                    if all(self.expr(c, env3, depth) for c in g.ifs):
                        gen(i + 1, env3)

            gen(0, dict(env))
            return out
        if isinstance(e, ast.Call):
            return self.call(e, env, depth)
        self.fail(e, "expression")

    def call(self, e, env, depth):
        args = []
        for a in e.args:
            if isinstance(a, ast.Starred):
                args.extend(self.expr(a.value, env, depth))
            else:
                args.append(self.expr(a, env, depth))
        kwargs = {k.arg: self.expr(k.value, env, depth) for k in e.keywords if k.arg is not None}
        if any(k.arg is None for k in e.keywords):
            self.fail(e, "**kwargs")
        f = e.func
        if self.resolve_call is not None:
            fn = self.resolve_call(e)
            if fn is not None:
                if kwargs:
                    self.fail(e, "keyword arguments to a helper")
                return self.call_function(fn, args, depth + 1)
        try:
            if isinstance(f, ast.Name) and f.id in _BUILTINS:
                v = _BUILTINS[f.id](*args, **kwargs)
                return list(v) if not isinstance(v, _OK) and hasattr(v, "__iter__") and f.id not in ("iter",) else v
            if isinstance(f, ast.Attribute):
                recv = self.expr(f.value, env, depth)
                if isinstance(recv, str) and f.attr in _STR_METHODS:
                    if f.attr == "join":
                        return recv.join(list(args[0]))
                    return getattr(recv, f.attr)(*args, **kwargs)
                if isinstance(recv, list) and f.attr in _LIST_METHODS:
                    if f.attr == "extend":
                        recv.extend(list(args[0]))
                        return None
                    return getattr(recv, f.attr)(*args)
        except AnalysisError:
            raise
        except Exception as ex:
            raise AnalysisError("mini-evaluator: %s raises %s on the folded input" % (q.unparse(e)[:60], type(ex).__name__))
        self.fail(e, "call")


def _load(t):
    import copy
    t2 = copy.deepcopy(t)
    for n in ast.walk(t2):
        if hasattr(n, "ctx"):
            n.ctx = ast.Load()
    return t2
