"""Path-sensitive "event or guard" requirements (thin wrapper over cfg.explore).

``must_facts`` intersects at joins, so a requirement of the form *"on every path
to N either guard G holds or event E happened"* is lost when the two
alternatives arrive on different branches (``if x is not None: fix(x)``).
``path_states`` keeps the alternatives apart: it propagates (tracked branch
facts, set of event names) pairs with :func:`vt.cfg.explore`.

API
---
``path_states(fi, track, events, kills=None, follow_exc=True)`` -> states at node entry
``satisfied(states, node, alts)`` -> True / False / None (node unreachable); ``alts`` is a list of
    ("fact", "<expr text>", polarity) | ("event", name); every state must satisfy at least one.
``reachable_from(cfg, node, kinds=None)`` -> ids of nodes reachable from ``node`` (optionally only along
    the given edge kinds from the first step, all kinds afterwards; exception edges excluded by default).
"""
from __future__ import annotations

import ast
from typing import Callable, Dict, Iterable, List, Optional, Set, Tuple

from .cfg import CFG, Node, canon_fact, explore
from .model import FuncInfo

NodePred = Callable[[Node], bool]


def _canon(text: str, pol: bool):
    return canon_fact(ast.parse(text, mode="eval").body, pol)


def path_states(fi: FuncInfo, track: Iterable[str], events: Dict[str, NodePred], kills: Optional[Dict[str, NodePred]] = None, follow_exc: bool = True, cfg: Optional[CFG] = None):
    """States (facts, frozenset(event names)) at the entry of every CFG node.
    ``track``: expression texts of the branch predicates to fork on (canonicalised)."""
    kills = kills or {}
    tracked = {_canon(t, True)[0] for t in track}

    def transfer(n: Node, val):
        if n.kind in ("exit", "rexit", "entry"):
            return val
        for name, p in kills.items():
            if name in val and p(n):
                val = val - {name}
        for name, p in events.items():
            if name not in val and p(n):
                val = val | {name}
        return val

    return explore(cfg or fi.cfg, frozenset(), transfer, lambda t: t in tracked, follow_exc=follow_exc)


def satisfied(states, node: Node, alts: List[tuple]) -> Optional[bool]:
    sts = states.get(node.id, ())
    if not sts:
        return None
    calts = []
    for a in alts:
        if a[0] == "fact":
            calts.append(("fact", _canon(a[1], a[2])))
        else:
            calts.append(a)
    for facts, val in sts:
        ok = False
        for a in calts:
            if a[0] == "fact" and a[1] in facts:
                ok = True
            elif a[0] == "event" and a[1] in val:
                ok = True
        if not ok:
            return False
    return True


def reachable_from(cfg: CFG, node: Node, exc: bool = False) -> Set[int]:
    seen: Set[int] = set()
    st = [sid for sid, k in cfg.succ[node.id] if exc or k != "exc"]
    while st:
        x = st.pop()
        if x in seen:
            continue
        seen.add(x)
        st.extend(sid for sid, k in cfg.succ[x] if exc or k != "exc")
    return seen


def dominance_facts(fi: FuncInfo, target: Node):
    """Branch facts that hold at ``target`` by *dominance*: a test node dominates ``target``, ``target`` is reachable
    from only one of its two edges, and no name the condition mentions is assigned on any path
    after the test.  Unlike must-facts these are not lost when the
    mentioned names are merely *passed* to a call (``filter(None, parts)``) — passing a list or an int does not change
    ``len(parts) > limit``; callers use this for conditions over immutable values / lengths only."""
    from . import q as _q

    cfg = fi.cfg
    out = set()
    dom = cfg.dominators().get(target.id, set())
    for t in cfg.nodes:
        if t.kind != "test" or t.id not in dom or t.id == target.id:
            continue
        succ_t = [sid for sid, k in cfg.succ[t.id] if k == "true"]
        succ_f = [sid for sid, k in cfg.succ[t.id] if k == "false"]

        def reach(starts):
            seen = set()
            st = list(starts)
            while st:
                x = st.pop()
                if x in seen:
                    continue
                seen.add(x)
                st.extend(sid for sid, _k in cfg.succ[x])
            return seen

        rt, rf = reach(succ_t), reach(succ_f)
        via_t, via_f = target.id in rt, target.id in rf
        if via_t == via_f:
            continue
        after = rt | rf
        ok = True
        for p in _q.paths_in(t.ast):
            for st in _q.stores_to(fi.node, p):
                for nd in cfg.nodes_for(st):
                    if nd.id in after:
                        ok = False   # re-assigned after the test: the fact may be stale at the target
        if ok:
            out.add(canon_fact(t.ast, via_t))
    return out
