"""Rules shared by the IOStream properties (C11, C13).

* :func:`read_end_mode` - every function that ends a read (``self._read_future
  = None``) leaves caller-buffer mode (``_user_read_buffer`` False) on every
  normal path through that statement.
* :func:`take_and_clear` - callback/future attribute used only through
  take-and-clear (including uses inside lambdas).
"""
from __future__ import annotations

import ast
from typing import Dict, List, Set

from . import q
from .cfg import explore, canon_fact
from .rules import event_facts, node_assigns, is_none
from .x_guardflow import ClassEffects, guard_facts, edge_facts

IO = "tornado/iostream.py"
# private functions of today's iostream.py that the rules anchor on (or that are long-standing helpers):
# they are never inlined; private helpers a refactoring introduces are (x_inline)
KEEP_IOSTREAM = {
    "_add_io_state", "_check_closed", "_check_max_bytes", "_consume", "_do_ssl_handshake", "_find_read_pos", "_finish_read",
    "_finish_ssl_connect", "_handle_connect", "_handle_events", "_handle_read", "_handle_write", "_is_connreset",
    "_maybe_add_error_listener", "_read_from_buffer", "_read_to_buffer", "_read_to_buffer_loop", "_signal_closed", "_start_read",
    "_try_inline_read",
}


def normalised(ck):
    """Replace ck.repo by a copy in which the private helpers a refactoring may have
    split off the anchored iostream functions are inlined again."""
    from .x_inline import inline_repo

    ck.repo = inline_repo(ck.repo, [IO], KEEP_IOSTREAM, tail_returns=True, join_index=True)
    return ck.repo


FAMILY = [(IO, "BaseIOStream"), (IO, "IOStream"), (IO, "SSLIOStream"), (IO, "PipeIOStream")]


def read_end_mode(ck, rule: str) -> int:
    """Returns the number of read-ending sites examined."""
    eff = ClassEffects(ck.repo, FAMILY)
    FLAG = "self._user_read_buffer"
    n_sites = 0
    for rel, cls in FAMILY:
        for fi in ck.repo.direct_methods(rel, cls):
            ends = fi.cfg.stmt_nodes(lambda n: n.kind == "stmt" and isinstance(n.ast, (ast.Assign, ast.AnnAssign)) and "self._read_future" in q.assigned_paths(n.ast) and is_none(n.ast.value))
            if not ends or fi.name == "__init__":
                continue
            eid = {n.id for n in ends}
            gfx = guard_facts(fi, eff)

            def tr(n, val):
                pending, flag = val
                if n.kind == "stmt" and isinstance(n.ast, (ast.Assign, ast.AnnAssign)) and FLAG in q.assigned_paths(n.ast):
                    v = n.ast.value
                    flag = False if (isinstance(v, ast.Constant) and v.value is False) else "?"
                elif n.kind in ("stmt", "test") and n.ast is not None:
                    for c in q.calls(n.ast):
                        if q.receiver(c) == "self":
                            w = eff.writes(q.call_attr(c))
                            if w is None or FLAG in w:
                                flag = "?"
                if n.id in eid:
                    pending = pending | {n.id}
                return (pending, flag)

            def edge(n, kind, val):
                pending, flag = val
                for t, pol in edge_facts(n, kind, gfx):
                    if t == FLAG:
                        flag = False if pol is False else "?"
                return (pending, flag)

            seen = explore(fi.cfg, (frozenset(), "?"), tr, lambda t: False, edge_transfer=edge, follow_exc=False)
            bad: Set[int] = set()
            for _f, (pending, flag) in seen.get(fi.cfg.exit.id, ()):
                if flag is not False:
                    bad |= set(pending)
            for n in ends:
                n_sites += 1
                ck.ob(rule, fi, n.ast, n.id not in bad,
                      "a function that ends a read (self._read_future = None) leaves caller-buffer mode: _user_read_buffer is False on every normal path through it (else the next read returns an int and reads into the caller's old buffer)")
    return n_sites


def take_and_clear(ck, rule: str, methods, attr: str) -> Dict[str, list]:
    """Every load of self.<attr> in ``methods`` is a None test, a truth test in a
    condition, or a *take* (``x = self.attr``); every use of a taken alias
    happens after ``self.attr = None`` on every path.  Returns {qualname: takes}."""
    path = "self." + attr
    takes: Dict[str, list] = {}
    for fi in methods:
        pm = q.parent_map(fi.node)
        aliases: Set[str] = set()
        for n in ast.walk(fi.node):
            if not (isinstance(n, ast.Attribute) and isinstance(n.ctx, ast.Load) and q.dotted(n) == path):
                continue
            p = pm.get(n)
            if isinstance(p, ast.Compare) and len(p.ops) == 1 and isinstance(p.ops[0], (ast.Is, ast.IsNot)) and any(isinstance(c, ast.Constant) and c.value is None for c in [p.left] + p.comparators):
                continue
            if isinstance(p, (ast.If, ast.While, ast.BoolOp, ast.IfExp)) or (isinstance(p, ast.UnaryOp) and isinstance(p.op, ast.Not)):
                continue  # truthiness test
            if isinstance(p, ast.Assign) and p.value is n and len(p.targets) == 1 and isinstance(p.targets[0], ast.Name):
                aliases.add(p.targets[0].id)
                takes.setdefault(fi.qualname, []).append(p)
                continue
            ck.ob(rule, fi, q.enclosing_stmt(pm, n), False, "%s is called / passed on directly instead of through take-and-clear" % path)
        if not aliases:
            continue
        cleared = event_facts(
            fi,
            {"cleared": node_assigns(path, is_none)},
            {"cleared": lambda n: n.kind == "stmt" and isinstance(n.ast, (ast.Assign, ast.AnnAssign)) and path in q.assigned_paths(n.ast) and not is_none(n.ast.value)},
            cond_facts=False,
        )
        for n in ast.walk(fi.node):
            if isinstance(n, ast.Name) and isinstance(n.ctx, ast.Load) and n.id in aliases:
                par = pm.get(n)
                if isinstance(par, ast.Compare) and len(par.ops) == 1 and isinstance(par.ops[0], (ast.Is, ast.IsNot)):
                    continue  # testing the taken value is not a use
                if isinstance(par, (ast.If, ast.While, ast.BoolOp)) or (isinstance(par, ast.UnaryOp) and isinstance(par.op, ast.Not)):
                    continue
                st = q.enclosing_stmt(pm, n)
                nodes = fi.cfg.nodes_for(st) or [m for m in fi.cfg.stmt_nodes() if m.ast is st]
                if not nodes:
                    nodes = [m for m in fi.cfg.stmt_nodes() if m.ast is not None and any(x is n for x in ast.walk(m.ast))]
                ck.need(nodes, "use of %s in %s not found on the CFG" % (n.id, fi.qualname))
                ok = all(("@cleared", True) in cleared[m.id] for m in nodes)
                ck.ob(rule, fi, st, ok, "the taken %s is used only after %s = None (no second invocation possible)" % (attr, path))
    return takes


def close_completes_reads(ck, rule: str) -> None:
    """BaseIOStream.close(): a pending until-close read is finished and any other pending read is checked
    against the buffered data before the fd is closed - on every path, whatever the reason of the close."""
    from .rules import node_calls
    from .x_guardflow import has

    eff = ClassEffects(ck.repo, FAMILY)
    fi = ck.func(IO, "BaseIOStream.close")
    cfg = fi.cfg
    gf = guard_facts(fi, eff)
    fds = cfg.stmt_nodes(node_calls("self.close_fd"))
    ck.floor(rule, len(fds), 1, "close_fd calls in close()")
    # satisfiable pending reads are completed first
    def tr2(n, val):
        uc, rf, fin, srch = val
        if n.kind == "stmt":
            if any(q.is_call(c, "self._finish_read") for c in q.calls(n.ast)):
                fin = True
            if any(q.is_call(c, "self._find_read_pos") for c in q.calls(n.ast)):
                srch = True
        return (uc, rf, fin, srch)

    def edge2(n, kind, val):
        uc, rf, fin, srch = val
        for t, pol in edge_facts(n, kind, gf):
            if t == "self._read_until_close":
                uc = pol
            elif t == "self._read_future is None":
                rf = not pol  # rf: a read is pending
        return (uc, rf, fin, srch)

    seen = explore(cfg, (None, None, False, False), tr2, lambda t: False, edge_transfer=edge2, follow_exc=False)
    n_st = 0
    for f in fds:
        for _facts, (uc, rf, fin, srch) in sorted(seen.get(f.id, ()), key=repr):
            n_st += 1
            if uc is True:
                ck.ob(rule, fi, f.ast, fin, "a pending read_until_close is completed with the buffered data before the fd is closed", construct="until-close read finished before close_fd: %s" % fin)
            elif rf is True:
                ck.ob(rule, fi, f.ast, srch, "a pending read is checked against the buffered data (_find_read_pos) before the fd is closed", construct="pending read searched before close_fd: %s" % srch)
            elif uc is None or (uc is False and rf is None):
                ck.ob(rule, fi, f.ast, False, "close() examines the until-close flag and the pending read before closing the fd", construct="close_fd reached without examining pending reads (until_close=%s pending=%s)" % (uc, rf))
            else:
                ck.ob(rule, fi, f.ast, True, "no read pending on this path")
    ck.floor(rule, n_st, 1, "path states at close_fd")
    kinds = [(uc, rf) for f in fds for _facts, (uc, rf, _a, _b) in seen.get(f.id, ())]
    ck.ob(rule, fi, fi.node, any(uc is True for uc, _rf in kinds), "close() distinguishes a pending read_until_close", construct="close() tests _read_until_close")
    ck.ob(rule, fi, fi.node, any(rf is True for _uc, rf in kinds), "close() distinguishes a pending (other) read", construct="close() tests _read_future")
    # the until-close flag is consumed
    for n in cfg.stmt_nodes(node_calls("self._finish_read")):
        ck.ob(rule, fi, n.ast, has(gf[n.id], "self._read_until_close", False), "the until-close mode is cleared before its read is finished")
    for n in cfg.stmt_nodes(node_calls("self._read_from_buffer")):
        c = q.find_calls(n.ast, "self._read_from_buffer")[0]
        v = q.dotted(c.args[0]) if c.args else None
        ck.ob(rule, fi, n.ast, bool(v) and has(gf[n.id], "%s is None" % v, False), "only a found position completes the pending read at close")

