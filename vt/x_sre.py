"""Small structural queries on regular expressions via the stdlib parser (``re._parser``).

The pattern text is taken statically from the analysed source (a string constant handed to
``re.compile`` / ``re.sub``); nothing from the analysed tree is imported or executed.  Only the regex
*AST* is inspected: which characters an atom can match, the finite strings a literal run denotes,
bounds on match length.  Unknown constructs raise AnalysisError (fail closed).
"""
from __future__ import annotations

import ast
import re
from typing import Callable, Iterable, List, Optional, Sequence, Set, Tuple

try:  # 3.11+
    import re._parser as sre_parse
    import re._constants as sre_c
except ImportError:  # pragma: no cover
    import sre_parse  # type: ignore
    import sre_constants as sre_c  # type: ignore

from . import q
from .model import AnalysisError

MAXREPEAT = sre_c.MAXREPEAT
_OP = {name: getattr(sre_c, name) for name in (
    "LITERAL", "NOT_LITERAL", "ANY", "IN", "BRANCH", "SUBPATTERN", "MAX_REPEAT", "MIN_REPEAT", "AT", "CATEGORY",
    "RANGE", "NEGATE", "ASSERT", "ASSERT_NOT", "GROUPREF",
)}
POSSESSIVE = getattr(sre_c, "POSSESSIVE_REPEAT", None)
ATOMIC = getattr(sre_c, "ATOMIC_GROUP", None)


def compiled_constant(module, e: ast.AST, wrappers: Iterable[str] = ()):
    """(pattern, flags) when ``e`` is a module-level name bound to ``re.compile(<constant>[, flags])`` or such a
    call itself; None otherwise."""
    if isinstance(e, ast.Name) and module is not None and e.id in module.assigns:
        e = module.assigns[e.id]
    if q.is_call(e, "re.compile") and e.args:
        return pattern_constant(e.args[0], wrappers, module), flag_value(q.kwarg(e, "flags") or (e.args[1] if len(e.args) > 1 else None))
    return None


def parse(pattern: str, flags: int = 0):
    try:
        return sre_parse.parse(pattern, flags)
    except Exception as e:  # re.error
        raise AnalysisError("cannot parse regular expression %r: %s" % (pattern, e))


def flag_value(e: Optional[ast.AST]) -> int:
    """Value of a flags expression built from ``re.X`` names joined with ``|`` (0 if absent)."""
    if e is None:
        return 0
    if isinstance(e, ast.BinOp) and isinstance(e.op, ast.BitOr):
        return flag_value(e.left) | flag_value(e.right)
    d = q.dotted(e)
    if d and d.startswith("re.") and hasattr(re, d[3:]) and isinstance(getattr(re, d[3:]), int):
        return int(getattr(re, d[3:]))
    if isinstance(e, ast.Constant) and isinstance(e.value, int):
        return e.value
    raise AnalysisError("regex flags expression %s not understood" % q.unparse(e))


def pattern_constant(e: ast.AST, wrappers: Iterable[str] = (), module=None, _depth: int = 0) -> str:
    """The string constant denoting a pattern: a str Constant, possibly wrapped in identity-on-str calls
    named in ``wrappers`` (e.g. ``to_unicode(r'...')``), possibly through module-level constants of
    ``module`` (a vt.model.ModuleInfo), possibly a concatenation of such."""
    while isinstance(e, ast.Call) and q.call_attr(e) in set(wrappers) and len(e.args) == 1 and not e.keywords:
        e = e.args[0]
    if isinstance(e, ast.Constant) and isinstance(e.value, str):
        return e.value
    if module is not None and isinstance(e, ast.Name) and e.id in module.assigns and _depth < 6:
        return pattern_constant(module.assigns[e.id], wrappers, module, _depth + 1)
    if isinstance(e, ast.BinOp) and isinstance(e.op, ast.Add) and _depth < 6:
        return pattern_constant(e.left, wrappers, module, _depth + 1) + pattern_constant(e.right, wrappers, module, _depth + 1)
    raise AnalysisError("pattern is not a string constant: %s" % q.unparse(e)[:80])


def _cat_matches(cat, ch: str) -> bool:
    name = str(cat)
    table = {
        "CATEGORY_SPACE": lambda c: c.isspace(),
        "CATEGORY_NOT_SPACE": lambda c: not c.isspace(),
        "CATEGORY_DIGIT": lambda c: c.isdigit(),
        "CATEGORY_NOT_DIGIT": lambda c: not c.isdigit(),
        "CATEGORY_WORD": lambda c: c.isalnum() or c == "_",
        "CATEGORY_NOT_WORD": lambda c: not (c.isalnum() or c == "_"),
    }
    if name not in table:
        raise AnalysisError("regex category %s not modelled" % name)
    return table[name](ch)


def in_matches(items, ch: str) -> bool:
    """Whether the character class ``items`` (payload of an IN node) matches ``ch``."""
    neg = False
    hit = False
    for op, av in items:
        if op is _OP["NEGATE"]:
            neg = True
        elif op is _OP["LITERAL"]:
            hit = hit or ord(ch) == av
        elif op is _OP["RANGE"]:
            hit = hit or av[0] <= ord(ch) <= av[1]
        elif op is _OP["CATEGORY"]:
            hit = hit or _cat_matches(av, ch)
        else:
            raise AnalysisError("regex class item %s not modelled" % (op,))
    return hit != neg


def atom_matches(op, av, ch: str, dotall: bool = False) -> Optional[bool]:
    """For a single-character atom: can it match ``ch``?  None if ``op`` is not a single-char atom."""
    if op is _OP["LITERAL"]:
        return ord(ch) == av
    if op is _OP["NOT_LITERAL"]:
        return ord(ch) != av
    if op is _OP["ANY"]:
        return dotall or ch != "\n"
    if op is _OP["IN"]:
        return in_matches(av, ch)
    if op is _OP["CATEGORY"]:
        return _cat_matches(av, ch)
    return None


def children(op, av) -> Optional[List[Sequence]]:
    """Sub-sequences of a composite node; [] for zero-width nodes; None for single-char atoms."""
    if op is _OP["BRANCH"]:
        return list(av[1])
    if op is _OP["SUBPATTERN"]:
        return [av[3]]
    if op in (_OP["MAX_REPEAT"], _OP["MIN_REPEAT"]) or (POSSESSIVE is not None and op is POSSESSIVE):
        return [av[2]]
    if ATOMIC is not None and op is ATOMIC:
        return [av]
    if op is _OP["AT"]:
        return []
    if op in (_OP["ASSERT"], _OP["ASSERT_NOT"]):
        return []
    if op in (_OP["LITERAL"], _OP["NOT_LITERAL"], _OP["ANY"], _OP["IN"], _OP["CATEGORY"]):
        return None
    raise AnalysisError("regex construct %s not modelled" % (op,))


def atoms(seq) -> Iterable[Tuple[object, object]]:
    """All single-character atoms of a parsed pattern (consuming positions only)."""
    for op, av in seq:
        ch = children(op, av)
        if ch is None:
            yield op, av
        else:
            for sub in ch:
                yield from atoms(sub)


def every_atom(seq, pred: Callable[[str], bool], alphabet: Iterable[str], dotall: bool = False) -> Optional[str]:
    """None if every consuming atom matches only characters of ``alphabet`` that satisfy ``pred``;
    else a witness character (an atom can match it although ``pred`` rejects it)."""
    bad = [c for c in alphabet if not pred(c)]
    for op, av in atoms(seq):
        for c in bad:
            if atom_matches(op, av, c, dotall):
                return c
    return None


def finite_strings(seq, limit: int = 256) -> Optional[Set[str]]:
    """The finite set of strings matched by ``seq`` when it consists of literals, groups and
    alternations of such (no classes, no repeats other than {1,1}); None otherwise."""
    out = {""}
    for op, av in seq:
        if op is _OP["LITERAL"]:
            out = {s + chr(av) for s in out}
        elif op is _OP["SUBPATTERN"]:
            sub = finite_strings(av[3], limit)
            if sub is None:
                return None
            out = {a + b for a in out for b in sub}
        elif op is _OP["BRANCH"]:
            alts: Set[str] = set()
            for alt in av[1]:
                sub = finite_strings(alt, limit)
                if sub is None:
                    return None
                alts |= sub
            out = {a + b for a in out for b in alts}
        elif op is _OP["AT"]:
            continue
        else:
            return None
        if len(out) > limit:
            return None
    return out


def literal_runs(seq) -> Iterable[Set[str]]:
    """For every sequence in the pattern: the string sets of its maximal runs of finite-literal items.
    Alternations whose branches are not all finite contribute each finite branch as its own run."""
    run: List = []

    def flush():
        if run:
            fs = finite_strings(run)
            if fs is not None and fs != {""}:
                yield fs
            run.clear()

    for op, av in seq:
        fs = finite_strings([(op, av)])
        if fs is not None:
            run.append((op, av))
            continue
        yield from flush()
        ch = children(op, av)
        if ch:
            for sub in ch:
                yield from literal_runs(sub)
    yield from flush()


def max_len(seq) -> Optional[int]:
    """Maximum match length (None = unbounded)."""
    total = 0
    for op, av in seq:
        ch = children(op, av)
        if ch is None:
            total += 1
        elif op is _OP["BRANCH"]:
            ms = [max_len(a) for a in ch]
            if any(m is None for m in ms):
                return None
            total += max(ms) if ms else 0
        elif op in (_OP["MAX_REPEAT"], _OP["MIN_REPEAT"]) or (POSSESSIVE is not None and op is POSSESSIVE):
            lo, hi, sub = av
            m = max_len(sub)
            if m is None or (hi == MAXREPEAT and m > 0):
                return None
            total += 0 if m == 0 else hi * m
        elif ch:
            m = max_len(ch[0])
            if m is None:
                return None
            total += m
    return total
