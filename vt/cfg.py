"""E1 — statement-level control-flow graph with exception edges.

Nodes are simple statements, *atomic* branch conditions (``and``/``or``/``not``
are split so that every branch edge carries one atomic predicate and a
polarity), loop heads, ``with`` enter/exit markers and handler entries.
``finally`` bodies are duplicated per continuation (fall-through, exception,
return, break, continue).  Two exits: ``exit`` (normal return) and ``rexit``
(an exception escapes the function).

Exception edges are coarse on purpose: every statement that contains a call,
subscript, attribute access, operator, await/yield, assert, raise, import or
unpacking may raise; plain constant/name assignments to names or ``self.x``
cannot.
"""
from __future__ import annotations

import ast
from typing import Callable, Dict, FrozenSet, Iterable, List, Optional, Set, Tuple

from .model import AnalysisError
from .q import ScopeNode, assigned_paths, dotted, fold, NotFoldable, has_suspension, paths_in, unparse, walk_local

FuncNode = (ast.FunctionDef, ast.AsyncFunctionDef)


class Node:
    __slots__ = ("id", "kind", "ast", "label", "suspends", "copy_of")

    def __init__(self, id: int, kind: str, node: Optional[ast.AST], label: str = ""):
        self.id = id
        self.kind = kind  # entry exit rexit stmt test for with withexit handler dispatch join
        self.ast = node
        self.label = label
        self.suspends = bool(node is not None and kind in ("stmt", "test", "for", "with") and _suspends(node, kind))

    @property
    def lineno(self) -> int:
        return getattr(self.ast, "lineno", 0) if self.ast is not None else 0

    def __repr__(self):
        src = ""
        if self.ast is not None and self.kind in ("stmt", "test"):
            src = unparse(self.ast).split("\n")[0][:60]
        elif self.ast is not None and self.kind == "for":
            src = "for %s in %s" % (unparse(self.ast.target), unparse(self.ast.iter)[:40])
        return "<%d %s L%d %s%s>" % (self.id, self.kind, self.lineno, src, self.label)


def _suspends(node, kind) -> bool:
    if kind == "for":
        return isinstance(node, ast.AsyncFor) or has_suspension(node.iter)
    if kind == "with":
        return isinstance(node, ast.AsyncWith) or any(has_suspension(i.context_expr) for i in node.items)
    return has_suspension(node)


_SAFE_VALUE = (ast.Constant, ast.Name)


def _safe_expr(e: Optional[ast.AST]) -> bool:
    if e is None:
        return True
    if isinstance(e, _SAFE_VALUE):
        return True
    if isinstance(e, ast.Attribute):
        return isinstance(e.value, ast.Name) and e.value.id in ("self", "cls")
    if isinstance(e, (ast.Tuple, ast.List)):
        return all(_safe_expr(x) for x in e.elts)
    if isinstance(e, ast.UnaryOp) and isinstance(e.op, ast.Not):
        return _safe_expr(e.operand)
    if isinstance(e, ast.Compare) and all(isinstance(o, (ast.Is, ast.IsNot)) for o in e.ops):
        return _safe_expr(e.left) and all(_safe_expr(c) for c in e.comparators)
    if isinstance(e, ast.BoolOp):
        return all(_safe_expr(v) for v in e.values)
    if isinstance(e, ast.Dict):
        return all(_safe_expr(k) for k in e.keys if k is not None) and all(_safe_expr(v) for v in e.values)
    if isinstance(e, (ast.JoinedStr, ast.Lambda)):
        return isinstance(e, ast.Lambda)
    return False


def may_raise(node: ast.AST, kind: str = "stmt") -> bool:
    if kind == "test":
        return not _safe_expr(node)
    if kind in ("for", "with"):
        return True
    st = node
    if isinstance(st, (ast.Pass, ast.Break, ast.Continue, ast.Global, ast.Nonlocal)):
        return False
    if isinstance(st, FuncNode):
        return bool(st.decorator_list)
    if isinstance(st, ast.ClassDef):
        return True
    if isinstance(st, ast.Assign):
        ok_t = all(isinstance(t, ast.Name) or (isinstance(t, ast.Attribute) and isinstance(t.value, ast.Name) and t.value.id == "self") for t in st.targets)
        return not (ok_t and _safe_expr(st.value))
    if isinstance(st, ast.AnnAssign):
        ok_t = isinstance(st.target, ast.Name) or (isinstance(st.target, ast.Attribute) and isinstance(st.target.value, ast.Name) and st.target.value.id == "self")
        return not (ok_t and _safe_expr(st.value))
    if isinstance(st, ast.Return):
        return not _safe_expr(st.value)
    if isinstance(st, ast.Expr) and isinstance(st.value, ast.Constant):
        return False
    return True


class CFG:
    def __init__(self, fn):
        self.fn = fn
        self.nodes: List[Node] = []
        self.succ: Dict[int, List[Tuple[int, str]]] = {}
        self.pred: Dict[int, List[Tuple[int, str]]] = {}
        self.entry = self._new("entry", None)
        self.exit = self._new("exit", None)
        self.rexit = self._new("rexit", None)
        self._dom = None
        self._pdom = None

    def _new(self, kind, node, label="") -> Node:
        n = Node(len(self.nodes), kind, node, label)
        self.nodes.append(n)
        self.succ[n.id] = []
        self.pred[n.id] = []
        return n

    def edge(self, a: Node, b: Node, kind: str = "next"):
        if (b.id, kind) not in self.succ[a.id]:
            self.succ[a.id].append((b.id, kind))
            self.pred[b.id].append((a.id, kind))

    # -- queries -----------------------------------------------------------
    def successors(self, n: Node) -> List[Tuple[Node, str]]:
        return [(self.nodes[i], k) for i, k in self.succ[n.id]]

    def predecessors(self, n: Node) -> List[Tuple[Node, str]]:
        return [(self.nodes[i], k) for i, k in self.pred[n.id]]

    def reachable(self) -> Set[int]:
        seen = {self.entry.id}
        st = [self.entry.id]
        while st:
            x = st.pop()
            for y, _ in self.succ[x]:
                if y not in seen:
                    seen.add(y)
                    st.append(y)
        return seen

    def stmt_nodes(self, pred: Optional[Callable[[Node], bool]] = None) -> List[Node]:
        r = self.reachable()
        return [n for n in self.nodes if n.id in r and n.kind in ("stmt", "test", "for", "with") and (pred is None or pred(n))]

    def nodes_for(self, astnode: ast.AST) -> List[Node]:
        """CFG nodes whose statement/expression *contains* ``astnode`` (several if
        a finally body was duplicated)."""
        r = self.reachable()
        out = []
        for n in self.nodes:
            if n.id not in r or n.ast is None or n.kind not in ("stmt", "test", "for", "with"):
                continue
            roots = _node_roots(n)
            if any(astnode is x for root in roots for x in _walk_root(root)):
                out.append(n)
        return out

    def find(self, pred: Callable[[ast.AST], bool]) -> List[Tuple[Node, ast.AST]]:
        """(cfg node, ast node) for each AST node satisfying ``pred`` inside
        reachable CFG nodes (own scope only)."""
        out = []
        r = self.reachable()
        for n in self.nodes:
            if n.id not in r or n.ast is None or n.kind not in ("stmt", "test", "for", "with"):
                continue
            for root in _node_roots(n):
                for x in _walk_root(root):
                    if pred(x):
                        out.append((n, x))
        return out

    # -- dominators ----------------------------------------------------------
    def dominators(self) -> Dict[int, Set[int]]:
        if self._dom is None:
            self._dom = _dominators(self.reachable(), self.entry.id, self.pred)
        return self._dom

    def dominates(self, a: Node, b: Node) -> bool:
        return a.id in self.dominators().get(b.id, set())

    def postdominators(self, exits: Optional[Iterable[Node]] = None) -> Dict[int, Set[int]]:
        """Post-dominators w.r.t. the given exits (default: normal exit only,
        i.e. exception-escape paths are ignored)."""
        key = tuple(sorted(e.id for e in (exits or [self.exit])))
        if self._pdom is None:
            self._pdom = {}
        if key not in self._pdom:
            # virtual sink
            sink = -1
            nodes = set(self.reachable())
            pred = {n: [(s, k) for s, k in self.succ[n] if s in nodes] for n in nodes}
            pred[sink] = []
            # reverse graph: predecessors in reverse = successors in forward
            rpred: Dict[int, List[Tuple[int, str]]] = {n: [] for n in nodes}
            rpred[sink] = []
            for n in nodes:
                for s, k in self.succ[n]:
                    if s in nodes:
                        rpred[n].append((s, k))
            for e in key:
                if e in nodes:
                    rpred[e].append((sink, "next"))
            # nodes that can reach the sink
            can = {sink}
            changed = True
            while changed:
                changed = False
                for n in nodes:
                    if n not in can and any(s in can for s, _ in rpred[n]):
                        can.add(n)
                        changed = True
            self._pdom[key] = _dominators(can, sink, rpred)
        return self._pdom[key]

    def postdominates(self, a: Node, b: Node, exits=None) -> bool:
        """Every path from b to the exits passes through a."""
        pd = self.postdominators(exits)
        return a.id in pd.get(b.id, set())

    def drop_exc_edges(self, pred: Callable[[Node], bool]) -> int:
        """Remove the exception edges leaving nodes that satisfy ``pred`` (used
        when a rule has *verified* that the node cannot raise, e.g. entering a
        context manager whose ``__init__``/``__enter__`` are trivial)."""
        k = 0
        for n in self.nodes:
            if pred(n) and any(kind == "exc" for _, kind in self.succ[n.id]):
                for sid, kind in list(self.succ[n.id]):
                    if kind == "exc":
                        self.succ[n.id].remove((sid, kind))
                        self.pred[sid].remove((n.id, kind))
                        k += 1
        self._dom = None
        self._pdom = None
        return k

    def dump(self) -> str:
        r = self.reachable()
        lines = []
        for n in self.nodes:
            if n.id in r:
                lines.append("%r -> %s" % (n, ", ".join("%d:%s" % (i, k) for i, k in self.succ[n.id])))
        return "\n".join(lines)


def _walk_root(root: ast.AST):
    """walk_local that does not enter ``root`` when it is itself a nested def/class statement."""
    if isinstance(root, ScopeNode):
        yield root
        for d in getattr(root, "decorator_list", []):
            yield from walk_local(d)
        return
    yield from walk_local(root)


def _node_roots(n: Node) -> List[ast.AST]:
    if n.kind == "for":
        return [n.ast.iter, n.ast.target]
    if n.kind == "with":
        out = []
        for it in n.ast.items:
            out.append(it.context_expr)
            if it.optional_vars is not None:
                out.append(it.optional_vars)
        return out
    return [n.ast]


def _dominators(nodes: Set[int], entry: int, pred: Dict[int, List[Tuple[int, str]]]) -> Dict[int, Set[int]]:
    dom = {n: set(nodes) for n in nodes}
    dom[entry] = {entry}
    order = sorted(nodes)
    changed = True
    while changed:
        changed = False
        for n in order:
            if n == entry:
                continue
            ps = [p for p, _ in pred.get(n, []) if p in nodes]
            if not ps:
                new = {n}
            else:
                new = set.intersection(*(dom[p] for p in ps)) | {n}
            if new != dom[n]:
                dom[n] = new
                changed = True
    return dom


class _Ctx:
    """Where control goes for the non-local exits of the statement being built."""

    __slots__ = ("exc", "ret", "brk", "cont")

    def __init__(self, exc, ret, brk, cont):
        self.exc = exc  # () -> Node
        self.ret = ret
        self.brk = brk
        self.cont = cont


class _Builder:
    def __init__(self, fn):
        self.g = CFG(fn)

    def build(self) -> CFG:
        g = self.g
        ctx = _Ctx(lambda: g.rexit, lambda: g.exit, None, None)
        outs = self.block(self.g.fn.body, [(g.entry, "next")], ctx)
        for o, k in outs:
            g.edge(o, g.exit, k)
        return g

    # ``ins`` / return values are lists of (node, edge-kind) dangling edges.
    def link(self, ins, node):
        for a, k in ins:
            self.g.edge(a, node, k)

    def block(self, stmts, ins, ctx):
        for st in stmts:
            if not ins:
                break  # unreachable code after return/raise
            ins = self.stmt(st, ins, ctx)
        return ins

    def cond(self, e, ins, ctx) -> Tuple[list, list]:
        """Build test nodes for expression ``e``; returns (true_outs, false_outs)."""
        if isinstance(e, ast.BoolOp):
            if isinstance(e.op, ast.And):
                falses = []
                cur = ins
                for v in e.values:
                    t, f = self.cond(v, cur, ctx)
                    falses.extend(f)
                    cur = t
                return cur, falses
            trues = []
            cur = ins
            for v in e.values:
                t, f = self.cond(v, cur, ctx)
                trues.extend(t)
                cur = f
            return trues, cur
        if isinstance(e, ast.UnaryOp) and isinstance(e.op, ast.Not):
            t, f = self.cond(e.operand, ins, ctx)
            return f, t
        n = self.g._new("test", e)
        self.link(ins, n)
        if may_raise(e, "test"):
            self.g.edge(n, ctx.exc(), "exc")
        try:
            v = fold(e, {})
            if v:
                return [(n, "true")], []
            return [], [(n, "false")]
        except NotFoldable:
            pass
        return [(n, "true")], [(n, "false")]

    def simple(self, st, ins, ctx, raises=None) -> Node:
        n = self.g._new("stmt", st)
        self.link(ins, n)
        if raises if raises is not None else may_raise(st):
            self.g.edge(n, ctx.exc(), "exc")
        return n

    def stmt(self, st, ins, ctx):
        g = self.g
        if isinstance(st, ast.If):
            t, f = self.cond(st.test, ins, ctx)
            o1 = self.block(st.body, t, ctx)
            o2 = self.block(st.orelse, f, ctx) if st.orelse else f
            return o1 + o2
        if isinstance(st, ast.While):
            head = g._new("join", st, " while")
            self.link(ins, head)
            t, f = self.cond(st.test, [(head, "next")], ctx)
            after = g._new("join", st, " endwhile")
            inner = _Ctx(ctx.exc, ctx.ret, lambda: after, lambda: head)
            o = self.block(st.body, t, inner)
            self.link(o, head)
            if st.orelse:
                f = self.block(st.orelse, f, ctx)
            self.link(f, after)
            return [(after, "next")] if g.pred[after.id] else []
        if isinstance(st, (ast.For, ast.AsyncFor)):
            head = g._new("for", st)
            self.link(ins, head)
            g.edge(head, ctx.exc(), "exc")
            after = g._new("join", st, " endfor")
            inner = _Ctx(ctx.exc, ctx.ret, lambda: after, lambda: head)
            o = self.block(st.body, [(head, "true")], inner)
            self.link(o, head)
            f = [(head, "false")]
            if st.orelse:
                f = self.block(st.orelse, f, ctx)
            self.link(f, after)
            return [(after, "next")]
        if isinstance(st, (ast.With, ast.AsyncWith)):
            enter = g._new("with", st)
            self.link(ins, enter)
            g.edge(enter, ctx.exc(), "exc")
            o = self.block(st.body, [(enter, "next")], ctx)
            if not o:
                return []
            ex = g._new("withexit", st)
            self.link(o, ex)
            return [(ex, "next")]
        if isinstance(st, ast.Try):
            return self.try_(st, ins, ctx)
        if hasattr(ast, "TryStar") and isinstance(st, ast.TryStar):
            raise AnalysisError("try/except* is not modelled (line %d)" % st.lineno)
        if hasattr(ast, "Match") and isinstance(st, ast.Match):
            raise AnalysisError("match statement is not modelled (line %d)" % st.lineno)
        if isinstance(st, ast.Return):
            n = self.simple(st, ins, ctx)
            g.edge(n, ctx.ret(), "next")
            return []
        if isinstance(st, ast.Raise):
            self.simple(st, ins, ctx, raises=True)
            return []
        if isinstance(st, ast.Break):
            n = self.simple(st, ins, ctx)
            g.edge(n, ctx.brk(), "next")
            return []
        if isinstance(st, ast.Continue):
            n = self.simple(st, ins, ctx)
            g.edge(n, ctx.cont(), "next")
            return []
        n = self.simple(st, ins, ctx)
        return [(n, "next")]

    def try_(self, st: ast.Try, ins, ctx):
        g = self.g
        has_fin = bool(st.finalbody)
        copies: Dict[str, Node] = {}

        def fin_copy(kind: str, cont: Callable[[], Node]) -> Node:
            """Entry node of a copy of the finally body whose normal completion
            continues to ``cont()``."""
            if not has_fin:
                return cont()
            if kind not in copies:
                start = g._new("join", st, " finally[%s]" % kind)
                copies[kind] = start
                outs = self.block(st.finalbody, [(start, "next")], ctx)
                if outs:
                    tgt = cont()
                    self.link(outs, tgt)
            return copies[kind]

        # context for handlers / else: exceptions go through finally outward
        outer_exc = lambda: fin_copy("exc", ctx.exc)
        outer_ret = lambda: fin_copy("ret", ctx.ret)
        outer_brk = (lambda: fin_copy("brk", ctx.brk)) if ctx.brk else None
        outer_cont = (lambda: fin_copy("cont", ctx.cont)) if ctx.cont else None
        hctx = _Ctx(outer_exc, outer_ret, outer_brk, outer_cont)

        if st.handlers:
            dispatch = g._new("dispatch", st)
            body_exc = lambda: dispatch
        else:
            dispatch = None
            body_exc = outer_exc
        bctx = _Ctx(body_exc, outer_ret, outer_brk, outer_cont)

        outs = self.block(st.body, ins, bctx)
        if st.orelse:
            outs = self.block(st.orelse, outs, hctx)
        all_outs = list(outs)

        if dispatch is not None and g.pred[dispatch.id]:
            catch_all = False
            for h in st.handlers:
                hn = g._new("handler", h)
                g.edge(dispatch, hn, "exc")
                o = self.block(h.body, [(hn, "next")], hctx)
                all_outs.extend(o)
                if h.type is None or (dotted(h.type) == "BaseException"):
                    catch_all = True
            if not catch_all:
                g.edge(dispatch, outer_exc(), "exc")

        if has_fin:
            if all_outs:
                start = g._new("join", st, " finally[fall]")
                self.link(all_outs, start)
                return self.block(st.finalbody, [(start, "next")], ctx)
            return []
        return all_outs


def build(fn) -> CFG:
    return _Builder(fn).build()


# ---------------------------------------------------------------------------
# condition facts


def canon_fact(e: ast.AST, pol: bool) -> Tuple[str, bool]:
    """Canonical (text, polarity) for an atomic condition: ``x is not None`` true
    == (``x is None``, False); ``a != b`` true == (``a == b``, False); ..."""
    while isinstance(e, ast.UnaryOp) and isinstance(e.op, ast.Not):
        e = e.operand
        pol = not pol
    if isinstance(e, ast.Compare) and len(e.ops) == 1:
        op = e.ops[0]
        swap = {ast.IsNot: ast.Is, ast.NotEq: ast.Eq, ast.NotIn: ast.In}
        if type(op) in swap:
            e2 = ast.Compare(left=e.left, ops=[swap[type(op)]()], comparators=e.comparators)
            return unparse(e2), not pol
    return unparse(e), pol


Fact = Tuple[str, bool]

PURE_METHODS = {
    "done", "cancelled", "get", "startswith", "endswith", "lower", "upper", "strip", "closed", "reading", "writing",
    "is_set", "full", "empty", "qsize", "is_running", "locked", "keys", "values", "items", "get_list", "is_closing",
    "fullmatch", "match", "search", "isdigit", "split", "find", "index", "count", "decode", "encode", "copy", "group",
    "groups", "is_alive", "fileno", "time", "_max_message_size", "result", "exception",
}
PURE_FUNCS = {"isinstance", "len", "bool", "int", "str", "bytes", "callable", "id", "type", "hasattr", "getattr", "is_future", "isawaitable", "repr", "min", "max", "sorted", "list", "tuple", "set", "dict", "print", "native_str", "utf8", "to_unicode"}


class FactDB:
    """Per-CFG cache of the paths mentioned by each fact text."""

    def __init__(self):
        self._paths: Dict[str, Set[str]] = {}
        self._hascall: Dict[str, bool] = {}

    def paths(self, text: str) -> Set[str]:
        if text not in self._paths:
            try:
                e = ast.parse(text, mode="eval").body
                self._paths[text] = paths_in(e)
                self._hascall[text] = any(isinstance(n, ast.Call) for n in ast.walk(e))
            except SyntaxError:
                self._paths[text] = set()
                self._hascall[text] = True
        return self._paths[text]

    def hascall(self, text: str) -> bool:
        self.paths(text)
        return self._hascall[text]


def node_effects(n: Node) -> Tuple[Set[str], Set[str], bool]:
    """(assigned paths, paths possibly mutated by a call, suspends)."""
    if n.ast is None or n.kind not in ("stmt", "test", "for", "with"):
        return set(), set(), False
    assigned: Set[str] = set()
    mutated: Set[str] = set()
    roots: List[ast.AST]
    if n.kind == "for":
        assigned |= assigned_paths(ast.Assign(targets=[n.ast.target], value=ast.Constant(value=None)))
        roots = [n.ast.iter]
    elif n.kind == "with":
        for it in n.ast.items:
            if it.optional_vars is not None:
                assigned |= assigned_paths(ast.Assign(targets=[it.optional_vars], value=ast.Constant(value=None)))
        roots = [it.context_expr for it in n.ast.items]
    else:
        if isinstance(n.ast, ast.stmt):
            assigned |= assigned_paths(n.ast)
        roots = [n.ast]
    for root in roots:
        for x in _walk_root(root):
            if isinstance(x, ast.Call):
                if isinstance(x.func, ast.Attribute):
                    recv = dotted(x.func.value)
                    if recv and x.func.attr not in PURE_METHODS:
                        mutated.add(recv)
                fname = dotted(x.func)
                if fname not in PURE_FUNCS and not (isinstance(x.func, ast.Attribute) and x.func.attr in PURE_METHODS):
                    for a in list(x.args) + [k.value for k in x.keywords]:
                        d = dotted(a)
                        if d:
                            mutated.add(d)
    return assigned, mutated, n.suspends


def default_kill(db: FactDB):
    cache: Dict[int, Tuple[Set[str], Set[str], bool]] = {}

    def kill(n: Node, fact: Fact) -> bool:
        if n.id not in cache:
            cache[n.id] = node_effects(n)
        assigned, mutated, susp = cache[n.id]
        if not assigned and not mutated and not susp:
            return False
        text = fact[0]
        if text.startswith("@"):
            return False  # event facts are killed only by the rule's own killer
        ps = db.paths(text)
        for a in assigned:
            base = a[:-2] if a.endswith("[]") else a
            if base in ps:
                return True
        for m in mutated:
            if m in ps:
                return True
        if susp:
            if db.hascall(text) or any("." in p for p in ps):
                return True
        return False

    return kill


def must_facts(
    cfg: CFG,
    gen_node: Optional[Callable[[Node], Iterable[Fact]]] = None,
    kill_node: Optional[Callable[[Node, Fact], bool]] = None,
    cond_facts: bool = True,
    exc_gen: bool = False,
) -> Dict[int, FrozenSet[Fact]]:
    """Forward must-analysis.  Returns IN[n]: facts holding on *every* path from
    entry to (just before) node n.  Facts: canonical branch conditions
    (``cond_facts``) and rule-defined event facts (``gen_node``; by convention
    their text starts with ``@``).  ``kill_node`` is consulted in addition to the
    default kill (assignment / mutation / suspension).  Facts generated by a
    node do not flow along its ``exc`` edge unless ``exc_gen``."""
    db = FactDB()
    dk = default_kill(db)
    reach = cfg.reachable()
    IN: Dict[int, Optional[FrozenSet[Fact]]] = {n: None for n in reach}
    IN[cfg.entry.id] = frozenset()
    work = [cfg.entry.id]
    gen_cache: Dict[int, FrozenSet[Fact]] = {}
    while work:
        nid = work.pop()
        n = cfg.nodes[nid]
        cur = IN[nid]
        assert cur is not None
        kept = frozenset(f for f in cur if not dk(n, f) and not (kill_node and kill_node(n, f)))
        if gen_node is not None:
            if nid not in gen_cache:
                gen_cache[nid] = frozenset(gen_node(n) or ())
            g = gen_cache[nid]
        else:
            g = frozenset()
        for sid, kind in cfg.succ[nid]:
            if kind == "exc":
                out = (kept | g) if exc_gen else kept
            else:
                out = kept | g
                if cond_facts and n.kind == "test" and kind in ("true", "false"):
                    out = out | {canon_fact(n.ast, kind == "true")}
            old = IN[sid]
            new = out if old is None else (old & out)
            if old is None or new != old:
                IN[sid] = new
                work.append(sid)
    return {k: (v if v is not None else frozenset()) for k, v in IN.items()}


def holds(facts: FrozenSet[Fact], text: str, pol: bool) -> bool:
    """``text`` is an expression in source form; canonicalised before lookup."""
    e = ast.parse(text, mode="eval").body
    return canon_fact(e, pol) in facts


# ---------------------------------------------------------------------------
# path-sensitive exploration (ESP-style property simulation)


def explore(
    cfg: CFG,
    init,
    transfer: Callable[[Node, object], object],
    track: Callable[[str], bool],
    edge_transfer: Optional[Callable[[Node, str, object], object]] = None,
    follow_exc: bool = True,
    exc_effect: bool = False,
    max_states: int = 20000,
) -> Dict[int, Set[Tuple[FrozenSet[Fact], object]]]:
    """Propagate (tracked condition facts, abstract value) pairs along the CFG.

    ``transfer(node, value)`` returns the new value, a list of values (fork) or
    ``None`` to stop the path.  Branch edges whose canonical condition text
    satisfies ``track`` add a fact and are pruned when the opposite fact is
    already held (same-predicate correlation; there is no solver).  Returns the
    set of states at the *entry* of every node."""
    db = FactDB()
    dk = default_kill(db)
    seen: Dict[int, Set[Tuple[FrozenSet[Fact], object]]] = {}
    start = (frozenset(), init)
    work = [(cfg.entry.id, start)]
    seen[cfg.entry.id] = {start}
    total = 0
    while work:
        nid, (facts, val) = work.pop()
        n = cfg.nodes[nid]
        res = transfer(n, val)
        if res is None:
            continue
        vals = res if isinstance(res, list) else [res]
        kept = frozenset(f for f in facts if not dk(n, f))
        for sid, kind in cfg.succ[nid]:
            if kind == "exc" and not follow_exc:
                continue
            for v in vals:
                f2 = kept
                v2 = v
                if kind == "exc" and not exc_effect:
                    v2 = val  # the statement's own effect did not complete
                if n.kind == "test" and kind in ("true", "false"):
                    cf = canon_fact(n.ast, kind == "true")
                    if track(cf[0]):
                        if (cf[0], not cf[1]) in f2:
                            continue
                        f2 = f2 | {cf}
                if edge_transfer is not None:
                    v2 = edge_transfer(n, kind, v2)
                    if v2 is None:
                        continue
                stt = (f2, v2)
                s = seen.setdefault(sid, set())
                if stt not in s:
                    s.add(stt)
                    total += 1
                    if total > max_states:
                        raise AnalysisError("state explosion in explore() of %s" % getattr(cfg.fn, "name", "?"))
                    work.append((sid, stt))
    return seen
