"""x_cookie — dataflow model of ``RequestHandler.set_cookie`` shared by C07 and C25.

Finds the morsel stores (``self._new_cookie[name] = value``, ``morsel[k] = v``),
recognises the *validation loop* (a ``for`` over a literal list of
``(label, parameter)`` pairs — optionally extended by ``kwargs.items()`` — whose
body raises when a regex guard detects a forbidden character) and runs the
flow-sensitive taint of :mod:`vt.x_taint` from the text-typed parameters to
the stores.  Which characters count as forbidden is the caller's business.
"""
from __future__ import annotations

import ast
from typing import Dict, Iterable, List, Optional, Set, Tuple

from . import q
from .cfg import Node
from .model import AnalysisError, FuncInfo, Repo
from .x_taint import NONSTR, Guard, flow_taint, regex_guard, regex_cleaner, expr_tainted, HelperSummaries

WEB = "tornado/web.py"
NUMERIC = {"int", "float", "bool", "None"}


def text_params(fi: FuncInfo) -> List[str]:
    """Parameters whose annotation admits text (anything but pure int/float/bool/None)."""
    a = fi.node.args
    out = []
    for arg in a.posonlyargs + a.args + a.kwonlyargs:
        if arg.arg == "self":
            continue
        ann = arg.annotation
        if ann is not None:
            names = {n.id for n in ast.walk(ann) if isinstance(n, ast.Name)} | {n.value for n in ast.walk(ann) if isinstance(n, ast.Constant) and isinstance(n.value, str)}
            consts_none = any(isinstance(n, ast.Constant) and n.value is None for n in ast.walk(ann))
            if names and names <= NUMERIC or (not names and consts_none):
                continue
        out.append(arg.arg)
    if a.vararg:
        out.append(a.vararg.arg)
    if a.kwarg:
        out.append(a.kwarg.arg)
    return out


def _list_items(fi: FuncInfo, it: ast.AST) -> Optional[Tuple[List[str], Optional[str]]]:
    """Parameters named as second components of the literal pairs of ``it`` and
    the ``**kwargs`` name if ``kwargs.items()`` is part of the iterable."""
    kw = fi.node.args.kwarg.arg if fi.node.args.kwarg else None
    params: List[str] = []
    covers = None
    str_only = [False]
    from .x_flow import resolve_local

    it = resolve_local(fi, it)  # the list may be bound to a local first

    def items_of_kwargs(e) -> bool:
        while isinstance(e, ast.Call) and q.call_attr(e) in ("list", "tuple") and len(e.args) == 1:
            e = e.args[0]
        return isinstance(e, ast.Call) and isinstance(e.func, ast.Attribute) and e.func.attr == "items" and q.dotted(e.func.value) == kw and kw is not None

    def comp_of_kwargs(e) -> bool:
        """``(k, v) for k, v in kwargs.items() [if isinstance(v, str)]`` — the pairs of
        the keyword dict, possibly restricted to text values (non-text values carry
        no characters)."""
        if not isinstance(e, (ast.GeneratorExp, ast.ListComp)) or len(e.generators) != 1:
            return False
        g = e.generators[0]
        if not items_of_kwargs(g.iter) or not (isinstance(g.target, ast.Tuple) and len(g.target.elts) == 2 and all(isinstance(x, ast.Name) for x in g.target.elts)):
            return False
        kname, vname = g.target.elts[0].id, g.target.elts[1].id
        if not (isinstance(e.elt, ast.Tuple) and len(e.elt.elts) == 2 and q.dotted(e.elt.elts[1]) == vname):
            return False
        for cond in g.ifs:
            str_only[0] = True
            ok = q.is_call(cond, "isinstance") and len(cond.args) == 2 and q.dotted(cond.args[0]) == vname and all(
                q.dotted(t) in ("str", "bytes", "unicode_type") for t in (cond.args[1].elts if isinstance(cond.args[1], ast.Tuple) else [cond.args[1]])) and (
                "str" in [q.dotted(t) for t in (cond.args[1].elts if isinstance(cond.args[1], ast.Tuple) else [cond.args[1]])])
            if not ok:
                raise AnalysisError("validation list in %s: filter %s on the keyword pairs is not a text-type test" % (fi.qualname, q.unparse(cond)))
        return True

    def walk(e) -> bool:
        nonlocal covers
        if isinstance(e, ast.BinOp) and isinstance(e.op, ast.Add):
            return walk(e.left) and walk(e.right)
        if items_of_kwargs(e) or comp_of_kwargs(e):
            covers = kw
            return True
        if isinstance(e, ast.Call) and isinstance(e.func, ast.Attribute) and e.func.attr == "items" and not e.args and isinstance(e.func.value, ast.Name):
            # a dict bound to a local, possibly extended by .update(...) calls before the loop
            from .x_flow import unique_def

            d = unique_def(fi, e.func.value.id)
            if not isinstance(d, ast.Dict):
                return False
            if not walk(ast.Call(func=ast.Attribute(value=d, attr="items", ctx=ast.Load()), args=[], keywords=[])):
                return False
            for c in q.calls(fi.node):
                if isinstance(c.func, ast.Attribute) and q.dotted(c.func.value) == e.func.value.id and c.func.attr not in ("items", "keys", "values", "get"):
                    if c.func.attr != "update" or len(c.args) != 1 or c.keywords:
                        return False
                    a0 = c.args[0]
                    if isinstance(a0, ast.Name) and a0.id == kw:
                        covers = kw
                    elif items_of_kwargs(a0) or comp_of_kwargs(a0):
                        covers = kw
                    elif isinstance(a0, ast.Dict):
                        if not walk(ast.Call(func=ast.Attribute(value=a0, attr="items", ctx=ast.Load()), args=[], keywords=[])):
                            return False
                    else:
                        return False
            return True
        if isinstance(e, ast.Call) and isinstance(e.func, ast.Attribute) and e.func.attr == "items" and not e.args and isinstance(e.func.value, ast.Dict):
            # {"label": param, ..., **kwargs}.items()
            for k_, v_ in zip(e.func.value.keys, e.func.value.values):
                if k_ is None:
                    if not (isinstance(v_, ast.Name) and v_.id == kw):
                        return False
                    covers = kw
                elif isinstance(v_, ast.Name):
                    params.append(v_.id)
                else:
                    return False
            return True
        if isinstance(e, (ast.List, ast.Tuple)):
            for x in e.elts:
                if isinstance(x, ast.Starred):
                    if not (items_of_kwargs(x.value) or comp_of_kwargs(x.value)):
                        return False
                    covers = kw
                elif isinstance(x, ast.Tuple) and len(x.elts) == 2 and isinstance(x.elts[1], ast.Name):
                    params.append(x.elts[1].id)
                else:
                    return False
            return True
        return False

    if not walk(it):
        return None
    return params, (("~" + covers) if (covers and str_only[0]) else covers)


class ValidationLoop:
    def __init__(self, for_node: ast.For, guards: List[Guard], params: List[str], covers_kwargs: Optional[str], value_var: str):
        self.for_node = for_node
        self.guards = guards
        self.params = params
        self.covers_kwargs = covers_kwargs
        self.value_var = value_var

    @property
    def guard(self) -> Optional[Guard]:
        return self.guards[0] if self.guards else None


def candidate_loops(repo: Repo, fi: FuncInfo) -> List[ValidationLoop]:
    """``for <label>, <value> in [<(label, param) pairs> ...]`` loops without break/else."""
    out = []
    for n in q.walk_body(fi.node):
        if not isinstance(n, ast.For):
            continue
        li = _list_items(fi, n.iter)
        if li is None:
            # a loop that rejects values by a regex but whose table is not understood must not silently count as
            # "no validation" (that would turn an unrecognised refactoring into a violation at the sinks)
            if isinstance(n.target, ast.Tuple) and len(n.target.elts) == 2 and isinstance(n.target.elts[1], ast.Name) and any(isinstance(x, ast.Raise) for x in ast.walk(n)):
                vv0 = n.target.elts[1].id
                for x in ast.walk(n):
                    if isinstance(x, (ast.Call, ast.Compare)):
                        rg = regex_guard(repo, fi, x)
                        if rg is not None and rg.var == vv0:
                            raise AnalysisError("%s: validation loop over a table that is not understood: %s" % (fi.qualname, q.unparse(n.iter)[:80]))
            continue
        params, covers = li
        if not (isinstance(n.target, ast.Tuple) and len(n.target.elts) == 2 and isinstance(n.target.elts[1], ast.Name)):
            continue
        if n.orelse or any(isinstance(x, ast.Break) for st in n.body for x in q.walk_local(st)):
            continue  # a loop that can stop early validates nothing for sure
        vv = n.target.elts[1].id
        gs = []
        for x in ast.walk(n):
            if isinstance(x, (ast.Call, ast.Compare)):
                rg = regex_guard(repo, fi, x)
                if rg is not None and rg.var == vv and not any(rg.node is inner for g in gs for inner in ast.walk(g.node)):
                    gs = [g for g in gs if not any(g.node is inner for inner in ast.walk(rg.node))] + [rg]
        out.append(ValidationLoop(n, gs, params, covers, vv))
    return out


def _absent_cleaner(n: Node, kind: str, tainted: Set[str]):
    """Edges on which a value is known to be None / empty / not text."""
    if n.kind != "test":
        return []
    t = n.ast
    out = []
    if isinstance(t, ast.Compare) and len(t.ops) == 1 and isinstance(t.comparators[0], ast.Constant) and t.comparators[0].value is None:
        d = q.dotted(t.left)
        if d and ((isinstance(t.ops[0], ast.Is) and kind == "true") or (isinstance(t.ops[0], ast.IsNot) and kind == "false")):
            out.append(d)
    elif isinstance(t, (ast.Name, ast.Attribute)) and kind == "false":
        d = q.dotted(t)
        if d:
            out.append(d)  # falsy text is the empty string
    elif q.is_call(t, "isinstance") and len(t.args) == 2 and kind == "false":
        d = q.dotted(t.args[0])
        ts = [q.dotted(x) for x in (t.args[1].elts if isinstance(t.args[1], ast.Tuple) else [t.args[1]])]
        if d and "str" in ts:
            # not a str: clean if bytes are excluded as well, otherwise only "not text *yet*" (decoding brings it back)
            out.append(d if ("bytes" in ts or "unicode_type" in ts and "bytes" in ts) else "~" + d)
    return out


class Sink:
    def __init__(self, node: Node, stmt: ast.AST, kind: str, key: ast.AST, value: ast.AST):
        self.node = node
        self.stmt = stmt
        self.kind = kind  # 'cookie' (self._new_cookie[name] = value) | 'attr' (morsel[k] = v)
        self.key = key
        self.value = value
        self.key_tainted = False
        self.value_tainted = False


JAR = "self._new_cookie"


def morsel_sinks(fi: FuncInfo) -> List[Sink]:
    aliases: Set[str] = set()
    for n in q.walk_body(fi.node):
        if isinstance(n, ast.Assign) and isinstance(n.value, ast.Subscript) and q.dotted(n.value.value) == JAR:
            for t in n.targets:
                if isinstance(t, ast.Name):
                    aliases.add(t.id)
    out = []
    for node in fi.cfg.stmt_nodes(lambda n: n.kind == "stmt" and isinstance(n.ast, ast.Assign)):
        for t in node.ast.targets:
            if isinstance(t, ast.Subscript):
                c = q.dotted(t.value)
                if c == JAR:
                    out.append(Sink(node, node.ast, "cookie", t.slice, node.ast.value))
                elif c in aliases:
                    out.append(Sink(node, node.ast, "attr", t.slice, node.ast.value))
    for node, c in fi.cfg.find(lambda x: isinstance(x, ast.Call) and isinstance(x.func, ast.Attribute) and x.func.attr in ("update", "setdefault", "set") and (q.dotted(x.func.value) in aliases or q.dotted(x.func.value) == JAR)):
        raise AnalysisError("%s: morsel updated through %s(): unknown idiom" % (fi.qualname, q.unparse(c.func)))
    return out


def analyse(repo: Repo, forbidden: Iterable[int], sanitizers=("format_timestamp",)) -> Tuple[FuncInfo, List[Sink], List[ValidationLoop]]:
    """Taint of every morsel store w.r.t. the characters ``forbidden``.  Returns
    the function, the sinks (with key_tainted/value_tainted set) and the loops
    that were proven to validate their whole list (every completed iteration
    leaves the loop's value variable clean, the loop cannot stop early)."""
    from .x_http import norm_func

    from .x_objalias import subst_object_aliases, inline_constants

    fi = inline_constants(subst_object_aliases(norm_func(repo, repo.func(WEB, "RequestHandler.set_cookie"), depth=3, no_inline={"_convert_header_value"})))
    forbidden = list(forbidden)
    cands = candidate_loops(repo, fi)
    sources = text_params(fi)
    # pass 1: which candidate loops clean their value variable on every iteration?
    hs = HelperSummaries(repo, fi, lambda h: regex_cleaner(repo, h, forbidden, _absent_cleaner), sanitizers)
    st1 = flow_taint(fi, sources, sanitizers=sanitizers, clean_on_edge=hs.cleaner(regex_cleaner(repo, fi, forbidden, _absent_cleaner)), on_node=hs.on_node, expr_hook=hs.expr_hook)
    heads = {id(n.ast): n for n in fi.cfg.stmt_nodes(lambda n: n.kind == "for")}
    loops = []
    for c in cands:
        h = heads.get(id(c.for_node))
        if h is None:
            continue
        sts = st1.get(h.id, [])
        if sts and all(c.value_var not in t for t in sts):
            c.weak = any((c.value_var + NONSTR) in t for t in sts)  # some values were only shown to be non-str
            loops.append(c)
    by_id = {id(l.for_node): l for l in loops}

    def scan_cleaner(n: Node, kind: str):
        """A whole-table scan written as an expression — ``next((.. for k, v in TABLE if <guard on v>), None)`` /
        ``any(<guard on v> for k, v in TABLE)`` — tested (possibly through a local) and found empty: every listed
        parameter passed the guard."""
        if n.kind != "test":
            return []
        from .x_objalias import through_local

        e = through_local(fi, n.ast)
        found_on = "true"
        while isinstance(e, ast.UnaryOp) and isinstance(e.op, ast.Not):
            e, found_on = e.operand, ("false" if found_on == "true" else "true")
        if isinstance(e, ast.Compare) and len(e.ops) == 1 and isinstance(e.comparators[0], ast.Constant) and e.comparators[0].value is None:
            if isinstance(e.ops[0], ast.Is):
                found_on = "false" if found_on == "true" else "true"
            elif not isinstance(e.ops[0], ast.IsNot):
                return []
            e = e.left
        if not (isinstance(e, ast.Call) and isinstance(e.func, ast.Name) and e.func.id in ("next", "any") and e.args):
            return []
        gen = e.args[0]
        if e.func.id == "next" and not (len(e.args) == 2 and isinstance(e.args[1], ast.Constant) and e.args[1].value is None):
            return []
        if not isinstance(gen, (ast.GeneratorExp, ast.ListComp)) or len(gen.generators) != 1:
            return []
        g = gen.generators[0]
        if not (isinstance(g.target, ast.Tuple) and len(g.target.elts) == 2 and isinstance(g.target.elts[1], ast.Name)):
            return []
        vv = g.target.elts[1].id
        conds = [c for i in g.ifs for c in q.split_conj(i)] if e.func.id == "next" else q.split_conj(gen.elt)
        if e.func.id == "any" and g.ifs:
            conds = conds + [c for i in g.ifs for c in q.split_conj(i)]
        guard = None
        for c in conds:
            rg = regex_guard(repo, fi, c)
            if rg is not None and rg.var == vv and rg.truthy_means_matched:
                guard = rg
                continue
            txt = q.unparse(c)
            if q.dotted(c) == vv or (vv in q.names_in(c) and ("is not None" in txt or "isinstance" in txt)):
                continue  # None / non-text values are skipped: they carry no characters
            return []
        if guard is None or not guard.clean_for("false", forbidden):
            return []
        li = _list_items(fi, g.iter)
        if li is None:
            raise AnalysisError("%s: validation scan over a table that is not understood: %s" % (fi.qualname, q.unparse(g.iter)[:80]))
        params, covers = li
        if kind == found_on:
            return []
        out = list(params)
        if covers:
            out.append(covers)
        return out

    def extra(n: Node, kind: str, tainted: Set[str]):
        out = list(_absent_cleaner(n, kind, tainted))
        out.extend(scan_cleaner(n, kind))
        if n.kind == "for" and kind == "false" and id(n.ast) in by_id:
            l = by_id[id(n.ast)]
            pre = "~" if getattr(l, "weak", False) else ""
            out.extend(pre + p_ for p_ in l.params)
            if l.covers_kwargs:
                ck_ = l.covers_kwargs
                out.append(ck_ if ck_.startswith("~") or not pre else "~" + ck_)
        return out

    states = flow_taint(fi, sources, sanitizers=sanitizers, clean_on_edge=hs.cleaner(regex_cleaner(repo, fi, forbidden, extra)), on_node=hs.on_node, expr_hook=hs.expr_hook)
    sinks = morsel_sinks(fi)
    for s in sinks:
        for tainted in states.get(s.node.id, []):
            if expr_tainted(s.key, tainted, sanitizers, (), hs.expr_hook):
                s.key_tainted = True
            if expr_tainted(s.value, tainted, sanitizers, (), hs.expr_hook):
                s.value_tainted = True
    return fi, sinks, loops
