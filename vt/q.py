"""AST query helpers shared by all rules (pure functions over ``ast`` nodes)."""
from __future__ import annotations

import ast
from typing import Callable, Dict, Iterable, Iterator, List, Optional, Sequence, Set, Tuple

FuncNode = (ast.FunctionDef, ast.AsyncFunctionDef)
ScopeNode = FuncNode + (ast.Lambda, ast.ClassDef)


def dotted(e: ast.AST) -> Optional[str]:
    """``self.stream.close`` for an attribute chain rooted at a Name; else None."""
    parts = []
    while isinstance(e, ast.Attribute):
        parts.append(e.attr)
        e = e.value
    if isinstance(e, ast.Name):
        parts.append(e.id)
        return ".".join(reversed(parts))
    return None


def unparse(e: ast.AST) -> str:
    try:
        return ast.unparse(e)
    except Exception:  # pragma: no cover
        return "<%s>" % type(e).__name__


def walk_local(node: ast.AST, include_root: bool = True) -> Iterator[ast.AST]:
    """Walk ``node`` without descending into nested function/lambda/class scopes
    (the nested scope node itself is yielded)."""
    stack = [node]
    first = True
    while stack:
        n = stack.pop()
        if first:
            first = False
            if include_root:
                yield n
        else:
            yield n
            if isinstance(n, ScopeNode):
                continue
        stack.extend(reversed(list(ast.iter_child_nodes(n))))


def walk_body(fn: ast.AST) -> Iterator[ast.AST]:
    """All nodes of a function body (own scope only, nested defs not entered)."""
    for st in fn.body:
        if isinstance(st, ScopeNode):
            yield st  # a nested def/class that is a direct statement: the node only, not its body
        else:
            yield from walk_local(st)


def calls(node: ast.AST, local: bool = True) -> Iterator[ast.Call]:
    it = walk_local(node) if local else ast.walk(node)
    for n in it:
        if isinstance(n, ast.Call):
            yield n


def call_name(c: ast.Call) -> Optional[str]:
    return dotted(c.func)


def call_attr(c: ast.Call) -> Optional[str]:
    """Last component of the callee (``set_result`` for ``x.y.set_result(...)``)."""
    if isinstance(c.func, ast.Attribute):
        return c.func.attr
    if isinstance(c.func, ast.Name):
        return c.func.id
    return None


def is_call(n: ast.AST, *names: str) -> bool:
    """True if ``n`` is a Call whose dotted callee equals one of ``names``; a
    name starting with ``.`` matches on the final attribute (``.set_result``)."""
    if not isinstance(n, ast.Call):
        return False
    d = dotted(n.func)
    last = call_attr(n)
    for nm in names:
        if nm.startswith("."):
            if last == nm[1:] and isinstance(n.func, ast.Attribute):
                return True
        elif d == nm:
            return True
    return False


def find_calls(node: ast.AST, *names: str, local: bool = True) -> List[ast.Call]:
    return [c for c in calls(node, local) if is_call(c, *names)]


def receiver(c: ast.Call) -> Optional[str]:
    if isinstance(c.func, ast.Attribute):
        return dotted(c.func.value)
    return None


def const_value(e: ast.AST):
    if isinstance(e, ast.Constant):
        return e.value
    raise ValueError("not a constant")


def is_const(e: ast.AST, v) -> bool:
    return isinstance(e, ast.Constant) and type(e.value) is type(v) and e.value == v


def kwarg(c: ast.Call, name: str) -> Optional[ast.AST]:
    for k in c.keywords:
        if k.arg == name:
            return k.value
    return None


def arg(c: ast.Call, idx: int, name: Optional[str] = None) -> Optional[ast.AST]:
    if idx < len(c.args) and not any(isinstance(a, ast.Starred) for a in c.args[: idx + 1]):
        return c.args[idx]
    if name:
        return kwarg(c, name)
    return None


def names_in(e: ast.AST) -> Set[str]:
    return {n.id for n in ast.walk(e) if isinstance(n, ast.Name)}


def paths_in(e: ast.AST) -> Set[str]:
    """All dotted paths (maximal attribute chains and their prefixes) read in ``e``."""
    out: Set[str] = set()
    for n in ast.walk(e):
        d = dotted(n) if isinstance(n, (ast.Attribute, ast.Name)) else None
        if d:
            parts = d.split(".")
            for i in range(1, len(parts) + 1):
                out.add(".".join(parts[:i]))
    return out


def assigned_paths(st: ast.AST) -> Set[str]:
    """Dotted paths (re)bound or deleted by statement ``st`` (own scope)."""
    out: Set[str] = set()

    def tgt(t):
        if isinstance(t, (ast.Tuple, ast.List)):
            for x in t.elts:
                tgt(x)
        elif isinstance(t, ast.Starred):
            tgt(t.value)
        elif isinstance(t, ast.Subscript):
            d = dotted(t.value)
            if d:
                out.add(d + "[]")
        else:
            d = dotted(t)
            if d:
                out.add(d)

    if isinstance(st, ScopeNode):
        nm = getattr(st, "name", None)
        return {nm} if nm else set()
    for n in walk_local(st):
        if isinstance(n, ast.Assign):
            for t in n.targets:
                tgt(t)
        elif isinstance(n, (ast.AugAssign, ast.AnnAssign)):
            if not (isinstance(n, ast.AnnAssign) and n.value is None):
                tgt(n.target)
        elif isinstance(n, ast.Delete):
            for t in n.targets:
                tgt(t)
        elif isinstance(n, (ast.For, ast.AsyncFor)):
            tgt(n.target)
        elif isinstance(n, (ast.With, ast.AsyncWith)):
            for it in n.items:
                if it.optional_vars is not None:
                    tgt(it.optional_vars)
        elif isinstance(n, ast.NamedExpr):
            tgt(n.target)
        elif isinstance(n, ast.ExceptHandler) and n.name:
            out.add(n.name)
        elif isinstance(n, (ast.Import, ast.ImportFrom)):
            for a in n.names:
                out.add((a.asname or a.name).split(".")[0])
    return out


def has_suspension(node: ast.AST) -> bool:
    if isinstance(node, ScopeNode):
        return False
    return any(isinstance(n, (ast.Await, ast.Yield, ast.YieldFrom)) for n in walk_local(node))


def stores_to(fn_or_node: ast.AST, path: str) -> List[ast.AST]:
    """Statements in own scope that assign/aug-assign/delete the dotted ``path``."""
    res = []
    for n in walk_local(fn_or_node, include_root=False) if isinstance(fn_or_node, FuncNode) else walk_local(fn_or_node):
        if isinstance(n, (ast.Assign, ast.AugAssign, ast.AnnAssign, ast.Delete)):
            if path in assigned_paths(n):
                res.append(n)
    return res


def attr_stores(fn: ast.AST, attr: str, base: str = "self") -> List[ast.AST]:
    return stores_to(fn, base + "." + attr)


def parent_map(root: ast.AST) -> Dict[ast.AST, ast.AST]:
    pm: Dict[ast.AST, ast.AST] = {}
    for p in ast.walk(root):
        for c in ast.iter_child_nodes(p):
            pm[c] = p
    return pm


def enclosing_stmt(pm: Dict[ast.AST, ast.AST], n: ast.AST) -> ast.AST:
    while not isinstance(n, ast.stmt):
        n = pm[n]
    return n


def ancestors(pm: Dict[ast.AST, ast.AST], n: ast.AST) -> Iterator[ast.AST]:
    while n in pm:
        n = pm[n]
        yield n


def enclosing_try_handlers(pm: Dict[ast.AST, ast.AST], n: ast.AST, stop: Optional[ast.AST] = None) -> List[Tuple[ast.Try, List[ast.ExceptHandler]]]:
    """The ``try`` statements whose *body* (not handlers/else/finally) contains
    ``n``, innermost first, up to (not past) ``stop`` / the enclosing function."""
    out = []
    child = n
    for a in ancestors(pm, n):
        if a is stop or isinstance(a, ScopeNode):
            break
        if isinstance(a, ast.Try) and any(child is s for s in a.body):
            out.append((a, a.handlers))
        child = a
    return out


def handler_names(h: ast.ExceptHandler) -> List[str]:
    """Dotted names of the exception classes a handler catches; ['BaseException']
    for a bare ``except:``."""
    if h.type is None:
        return ["BaseException"]
    ts = h.type.elts if isinstance(h.type, ast.Tuple) else [h.type]
    return [dotted(t) or unparse(t) for t in ts]


# A small frozen exception hierarchy (builtins + the stdlib/tornado classes the
# analysed code mentions).  child -> parent.
EXC_PARENT = {
    "Exception": "BaseException",
    "KeyboardInterrupt": "BaseException",
    "SystemExit": "BaseException",
    "GeneratorExit": "BaseException",
    "asyncio.CancelledError": "BaseException",
    "CancelledError": "BaseException",
    "concurrent.futures.CancelledError": "BaseException",
    "ArithmeticError": "Exception",
    "ZeroDivisionError": "ArithmeticError",
    "OverflowError": "ArithmeticError",
    "AssertionError": "Exception",
    "AttributeError": "Exception",
    "LookupError": "Exception",
    "IndexError": "LookupError",
    "KeyError": "LookupError",
    "OSError": "Exception",
    "IOError": "Exception",
    "socket.error": "OSError",
    "socket.gaierror": "OSError",
    "ssl.SSLError": "OSError",
    "ConnectionError": "OSError",
    "ConnectionResetError": "ConnectionError",
    "TimeoutError": "OSError",
    "RuntimeError": "Exception",
    "NotImplementedError": "RuntimeError",
    "StopIteration": "Exception",
    "TypeError": "Exception",
    "ValueError": "Exception",
    "UnicodeError": "ValueError",
    "UnicodeDecodeError": "UnicodeError",
    "UnicodeEncodeError": "UnicodeError",
    "binascii.Error": "ValueError",
    "json.JSONDecodeError": "ValueError",
    "struct.error": "Exception",
    "zlib.error": "Exception",
    "HTTPInputError": "Exception",
    "httputil.HTTPInputError": "Exception",
    "HTTPOutputError": "Exception",
    "httputil.HTTPOutputError": "Exception",
    "StreamClosedError": "OSError",
    "iostream.StreamClosedError": "OSError",
    "UnsatisfiableReadError": "Exception",
    "iostream.UnsatisfiableReadError": "Exception",
    "StreamBufferFullError": "Exception",
    "HTTPError": "Exception",
    "ParseError": "Exception",
    "WebSocketError": "Exception",
    "WebSocketClosedError": "WebSocketError",
    "_DecompressTooLargeError": "Exception",
    "gen.TimeoutError": "Exception",
    "util.TimeoutError": "Exception",
}


def exc_is_caught(exc: str, caught: Iterable[str]) -> bool:
    """Whether an exception of class ``exc`` is caught by a handler naming ``caught``."""
    caught = set(caught)
    short = {c.split(".")[-1] for c in caught}
    cur: Optional[str] = exc
    seen = 0
    while cur is not None and seen < 20:
        if cur in caught or cur.split(".")[-1] in short:
            return True
        cur = EXC_PARENT.get(cur, EXC_PARENT.get(cur.split(".")[-1]))
        seen += 1
    return False


def protected_by(pm, n: ast.AST, exc: str, stop: Optional[ast.AST] = None) -> Optional[ast.ExceptHandler]:
    """Innermost handler (within the enclosing function) that catches ``exc``
    raised at ``n``; None if it escapes the function."""
    for _try, handlers in enclosing_try_handlers(pm, n, stop):
        for h in handlers:
            if exc_is_caught(exc, handler_names(h)):
                return h
    return None


def normalize_construct(e: ast.AST, local_names: Optional[Iterable[str]] = None) -> str:
    """``ast.unparse`` with the function's local variable names replaced by
    positional placeholders (finding keys survive renames and reformatting)."""
    ren: Dict[str, str] = {}
    locs = set(local_names) if local_names is not None else None

    class R(ast.NodeTransformer):
        def visit_Name(self, node):
            if node.id in ("self", "cls"):
                return node
            if locs is not None and node.id not in locs:
                return node
            if node.id not in ren:
                ren[node.id] = "v%d" % len(ren)
            return ast.copy_location(ast.Name(id=ren[node.id], ctx=node.ctx), node)

    import copy

    return unparse(R().visit(copy.deepcopy(e)))


def local_names(fn: ast.AST) -> Set[str]:
    out = set()
    a = fn.args
    for x in a.posonlyargs + a.args + a.kwonlyargs:
        out.add(x.arg)
    if a.vararg:
        out.add(a.vararg.arg)
    if a.kwarg:
        out.add(a.kwarg.arg)
    for n in walk_body(fn):
        if isinstance(n, ast.Name) and isinstance(n.ctx, (ast.Store, ast.Del)):
            out.add(n.id)
        elif isinstance(n, ast.ExceptHandler) and n.name:
            out.add(n.name)
    out.discard("self")
    out.discard("cls")
    return out


# ---------------------------------------------------------------------------
# constant folding of predicates over a finite domain


class NotFoldable(Exception):
    pass


def fold(e: ast.AST, env: Dict[str, object]):
    """Evaluate a side-effect-free expression built from constants, names bound
    in ``env`` (dotted paths allowed), comparisons, boolean and arithmetic/bit
    operators, tuples/sets/lists and ``range``.  Raises NotFoldable otherwise."""
    if isinstance(e, ast.Constant):
        return e.value
    d = dotted(e) if isinstance(e, (ast.Name, ast.Attribute)) else None
    if d is not None:
        if d in env:
            return env[d]
        raise NotFoldable(d)
    if isinstance(e, (ast.Tuple, ast.List, ast.Set)):
        vals = [fold(x, env) for x in e.elts]
        return tuple(vals) if not isinstance(e, ast.Set) else frozenset(vals)
    if isinstance(e, ast.BoolOp):
        if isinstance(e.op, ast.And):
            r = True
            for v in e.values:
                r = fold(v, env)
                if not r:
                    return r
            return r
        r = False
        for v in e.values:
            r = fold(v, env)
            if r:
                return r
        return r
    if isinstance(e, ast.UnaryOp):
        v = fold(e.operand, env)
        if isinstance(e.op, ast.Not):
            return not v
        if isinstance(e.op, ast.USub):
            return -v
        if isinstance(e.op, ast.Invert):
            return ~v
        if isinstance(e.op, ast.UAdd):
            return +v
    if isinstance(e, ast.BinOp):
        a, b = fold(e.left, env), fold(e.right, env)
        ops = {
            ast.Add: lambda: a + b, ast.Sub: lambda: a - b, ast.Mult: lambda: a * b,
            ast.FloorDiv: lambda: a // b, ast.Mod: lambda: a % b, ast.BitAnd: lambda: a & b,
            ast.BitOr: lambda: a | b, ast.BitXor: lambda: a ^ b, ast.LShift: lambda: a << b,
            ast.RShift: lambda: a >> b, ast.Div: lambda: a / b, ast.Pow: lambda: a ** b,
        }
        f = ops.get(type(e.op))
        if f:
            try:
                return f()
            except Exception as ex:
                raise NotFoldable(str(ex))
    if isinstance(e, ast.Compare):
        left = fold(e.left, env)
        for op, rhs in zip(e.ops, e.comparators):
            right = fold(rhs, env)
            try:
                ok = {
                    ast.Eq: lambda: left == right, ast.NotEq: lambda: left != right,
                    ast.Lt: lambda: left < right, ast.LtE: lambda: left <= right,
                    ast.Gt: lambda: left > right, ast.GtE: lambda: left >= right,
                    ast.In: lambda: left in right, ast.NotIn: lambda: left not in right,
                    ast.Is: lambda: left is right or left == right and right is None,
                    ast.IsNot: lambda: not (left is right),
                }[type(op)]()
            except Exception as ex:
                raise NotFoldable(str(ex))
            if not ok:
                return False
            left = right
        return True
    if isinstance(e, ast.IfExp):
        return fold(e.body, env) if fold(e.test, env) else fold(e.orelse, env)
    if isinstance(e, ast.Call) and isinstance(e.func, ast.Name) and e.func.id in ("range", "bool", "int", "len", "str", "min", "max") and not e.keywords:
        args = [fold(a, env) for a in e.args]
        try:
            return {"range": range, "bool": bool, "int": int, "len": len, "str": str, "min": min, "max": max}[e.func.id](*args)
        except Exception as ex:
            raise NotFoldable(str(ex))
    raise NotFoldable(unparse(e))


def truth_set(e: ast.AST, var: str, domain: Iterable, extra_env: Optional[Dict[str, object]] = None) -> Set:
    """The subset of ``domain`` for which predicate ``e`` (over variable path
    ``var``) folds to true."""
    out = set()
    for v in domain:
        env = dict(extra_env or {})
        env[var] = v
        if fold(e, env):
            out.add(v)
    return out


def literal_strs(e: ast.AST) -> List[str]:
    return [n.value for n in ast.walk(e) if isinstance(n, ast.Constant) and isinstance(n.value, str)]


def literal_ints(e: ast.AST) -> List[int]:
    return [n.value for n in ast.walk(e) if isinstance(n, ast.Constant) and type(n.value) is int]


def compare_parts(e: ast.AST) -> Optional[Tuple[ast.AST, ast.cmpop, ast.AST]]:
    if isinstance(e, ast.Compare) and len(e.ops) == 1:
        return e.left, e.ops[0], e.comparators[0]
    return None


def split_conj(e: ast.AST) -> List[ast.AST]:
    if isinstance(e, ast.BoolOp) and isinstance(e.op, ast.And):
        out = []
        for v in e.values:
            out.extend(split_conj(v))
        return out
    return [e]


def split_disj(e: ast.AST) -> List[ast.AST]:
    if isinstance(e, ast.BoolOp) and isinstance(e.op, ast.Or):
        out = []
        for v in e.values:
            out.extend(split_disj(v))
        return out
    return [e]
