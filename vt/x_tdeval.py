"""Finite-domain abstract evaluation of small arithmetic function bodies.

Interprets the AST of straight-line/if code over *exact* values: rationals
(``fractions.Fraction``) and an abstract ``timedelta`` (``TD``) that follows
CPython's normalisation (days / seconds / microseconds, ``total_seconds()``,
``td / td``, ``td / n``, ``td * n``, comparisons).  Used to decide unit and
rounding clauses (``.seconds`` drops days, ms vs s, floor vs ceil) for every
sample of a finite grid, whatever formula the code uses.  Nothing is imported
from or executed in the analysed tree; an unsupported construct raises
``Unsupported`` (the caller maps it to AnalysisError).
"""
from __future__ import annotations

import ast
import math
from fractions import Fraction
from typing import Dict, List, Optional

from . import q


class Unsupported(Exception):
    pass


class Raised(Exception):
    def __init__(self, name):
        super().__init__(name)
        self.name = name


class Returned(Exception):
    def __init__(self, value):
        super().__init__("return")
        self.value = value


class TD:
    """Abstract datetime.timedelta holding an exact number of seconds."""

    __slots__ = ("s",)

    def __init__(self, seconds):
        # datetime.timedelta has microsecond resolution: every constructed or computed timedelta is rounded
        # (round-half-even, as CPython does) to a whole number of microseconds
        self.s = Fraction(round(Fraction(seconds) * 10 ** 6), 10 ** 6)

    # CPython normalisation: 0 <= seconds < 86400, 0 <= microseconds < 10**6, days carries the sign
    @property
    def days(self):
        return Fraction(math.floor(self.s / 86400))

    @property
    def seconds(self):
        return Fraction(math.floor(self.s - self.days * 86400))

    @property
    def microseconds(self):
        rem = self.s - self.days * 86400 - self.seconds
        return Fraction(math.floor(rem * 10 ** 6))

    def total_seconds(self):
        return self.s

    def __repr__(self):
        return "TD(%s)" % self.s


def _num(v):
    return isinstance(v, Fraction)


def _binop(op, a, b):
    if isinstance(a, TD) or isinstance(b, TD):
        if isinstance(op, ast.Add) and isinstance(a, TD) and isinstance(b, TD):
            return TD(a.s + b.s)
        if isinstance(op, ast.Sub) and isinstance(a, TD) and isinstance(b, TD):
            return TD(a.s - b.s)
        if isinstance(op, ast.Mult) and isinstance(a, TD) and _num(b):
            return TD(a.s * b)
        if isinstance(op, ast.Mult) and _num(a) and isinstance(b, TD):
            return TD(a * b.s)
        if isinstance(op, ast.Div) and isinstance(a, TD) and isinstance(b, TD):
            return a.s / b.s
        if isinstance(op, ast.Div) and isinstance(a, TD) and _num(b):
            return TD(a.s / b)
        if isinstance(op, ast.FloorDiv) and isinstance(a, TD) and isinstance(b, TD):
            return Fraction(math.floor(a.s / b.s))
        raise Raised("TypeError")
    if not (_num(a) and _num(b)):
        raise Unsupported("operands %r %r" % (a, b))
    if isinstance(op, ast.Add):
        return a + b
    if isinstance(op, ast.Sub):
        return a - b
    if isinstance(op, ast.Mult):
        return a * b
    if isinstance(op, ast.Div):
        if b == 0:
            raise Raised("ZeroDivisionError")
        return a / b
    if isinstance(op, ast.FloorDiv):
        if b == 0:
            raise Raised("ZeroDivisionError")
        return Fraction(math.floor(a / b))
    if isinstance(op, ast.Mod):
        if b == 0:
            raise Raised("ZeroDivisionError")
        return a - b * math.floor(a / b)
    if isinstance(op, ast.Pow) and b.denominator == 1 and abs(b) <= 12:
        return a ** int(b)
    raise Unsupported("operator %s" % type(op).__name__)


def _cmp(op, a, b):
    if isinstance(op, (ast.Is, ast.IsNot)):
        r = (a is b) or (a is None and b is None)
        return r if isinstance(op, ast.Is) else not r
    if isinstance(a, TD) and isinstance(b, TD):
        a, b = a.s, b.s
    elif isinstance(a, TD) or isinstance(b, TD):
        if isinstance(op, ast.Eq):
            return False
        if isinstance(op, ast.NotEq):
            return True
        raise Raised("TypeError")
    if a is None or b is None:
        if isinstance(op, ast.Eq):
            return a is b
        if isinstance(op, ast.NotEq):
            return a is not b
        raise Raised("TypeError")
    table = {ast.Lt: a < b, ast.LtE: a <= b, ast.Gt: a > b, ast.GtE: a >= b, ast.Eq: a == b, ast.NotEq: a != b}
    if type(op) in table:
        return table[type(op)]
    raise Unsupported("comparison %s" % type(op).__name__)


TD_UNITS = {"days": 86400, "seconds": 1, "microseconds": Fraction(1, 10 ** 6), "milliseconds": Fraction(1, 1000), "minutes": 60, "hours": 3600, "weeks": 7 * 86400}


def ev(e: ast.AST, env: Dict[str, object], calls: Optional[Dict[str, object]] = None):
    """Evaluate expression ``e``.  ``env`` maps dotted paths to values; ``calls``
    maps the unparsed text of zero-argument calls (``self.time()``) to values."""
    calls = calls or {}
    if isinstance(e, ast.Constant):
        v = e.value
        if isinstance(v, bool) or v is None or isinstance(v, str):
            return v
        if isinstance(v, (int, float)):
            return Fraction(v)
        raise Unsupported("constant %r" % (v,))
    if isinstance(e, ast.Call) and q.unparse(e) in calls:
        return calls[q.unparse(e)]
    d = q.dotted(e) if isinstance(e, (ast.Name, ast.Attribute)) else None
    if d is not None and d in env:
        return env[d]
    if isinstance(e, ast.Attribute):
        base = ev(e.value, env, calls)
        if isinstance(base, TD) and e.attr in ("days", "seconds", "microseconds"):
            return getattr(base, e.attr)
        raise Unsupported("attribute %s" % q.unparse(e))
    if isinstance(e, ast.Name):
        raise Unsupported("name %s" % e.id)
    if isinstance(e, ast.BinOp):
        return _binop(e.op, ev(e.left, env, calls), ev(e.right, env, calls))
    if isinstance(e, ast.UnaryOp):
        v = ev(e.operand, env, calls)
        if isinstance(e.op, ast.Not):
            return not _truth(v)
        if isinstance(e.op, ast.USub):
            return TD(-v.s) if isinstance(v, TD) else -v
        if isinstance(e.op, ast.UAdd):
            return v
    if isinstance(e, ast.Compare):
        left = ev(e.left, env, calls)
        for op, r in zip(e.ops, e.comparators):
            right = ev(r, env, calls)
            if not _cmp(op, left, right):
                return False
            left = right
        return True
    if isinstance(e, ast.BoolOp):
        v = None
        for x in e.values:
            v = ev(x, env, calls)
            if isinstance(e.op, ast.And) and not _truth(v):
                return v
            if isinstance(e.op, ast.Or) and _truth(v):
                return v
        return v
    if isinstance(e, ast.IfExp):
        return ev(e.body if _truth(ev(e.test, env, calls)) else e.orelse, env, calls)
    if isinstance(e, ast.Call):
        fn = q.dotted(e.func)
        if fn is not None and callable(calls.get(fn)):
            # a modelled callee: evaluated positional arguments up to the first starred one
            args = []
            for a in e.args:
                if isinstance(a, ast.Starred):
                    break
                try:
                    args.append(ev(a, env, calls))
                except Unsupported:
                    args.append(None)
            return calls[fn](args)
        if fn == "isinstance" and len(e.args) == 2:
            v = ev(e.args[0], env, calls)
            cls = [q.dotted(c) or "?" for c in (e.args[1].elts if isinstance(e.args[1], ast.Tuple) else [e.args[1]])]
            res = False
            for c in cls:
                last = c.split(".")[-1]
                if last == "timedelta":
                    res |= isinstance(v, TD)
                elif last in ("Real", "Number", "int", "float", "Rational", "Integral"):
                    res |= _num(v)
                else:
                    raise Unsupported("isinstance against %s" % c)
            return res
        if fn in ("datetime.timedelta", "timedelta"):
            tot = Fraction(0)
            order = ["days", "seconds", "microseconds", "milliseconds", "minutes", "hours", "weeks"]
            for i, a in enumerate(e.args):
                tot += ev(a, env, calls) * TD_UNITS[order[i]]
            for k in e.keywords:
                if k.arg not in TD_UNITS:
                    raise Unsupported("timedelta(%s=)" % k.arg)
                tot += ev(k.value, env, calls) * TD_UNITS[k.arg]
            return TD(tot)
        if isinstance(e.func, ast.Attribute) and e.func.attr == "total_seconds" and not e.args:
            base = ev(e.func.value, env, calls)
            if isinstance(base, TD):
                return base.total_seconds()
            raise Raised("AttributeError")
        if not e.keywords and len(e.args) == 1 and fn in ("math.floor", "math.ceil", "int", "float", "round", "abs", "math.trunc"):
            v = ev(e.args[0], env, calls)
            if not _num(v):
                raise Raised("TypeError")
            return {"math.floor": lambda: Fraction(math.floor(v)), "math.ceil": lambda: Fraction(math.ceil(v)), "int": lambda: Fraction(math.trunc(v)),
                    "math.trunc": lambda: Fraction(math.trunc(v)), "float": lambda: v, "round": lambda: Fraction(round(v)), "abs": lambda: abs(v)}[fn]()
        if not e.keywords and fn in ("max", "min") and len(e.args) >= 2:
            vals = [ev(a, env, calls) for a in e.args]
            if all(_num(v) for v in vals):
                return max(vals) if fn == "max" else min(vals)
    raise Unsupported(q.unparse(e)[:70])


def _truth(v):
    if isinstance(v, TD):
        return v.s != 0
    return bool(v)


def run(stmts: List[ast.stmt], env: Dict[str, object], calls: Optional[Dict[str, object]] = None, ignore=None):
    """Execute statements (assign / aug-assign / if / raise / return / pass) in
    ``env``.  ``ignore(stmt)`` lets the caller skip statements that do not
    matter for the clause (e.g. stores of unrelated attributes from opaque values)."""
    for st in stmts:
        if ignore is not None and ignore(st):
            continue
        if isinstance(st, ast.Expr) and isinstance(st.value, ast.Constant):
            continue
        if isinstance(st, ast.Pass):
            continue
        if isinstance(st, (ast.Assign, ast.AnnAssign)):
            if getattr(st, "value", None) is None:
                continue
            tgs = st.targets if isinstance(st, ast.Assign) else [st.target]
            v = ev(st.value, env, calls)
            for tg in tgs:
                d = q.dotted(tg)
                if d is None:
                    raise Unsupported("assignment target %s" % q.unparse(tg))
                env[d] = v
        elif isinstance(st, ast.AugAssign):
            d = q.dotted(st.target)
            if d is None:
                raise Unsupported("augmented target")
            cur = ev(ast.copy_location(ast.Name(id="__x__", ctx=ast.Load()), st.target), dict(env, __x__=ev_load(st.target, env, calls)), calls)
            env[d] = _binop(st.op, cur, ev(st.value, env, calls))
        elif isinstance(st, ast.If):
            run(st.body if _truth(ev(st.test, env, calls)) else st.orelse, env, calls, ignore)
        elif isinstance(st, ast.Raise):
            e = st.exc
            nm = q.dotted(e.func if isinstance(e, ast.Call) else e) if e is not None else "?"
            raise Raised(nm or "?")
        elif isinstance(st, ast.Return):
            raise Returned(ev(st.value, env, calls) if st.value is not None else None)
        else:
            raise Unsupported("statement %s" % type(st).__name__)


def ev_load(target: ast.AST, env, calls=None):
    d = q.dotted(target)
    if d is not None and d in env:
        return env[d]
    raise Unsupported("read of %s" % q.unparse(target))
