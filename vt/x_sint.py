"""SINT — strict integers on wire text (DESIGN.md Appendix A.2), reusable helper.

Governed construct: a call ``int(X)`` / ``int(X, base)`` in a function, where X
is text that came from the wire.  Two sub-obligations are decided per site:

g1  *digits guard* — the operand can only consist of ASCII digits of the base:
    (a) a dominating ``P.fullmatch(X)`` / ``re.fullmatch(pat, X)`` success fact
        (must-facts on the CFG, killed by re-assignment of X) whose pattern
        language (regex automaton, :mod:`vt.rx`) is included in ``[0-9]+``
        (``[0-9a-fA-F]+`` for base 16, ``[0-7]+`` for base 8), or
    (b) X is ``m.group(k)`` / ``m[k]`` of a match object ``m`` bound once in the
        function from ``P.fullmatch/match/search(..)``, ``m`` is known non-None
        at the site, group k takes part in every match, and the *sub-language
        of group k* is included in the digit language, or
    (c) dominating ``X.isascii()`` and ``X.isdigit()``/``X.isdecimal()`` facts.
        In (b) a digits-or-empty group (``([0-9]*)``) is accepted together with
        a dominating truthiness / ``!= ""`` fact on ``m.group(k)``.
    ``\\d`` and a bare ``isdigit()`` do NOT qualify (non-ASCII digits) unless
    ``ascii_only=False`` is requested (property only says "never raises").
g2  *length bound / error handling* — one of: the guarding language has a
    finite maximal length <= 4300 (CPython's int-string limit); the base is a
    power of two; a dominating ``len(X) <= N`` fact; the call is inside a
    ``try`` whose handler catches ``ValueError`` — or every call site of the
    enclosing function (``callers=`` / looked up in the repo) is.

Modes: ``strict`` (default) requires g1 even when ValueError is handled (the
property says malformed numbers are *rejected*); ``total`` accepts a local (or
all-callers) ValueError handler as discharging both (the property only says
*never raises*).

Small API
---------
``int_sites(fi)``                         -> [(cfg node, ast.Call)] reachable ``int(..)`` calls with >= 1 arg
``analyse(repo, fi, node, call, ...)``    -> :class:`SintResult` (no obligations recorded)
``check_sint(ck, rule, fi, ...)``         -> number of governed sites; records two obligations per site
``resolve_pattern(repo, fi, expr)``       -> pattern text of a regex-valued expression (or None)
``group_rx(pattern, k)``                  -> (Rx of capture group k, always_participates)

Nothing is imported from tornado; regexes are never executed, only compiled to
automata.
"""
from __future__ import annotations

import ast
from typing import Callable, Iterable, List, Optional, Sequence, Tuple

from . import q
from . import rx as _rx
from .cfg import Node, must_facts, canon_fact
from .model import AnalysisError, FuncInfo, Repo
from .rules import callers_of

INT_MAX_STR_DIGITS = 4300

_DIGITS_REF = {10: r"[0-9]+", 16: r"[0-9a-fA-F]+", 8: r"[0-7]+", 2: r"[01]+"}
_MATCH_METHODS = ("fullmatch", "match", "search")


class SintResult:
    def __init__(self, call: ast.Call):
        self.call = call
        self.operand = q.unparse(call.args[0])
        self.base: Optional[int] = 10
        self.g1 = False
        self.g1_why = "no digits guard found"
        self.g2 = False
        self.g2_why = "no length bound and ValueError not handled"
        self.handled = False  # ValueError caught locally or at all callers
        self.lang: Optional[_rx.Rx] = None  # the language proven for the operand


# ---------------------------------------------------------------------------
# regex resolution


def resolve_pattern(repo: Repo, fi: FuncInfo, expr: ast.AST):
    """Pattern text (str/bytes) of an expression denoting a compiled regex or a
    pattern string, resolved statically: constants / f-strings, ``re.compile``,
    ``_ABNF.x`` (evaluated class body), module-level ``NAME = re.compile(..)``
    of the function's module, ``othermodule.NAME``.  None if not resolvable."""
    try:
        return _rx.eval_pattern_expr(expr, {})
    except AnalysisError:
        pass
    d = q.dotted(expr) if isinstance(expr, (ast.Name, ast.Attribute)) else None
    if d is None:
        return None
    parts = d.split(".")
    # ClassName.attr (class of patterns in this or another tornado module), optionally module-prefixed
    if len(parts) >= 2:
        clsname, attr = parts[-2], parts[-1]
        for rel, m in ([(fi.file, fi.module)] + [(r, mm) for r, mm in repo.modules.items() if mm is not fi.module]):
            if clsname in m.classes:
                env = _rx.eval_class_patterns(repo, rel, clsname)
                if attr in env:
                    return env[attr]
                return None
        # module.NAME
        modname, name = parts[-2], parts[-1]
        for rel, m in repo.modules.items():
            if rel.endswith("/" + modname + ".py") and name in m.assigns:
                return _rx.module_pattern(repo, rel, name)
        return None
    name = parts[0]
    if name in fi.module.assigns:
        return _rx.module_pattern(repo, fi.file, name)
    # from tornado.X import NAME
    for st in fi.module.tree.body:
        if isinstance(st, ast.ImportFrom) and st.module and st.module.startswith("tornado"):
            for a in st.names:
                if (a.asname or a.name) == name:
                    rel = st.module.replace(".", "/") + ".py"
                    if rel in repo.modules and a.name in repo.modules[rel].assigns:
                        return _rx.module_pattern(repo, rel, a.name)
    return None


def _match_call(repo: Repo, fi: FuncInfo, e: ast.AST):
    """If ``e`` is ``P.fullmatch/match/search(X, ..)`` or ``re.<same>(pat, X)``
    return (method, pattern text, subject expr); else None.  An unresolvable
    pattern yields (method, None, subject)."""
    if not isinstance(e, ast.Call) or not isinstance(e.func, ast.Attribute) or e.func.attr not in _MATCH_METHODS:
        return None
    meth = e.func.attr
    if q.dotted(e.func.value) == "re":
        if len(e.args) < 2:
            return None
        if len(e.args) > 2 or e.keywords:
            return (meth, None, e.args[1])  # flags: not modelled
        return (meth, resolve_pattern(repo, fi, e.args[0]), e.args[1])
    if not e.args:
        return None
    if len(e.args) > 1 or e.keywords:
        return (meth, None, e.args[0])  # pos/endpos: not modelled
    return (meth, resolve_pattern(repo, fi, e.func.value), e.args[0])


def group_rx(pattern, k: int) -> Tuple[_rx.Rx, bool]:
    """(language of capture group ``k`` of ``pattern``, whether the group takes
    part in every successful match).  The language is that of the group's
    sub-pattern; it does not depend on fullmatch/match/search."""
    sre_parse = _rx.sre_parse
    tree = sre_parse.parse(pattern)
    fl = tree.state.flags
    import re

    if fl & (re.IGNORECASE | re.MULTILINE):
        raise AnalysisError("regex flags IGNORECASE/MULTILINE not modelled: %r" % (pattern,))
    found = []

    def walk(items, always: bool):
        for op, av in items:
            op_s = str(op)
            if op_s == "SUBPATTERN":
                grp, sub = av[0], av[-1]
                if grp == k:
                    found.append((sub, always))
                walk(sub, always)
            elif op_s == "BRANCH":
                for alt in av[1]:
                    walk(alt, False)
            elif op_s in ("MAX_REPEAT", "MIN_REPEAT", "POSSESSIVE_REPEAT"):
                lo, hi, sub = av
                walk(sub, always and lo >= 1)
            elif op_s in ("ASSERT", "ASSERT_NOT", "GROUPREF", "GROUPREF_EXISTS", "ATOMIC_GROUP"):
                raise AnalysisError("regex construct %s not modelled" % op_s)

    walk(list(tree), True)
    if len(found) != 1:
        raise AnalysisError("capture group %d not found in %r" % (k, pattern))
    sub, always = found[0]
    nfa = _rx._NFA()
    b = _rx._Builder(nfa, isinstance(pattern, bytes) or bool(fl & re.ASCII), bool(fl & re.DOTALL), "fullmatch")
    s = nfa.new()
    e = b.seq(list(sub), s)
    return _rx.Rx._determinise(nfa, s, e, "group %d of %r" % (k, pattern)), always


def _ref_text(base: int, ascii_only: bool = True) -> str:
    if base not in _DIGITS_REF:
        raise AnalysisError("int() base %r not modelled" % base)
    return r"\d+" if (not ascii_only and base == 10) else _DIGITS_REF[base]


def _nonempty_fact(F, optext: str) -> bool:
    """A dominating truthiness / ``!= ''`` fact on the operand text."""
    for text, pol in F:
        if text == optext and pol:
            return True
        if text in ("%s == ''" % optext, '%s == ""' % optext) and not pol:
            return True
    return False


def digits_ref(base: int, ascii_only: bool = True) -> _rx.Rx:
    if base not in _DIGITS_REF:
        raise AnalysisError("int() base %r not modelled" % base)
    if not ascii_only and base == 10:
        return _rx.Rx.from_pattern(r"\d+")
    return _rx.Rx.from_pattern(_DIGITS_REF[base])


# ---------------------------------------------------------------------------
# sites


def _is_int_call(n: ast.AST) -> bool:
    return isinstance(n, ast.Call) and isinstance(n.func, ast.Name) and n.func.id == "int" and len(n.args) >= 1 and not any(isinstance(a, ast.Starred) for a in n.args)


def int_sites(fi: FuncInfo) -> List[Tuple[Node, ast.Call]]:
    """Reachable ``int(X[, base])`` calls of ``fi`` (own scope) whose operand is
    not a numeric literal."""
    return [(n, c) for n, c in fi.cfg.find(_is_int_call) if not (isinstance(c.args[0], ast.Constant) and isinstance(c.args[0].value, (int, float)))]


def _base_of(call: ast.Call) -> Optional[int]:
    b = call.args[1] if len(call.args) > 1 else q.kwarg(call, "base")
    if b is None:
        return 10
    if isinstance(b, ast.Constant) and type(b.value) is int:
        return b.value
    return None


def _parse_fact(text: str) -> Optional[ast.AST]:
    try:
        return ast.parse(text, mode="eval").body
    except SyntaxError:
        return None


def _truthy_success(e: ast.AST, pol: bool):
    """Normalise a fact to (expr, succeeded?) where expr is the tested value:
    ``E`` true / ``E is None`` false -> (E, True)."""
    if isinstance(e, ast.Compare) and len(e.ops) == 1 and isinstance(e.ops[0], ast.Is) and q.is_const(e.comparators[0], None):
        return e.left, (not pol)
    return e, pol


def _unique_binding(fi: FuncInfo, name: str) -> Optional[ast.AST]:
    """The value expression of the single binding of local ``name`` in ``fi``
    (Assign / AnnAssign / walrus); None when there are zero or several."""
    vals = []
    for n in q.walk_body(fi.node):
        if isinstance(n, ast.Assign):
            for t in n.targets:
                if isinstance(t, ast.Name) and t.id == name:
                    vals.append(n.value)
                elif name in q.names_in(t) and not isinstance(t, ast.Name):
                    vals.append(None)
        elif isinstance(n, ast.AnnAssign) and isinstance(n.target, ast.Name) and n.target.id == name and n.value is not None:
            vals.append(n.value)
        elif isinstance(n, ast.NamedExpr) and n.target.id == name:
            vals.append(n.value)
        elif isinstance(n, (ast.For, ast.AsyncFor)) and name in q.names_in(n.target):
            vals.append(None)
        elif isinstance(n, (ast.With, ast.AsyncWith)):
            for it in n.items:
                if it.optional_vars is not None and name in q.names_in(it.optional_vars):
                    vals.append(None)
    if name in fi.params():
        vals.append(None)
    if len(vals) == 1 and vals[0] is not None:
        return vals[0]
    return None


def _group_operand(e: ast.AST) -> Optional[Tuple[str, int]]:
    """``m.group(k)`` / ``m[k]`` with m a local name and k an int literal."""
    if isinstance(e, ast.Call) and isinstance(e.func, ast.Attribute) and e.func.attr == "group" and isinstance(e.func.value, ast.Name) and len(e.args) == 1:
        k = e.args[0]
        if isinstance(k, ast.Constant) and type(k.value) is int:
            return e.func.value.id, k.value
    if isinstance(e, ast.Subscript) and isinstance(e.value, ast.Name) and isinstance(e.slice, ast.Constant) and type(e.slice.value) is int:
        return e.value.id, e.slice.value
    return None


def analyse(repo: Repo, fi: FuncInfo, node: Node, call: ast.Call, facts=None, callers: Optional[Sequence[Tuple[FuncInfo, ast.AST]]] = None,
            ascii_only: bool = True, lookup_callers: bool = True) -> SintResult:
    """Decide g1/g2 for one ``int(..)`` site.  ``callers``: explicit call sites of
    ``fi`` to consult for a ValueError handler; when None and ``lookup_callers``
    they are looked up by name over the whole repo (at least one required)."""
    res = SintResult(call)
    base = _base_of(call)
    res.base = base
    if base is None:
        res.g1_why = "non-literal base"
        return res
    ref = digits_ref(base, ascii_only)
    if facts is None:
        facts = must_facts(fi.cfg)
    F = facts[node.id]
    if any(":=" in f_[0] for f_ in F):
        from .x_resolve import strip_walrus as _sw
        F = _sw(F)
    from .x_resolve import resolve as _resolve
    operand = call.args[0]
    optext = q.unparse(operand)
    if isinstance(operand, ast.Name):
        # look through a local bound once to m.group(k) / m[k] / an element of m.groups() or m.group(i, j)
        r0 = _resolve(fi, operand)
        if _group_operand(r0) is not None:
            operand = r0
    lang: Optional[_rx.Rx] = None

    # (b) capture group of a match object
    go = _group_operand(operand)
    if go is not None:
        mname, k = go
        bind = _unique_binding(fi, mname)
        mc = _match_call(repo, fi, bind) if bind is not None else None
        if mc is not None:
            meth, pat, _subj = mc
            nonnull = (mname, True) in F or canon_fact(ast.parse("%s is None" % mname, mode="eval").body, False) in F
            if pat is None:
                res.g1_why = "pattern of match object %s cannot be resolved statically" % mname
            elif not nonnull:
                res.g1_why = "match object %s not known to be non-None here" % mname
            elif k == 0:
                if meth == "fullmatch":
                    lang = _rx.Rx.from_pattern(pat)
                else:
                    res.g1_why = "group 0 of a %s() is not the whole subject language" % meth
            else:
                g, always = group_rx(pat, k)
                if not always:
                    res.g1_why = "capture group %d may not participate (int(None))" % k
                else:
                    lang = g
            if lang is not None:
                if lang.subset_of(ref):
                    res.g1, res.g1_why = True, "capture group %d of %r is included in the base-%d digit language" % (k, pat, base)
                elif lang.subset_of(_rx.Rx.from_pattern("(?:%s)?" % _ref_text(base, ascii_only))) and _nonempty_fact(F, optext):
                    res.g1, res.g1_why = True, "capture group %d of %r is digits-or-empty and %s is known non-empty here" % (k, pat, optext)
                else:
                    w = lang.witness_not_in(ref)
                    res.g1_why = "capture group %d of %r admits %r, not in the base-%d digit language" % (k, pat, w, base)
    # (a) dominating fullmatch fact on the operand text, (c) isascii+isdigit
    if not res.g1:
        isascii = isdig = isdec = False
        for text, pol in F:
            if text.startswith("@"):
                continue
            e = _parse_fact(text)
            if e is None:
                continue
            e, ok = _truthy_success(e, pol)
            if not ok:
                continue
            if isinstance(e, ast.NamedExpr):
                e = e.value
            mc = _match_call(repo, fi, e)
            if mc is not None and mc[0] == "fullmatch" and q.unparse(mc[2]) == optext:
                if mc[1] is None:
                    continue
                l2 = _rx.Rx.from_pattern(mc[1])
                if l2.subset_of(ref):
                    lang = l2
                    res.g1, res.g1_why = True, "dominating fullmatch of %r on %s, language included in base-%d digits" % (mc[1], optext, base)
                    break
                else:
                    res.g1_why = "guard %r admits %r" % (mc[1], l2.witness_not_in(ref))
            if isinstance(e, ast.Call) and isinstance(e.func, ast.Attribute) and not e.args and q.unparse(e.func.value) == optext:
                if e.func.attr == "isascii":
                    isascii = True
                if e.func.attr in ("isdigit", "isdecimal"):
                    isdig = True
                if e.func.attr == "isdecimal":
                    isdec = True
        # without isascii(): only isdecimal() (category Nd, exactly what int() accepts) makes int() total;
        # isdigit() also admits superscripts and other Numeric_Type=Digit characters that int() rejects
        if not res.g1 and isdig and (isascii or (not ascii_only and isdec)) and base == 10:
            res.g1, res.g1_why = True, "dominating %s.isascii() and isdigit()/isdecimal()" % optext
        # a match-object truth fact: `m` true where m = P.fullmatch(operand)
        if not res.g1:
            for text, pol in F:
                if not pol or not text.isidentifier():
                    continue
                bind = _unique_binding(fi, text)
                mc = _match_call(repo, fi, bind) if bind is not None else None
                if mc is not None and mc[0] == "fullmatch" and mc[1] is not None and q.unparse(mc[2]) == optext and not q.stores_to(fi.node, optext)[1:]:
                    l2 = _rx.Rx.from_pattern(mc[1])
                    if l2.subset_of(ref):
                        lang = l2
                        res.g1, res.g1_why = True, "%s = fullmatch(%r) on %s is known to have succeeded" % (text, mc[1], optext)
                        break
    res.lang = lang if res.g1 else None

    # g2
    pm = q.parent_map(fi.node)
    h = q.protected_by(pm, call, "ValueError")
    if h is not None:
        res.handled = True
        handled_why = "ValueError handled in %s" % fi.qualname
    else:
        cs = callers
        if cs is None and lookup_callers:
            cs = [(cfi, c) for cfi, c in callers_of(repo, fi.name) if cfi.node is not fi.node]
        if cs:
            ok = True
            for cfi, cnode in cs:
                if q.protected_by(q.parent_map(cfi.node), cnode, "ValueError") is None:
                    ok = False
                    break
            if ok:
                res.handled = True
                handled_why = "ValueError handled at all %d call sites of %s" % (len(cs), fi.name)
    if base in (2, 4, 8, 16, 32):
        res.g2, res.g2_why = True, "base %d is a power of two (no digit limit)" % base
    elif res.lang is not None and res.lang.max_length() is not None and res.lang.max_length() <= INT_MAX_STR_DIGITS:
        res.g2, res.g2_why = True, "guard language bounds the length to %d" % res.lang.max_length()
    elif res.handled:
        res.g2, res.g2_why = True, handled_why
    else:
        for text, pol in F:
            e = _parse_fact(text) if not text.startswith("@") else None
            if isinstance(e, ast.Compare) and len(e.ops) == 1 and isinstance(e.left, ast.Call) and q.is_call(e.left, "len") and e.left.args and q.unparse(e.left.args[0]) == optext:
                c = e.comparators[0]
                if isinstance(c, ast.Constant) and type(c.value) is int and c.value <= INT_MAX_STR_DIGITS:
                    op = e.ops[0]
                    if (isinstance(op, (ast.LtE, ast.Lt, ast.Eq)) and pol) or (isinstance(op, (ast.Gt, ast.GtE)) and not pol):
                        res.g2, res.g2_why = True, "dominating length test %s" % text
                        break
    return res


def check_sint(ck, rule: str, fi: FuncInfo, only: Optional[Callable[[ast.Call], bool]] = None, callers: Optional[Sequence[Tuple[FuncInfo, ast.AST]]] = None,
               mode: str = "strict", ascii_only: bool = True, lookup_callers: bool = True) -> int:
    """Record the SINT obligations for every ``int(..)`` site of ``fi`` accepted by
    ``only`` (default: all).  Two obligations per site (digits guard, length
    bound / handled ValueError) under the same rule id; the finding key of g1 is
    the normalised ``int(..)`` call, that of g2 the same text + `` #bound`` (so a
    known g1 finding does not mask a later loss of the ValueError handler).
    Returns #sites."""
    if mode not in ("strict", "total"):
        raise AnalysisError("check_sint: unknown mode %r" % mode)
    facts = must_facts(fi.cfg)
    n = 0
    for node, call in int_sites(fi):
        if only is not None and not only(call):
            continue
        n += 1
        r = analyse(ck.repo, fi, node, call, facts=facts, callers=callers, ascii_only=ascii_only, lookup_callers=lookup_callers)
        g1 = r.g1 or (mode == "total" and r.handled)
        why1 = r.g1_why if (r.g1 or not g1) else "ValueError is handled (mode=total)"
        ck.ob(rule, fi, call, g1, "SINT g1: int(%s) needs an ASCII-digits guard proven by regex inclusion — %s" % (r.operand, why1))
        ck.ob(rule, fi, call, r.g2, construct=q.normalize_construct(call, q.local_names(fi.node)) + " #bound", what="SINT g2: int(%s) needs a length bound (<= %d digits), a power-of-two base or a ValueError handler — %s" % (r.operand, INT_MAX_STR_DIGITS, r.g2_why))
    return n
