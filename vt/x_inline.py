"""x_inline - behaviour-preserving inlining of private helpers (function splitting).

A maintainer may split a long anchored function into two or three private
helpers.  The rules of C09-C13 reason on the CFG of the anchored function, so
before they run the modules are normalised: every call of a *private* helper
(underscore name, same class or same module, not recursive, not one of the
functions the rules anchor on - ``keep``) is replaced by the helper's body.

Supported call positions

  P1  ``self._h(a)`` / ``await self._h(a)`` as a statement
  P2  ``T = self._h(a)`` (also annotated / tuple targets)
  P3  ``return self._h(a)``                     (the helper's returns stay returns)
  P4  the call is the first thing evaluated in the header expression of a
      simple statement, an ``if`` test or a ``while`` test (no ``else``): it is
      hoisted into a temporary (``while`` becomes ``while True: t = ..; if not
      test: break``), then P2 applies.

Parameters are substituted when the argument is a constant, a name or an
attribute path that the helper does not re-bind (and the parameter is never
re-bound); otherwise they are bound by an assignment.  Helper locals are
renamed apart.  ``return`` in P1/P2: guard-clause returns outside loops are
turned into if/else nesting; returns inside loops / try / with use a done-flag
and ``break``.  Anything that does not fit is left alone (the rules then see
the call and fail closed).  Nothing is executed; the rewritten trees only live
in memory.
"""
from __future__ import annotations

import ast
import copy
from typing import Dict, Iterable, List, Optional, Set, Tuple

from . import q
from .model import Repo

FuncNode = (ast.FunctionDef, ast.AsyncFunctionDef)
LOOPS = (ast.While, ast.For, ast.AsyncFor)
PURE_BUILTINS = {"len", "isinstance", "bool", "int", "str", "min", "max", "callable", "iter", "tuple", "list"}

_uid = [0]


def _fresh() -> int:
    _uid[0] += 1
    return _uid[0]


def _is_private(name: str) -> bool:
    return name.startswith("_") and not (name.startswith("__") and name.endswith("__"))


class _NotInlinable(Exception):
    pass


# ---------------------------------------------------------------------------
# callee checks


def _own_walk(fn):
    """nodes of fn's own scope (nested defs / lambdas / classes yielded, not entered)"""
    stack = list(reversed(fn.body))
    while stack:
        n = stack.pop()
        yield n
        if isinstance(n, FuncNode + (ast.Lambda, ast.ClassDef)):
            continue
        stack.extend(reversed(list(ast.iter_child_nodes(n))))


def _callee_ok(h) -> bool:
    if not isinstance(h, FuncNode):
        return False
    for d in h.decorator_list:
        if q.dotted(d) not in ("staticmethod", "classmethod"):
            return False
    a = h.args
    if a.vararg or a.kwarg or a.kwonlyargs:
        return False
    for n in ast.walk(h):
        if isinstance(n, (ast.Yield, ast.YieldFrom, ast.Global, ast.Nonlocal)):
            return False
    # recursion / nested defs that shadow locals are not handled
    for n in _own_walk(h):
        if isinstance(n, FuncNode + (ast.ClassDef,)):
            return False
        if isinstance(n, ast.Call) and isinstance(n.func, ast.Attribute) and n.func.attr == h.name and q.dotted(n.func.value) in ("self", "cls"):
            return False
        if isinstance(n, ast.Call) and isinstance(n.func, ast.Name) and n.func.id == h.name:
            return False
    return True


def _locals_of(h) -> Set[str]:
    out: Set[str] = set()
    a = h.args
    for x in a.posonlyargs + a.args:
        out.add(x.arg)
    for n in ast.walk(h):
        if isinstance(n, ast.Name) and isinstance(n.ctx, (ast.Store, ast.Del)):
            out.add(n.id)
        elif isinstance(n, ast.ExceptHandler) and n.name:
            out.add(n.name)
    # parameters of nested lambdas are their own scope: leave them alone unless the helper also binds the name
    return out


class _Rename(ast.NodeTransformer):
    def __init__(self, mapping: Dict[str, str], subst: Dict[str, ast.AST]):
        self.mapping = mapping
        self.subst = subst

    def visit_Name(self, node):
        if node.id in self.subst and isinstance(node.ctx, ast.Load):
            return copy.deepcopy(self.subst[node.id])
        if node.id in self.mapping:
            return ast.copy_location(ast.Name(id=self.mapping[node.id], ctx=node.ctx), node)
        return node

    def visit_ExceptHandler(self, node):
        self.generic_visit(node)
        if node.name and node.name in self.mapping:
            node.name = self.mapping[node.name]
        return node

    def visit_arg(self, node):
        if node.arg in self.mapping:
            node.arg = self.mapping[node.arg]
        return node


# ---------------------------------------------------------------------------
# return lowering


def _contains_return(node) -> bool:
    for n in ast.walk(node):
        if isinstance(n, FuncNode + (ast.Lambda,)):
            continue
        if isinstance(n, ast.Return):
            return True
    return False


def _returns_in_complex(stmts) -> bool:
    """a return sits inside a loop / try / with of this block"""
    for st in stmts:
        if isinstance(st, LOOPS + (ast.Try, ast.With, ast.AsyncWith)):
            if _contains_return(st):
                return True
        elif isinstance(st, ast.If):
            if _returns_in_complex(st.body) or _returns_in_complex(st.orelse):
                return True
    return False


def _always_returns(block) -> bool:
    if not block:
        return False
    last = block[-1]
    if isinstance(last, (ast.Return, ast.Raise)):
        return True
    if isinstance(last, ast.If):
        return _always_returns(last.body) and _always_returns(last.orelse)
    return False


class _NeedFlags(Exception):
    pass


def _handler_always_leaves(h: ast.ExceptHandler) -> bool:
    return _always_returns(h.body)


def _nest(stmts, on_return):
    """guard-clause returns -> if/else nesting; a try whose handlers all return and whose body does not
    becomes try/except/else(rest); loops / other complex statements with returns get a done-flag that
    only guards the statements after them.  ``on_return(ret)`` gives the statements replacing a return."""
    out: List[ast.stmt] = []
    for i, st in enumerate(stmts):
        if isinstance(st, ast.Return):
            out.extend(on_return(st))
            return out
        if isinstance(st, ast.Try) and _contains_return(st) and not st.finalbody:
            body_ret = _contains_return(ast.Module(body=st.body + st.orelse, type_ignores=[]))
            if not body_ret and st.handlers and all(_handler_always_leaves(h) or not _contains_return(h) for h in st.handlers) and all(_handler_always_leaves(h) for h in st.handlers if _contains_return(h)):
                falls = [h for h in st.handlers if not _handler_always_leaves(h)]
                rest = stmts[i + 1:]
                if not falls or not rest:
                    new = copy.copy(st)
                    new.handlers = []
                    for h in st.handlers:
                        h2 = copy.copy(h)
                        h2.body = _nest(h.body, on_return) or [ast.copy_location(ast.Pass(), h)]
                        new.handlers.append(h2)
                    new.orelse = list(st.orelse) + (_nest(rest, on_return) if rest else [])
                    out.append(new)
                    return out
        if isinstance(st, LOOPS + (ast.Try, ast.With, ast.AsyncWith)) and _contains_return(st):
            done = "done__i%d" % _fresh()
            out.append(ast.copy_location(ast.Assign(targets=[ast.Name(id=done, ctx=ast.Store())], value=ast.Constant(value=False)), st))
            lowered = _flag([st], False, done, on_return, st)
            out.extend(lowered)
            rest = stmts[i + 1:]
            if rest:
                out.append(ast.copy_location(ast.If(test=ast.UnaryOp(op=ast.Not(), operand=ast.Name(id=done, ctx=ast.Load())), body=_nest(rest, on_return) or [ast.Pass()], orelse=[]), st))
            return out
        if isinstance(st, ast.If) and _contains_return(st):
            body = _nest(st.body, on_return)
            orelse = _nest(st.orelse, on_return)
            rest = stmts[i + 1:]
            b_ret, o_ret = _always_returns(st.body), _always_returns(st.orelse)
            if rest:
                if b_ret and not o_ret:
                    orelse = orelse + _nest(rest, on_return)
                elif o_ret and not b_ret:
                    body = body + _nest(rest, on_return)
                elif b_ret and o_ret:
                    pass
                else:
                    raise _NeedFlags()
            new = ast.copy_location(ast.If(test=st.test, body=body or [ast.copy_location(ast.Pass(), st)], orelse=orelse), st)
            out.append(new)
            return out
        out.append(st)
    return out


def _flag(stmts, in_loop: bool, done: str, on_return, at):
    out: List[ast.stmt] = []
    for i, st in enumerate(stmts):
        if isinstance(st, ast.Return):
            out.extend(on_return(st))
            out.append(ast.copy_location(ast.Assign(targets=[ast.Name(id=done, ctx=ast.Store())], value=ast.Constant(value=True)), st))
            if in_loop:
                out.append(ast.copy_location(ast.Break(), st))
            return out
        if _contains_return(st):
            st = copy.copy(st)
            if isinstance(st, ast.If):
                st.body = _flag(st.body, in_loop, done, on_return, at) or [ast.Pass()]
                st.orelse = _flag(st.orelse, in_loop, done, on_return, at)
            elif isinstance(st, LOOPS):
                if st.orelse:
                    raise _NotInlinable("return inside a loop with else")
                st.body = _flag(st.body, True, done, on_return, at)
            elif isinstance(st, ast.Try):
                had = _contains_return(ast.Module(body=st.body, type_ignores=[]))
                st.body = _flag(st.body, in_loop, done, on_return, at)
                st.handlers = [copy.copy(h) for h in st.handlers]
                for h in st.handlers:
                    h.body = _flag(h.body, in_loop, done, on_return, at) or [ast.Pass()]
                if st.orelse:
                    oe = _flag(st.orelse, in_loop, done, on_return, at)
                    st.orelse = [ast.If(test=ast.UnaryOp(op=ast.Not(), operand=ast.Name(id=done, ctx=ast.Load())), body=oe, orelse=[])] if had else oe
                if st.finalbody and _contains_return(ast.Module(body=st.finalbody, type_ignores=[])):
                    raise _NotInlinable("return in finally")
            elif isinstance(st, (ast.With, ast.AsyncWith)):
                st.body = _flag(st.body, in_loop, done, on_return, at)
            else:
                raise _NotInlinable("return inside %s" % type(st).__name__)
            out.append(st)
            rest = _flag(stmts[i + 1:], in_loop, done, on_return, at)
            if in_loop:
                out.append(ast.If(test=ast.Name(id=done, ctx=ast.Load()), body=[ast.Break()], orelse=[]))
                out.extend(rest)
            elif rest:
                out.append(ast.If(test=ast.UnaryOp(op=ast.Not(), operand=ast.Name(id=done, ctx=ast.Load())), body=rest, orelse=[]))
            return out
        out.append(st)
    return out


# ---------------------------------------------------------------------------
# the inliner


class _Module:
    def __init__(self, tree: ast.Module, keep: Set[str]):
        self.tree = tree
        self.keep = keep
        self.classes: Dict[str, ast.ClassDef] = {n.name: n for n in tree.body if isinstance(n, ast.ClassDef)}
        self.funcs: Dict[str, ast.AST] = {n.name: n for n in tree.body if isinstance(n, FuncNode)}
        self.inlined: Set[str] = set()

    def method(self, cls: Optional[ast.ClassDef], name: str):
        if cls is None:
            return None
        for m in cls.body:
            if isinstance(m, FuncNode) and m.name == name:
                return m
        return None

    def resolve(self, call: ast.Call, cls: Optional[ast.ClassDef], in_fn) -> Tuple[Optional[ast.AST], bool]:
        """(helper def, drop first parameter)"""
        f = call.func
        if isinstance(f, ast.Attribute) and isinstance(f.value, ast.Name):
            owner = None
            if f.value.id in ("self", "cls"):
                owner = cls
            elif f.value.id in self.classes and cls is not None and f.value.id == cls.name:
                owner = cls
            if owner is None:
                return None, False
            nm = f.attr
            if not _is_private(nm) or nm in self.keep:
                return None, False
            h = self.method(owner, nm)
            if h is None or h is in_fn or not _callee_ok(h):
                return None, False
            static = any(q.dotted(d) == "staticmethod" for d in h.decorator_list)
            return h, not static
        if isinstance(f, ast.Name):
            nm = f.id
            if not _is_private(nm) or nm in self.keep:
                return None, False
            h = self.funcs.get(nm)
            if h is None or h is in_fn or not _callee_ok(h):
                return None, False
            return h, False
        return None, False


def _stable_arg(a: ast.AST) -> bool:
    if isinstance(a, ast.Constant):
        return True
    if isinstance(a, ast.Name):
        return True
    if isinstance(a, ast.Attribute):
        return q.dotted(a) is not None
    if isinstance(a, (ast.List, ast.Tuple)) and all(isinstance(x, ast.Constant) for x in a.elts):
        return True
    return False


def _stored_paths(h) -> Set[str]:
    out: Set[str] = set()
    for n in _own_walk(h):
        if isinstance(n, (ast.Assign, ast.AugAssign, ast.AnnAssign, ast.Delete, ast.For, ast.AsyncFor, ast.With, ast.AsyncWith)):
            out |= {p for p in q.assigned_paths(n) if not p.endswith("[]")}  # x[i] = .. does not re-bind x
    return out


def _instantiate(h, call: ast.Call, drop_self: bool) -> Tuple[List[ast.stmt], List[ast.stmt], Dict[str, str]]:
    """(parameter binding statements, renamed body, rename map)"""
    uid = _fresh()
    a = h.args
    params = [x.arg for x in a.posonlyargs + a.args]
    if any(isinstance(x, ast.Starred) for x in call.args) or any(k.arg is None for k in call.keywords):
        raise _NotInlinable("star args")
    subst: Dict[str, ast.AST] = {}
    if drop_self:
        if not params:
            raise _NotInlinable("no self parameter")
        recv = call.func.value if isinstance(call.func, ast.Attribute) else None
        if recv is None:
            raise _NotInlinable("no receiver")
        subst[params[0]] = recv
        params = params[1:]
    if len(call.args) > len(params):
        raise _NotInlinable("too many arguments")
    binding: Dict[str, ast.AST] = dict(zip(params, call.args))
    for k in call.keywords:
        if k.arg not in params or k.arg in binding:
            raise _NotInlinable("bad keyword")
        binding[k.arg] = k.value
    all_params = [x.arg for x in a.posonlyargs + a.args]
    defaults = dict(zip(reversed(all_params), reversed(a.defaults)))
    for p in params:
        if p not in binding:
            if p in defaults:
                binding[p] = defaults[p]
            else:
                raise _NotInlinable("missing argument")
    stored = _stored_paths(h)
    names = _locals_of(h)
    mapping = {n: "%s__i%d" % (n, uid) for n in names if n not in subst}
    binds: List[ast.stmt] = []
    for p in params:
        arg = binding[p]
        d = q.dotted(arg) if isinstance(arg, (ast.Name, ast.Attribute)) else None
        can_subst = p not in stored and _stable_arg(arg) and (d is None or not any(s == d or d.startswith(s + ".") for s in stored))
        if can_subst:
            subst[p] = arg
            mapping.pop(p, None)
        else:
            binds.append(ast.copy_location(ast.Assign(targets=[ast.Name(id=mapping[p], ctx=ast.Store())], value=copy.deepcopy(arg)), call))
    body = [copy.deepcopy(st) for st in h.body]
    if body and isinstance(body[0], ast.Expr) and isinstance(body[0].value, ast.Constant) and isinstance(body[0].value.value, str):
        body = body[1:]
    rn = _Rename(mapping, subst)
    body = [rn.visit(st) for st in body]
    for st in binds + body:
        ast.fix_missing_locations(st)
    return binds, body, mapping


def _first_eval_call(e: ast.AST):
    """first Call (or Await of a call) evaluated in ``e`` when everything evaluated
    before it is side-effect free; None when evaluation order cannot be kept."""
    def visit(x):
        # returns ("found", node) | ("pure", None) | ("stop", None)
        if isinstance(x, (ast.Constant, ast.Name)):
            return "pure", None
        if isinstance(x, ast.Attribute):
            return visit(x.value)
        if isinstance(x, ast.Await):
            if isinstance(x.value, ast.Call):
                r = visit_call_parts(x.value)
                if r[0] != "pure":
                    return r
                return "found", x
            return "stop", None
        if isinstance(x, ast.Call):
            r = visit_call_parts(x)
            if r[0] != "pure":
                return r
            if isinstance(x.func, ast.Name) and x.func.id in PURE_BUILTINS:
                return "pure", None
            return "found", x
        if isinstance(x, ast.UnaryOp):
            return visit(x.operand)
        if isinstance(x, ast.BinOp):
            r = visit(x.left)
            return r if r[0] != "pure" else visit(x.right)
        if isinstance(x, ast.Compare):
            for y in [x.left] + list(x.comparators):
                r = visit(y)
                if r[0] != "pure":
                    return r
            return "pure", None
        if isinstance(x, ast.BoolOp):
            r = visit(x.values[0])
            return r if r[0] != "pure" else ("stop", None)
        if isinstance(x, ast.IfExp):
            r = visit(x.test)
            return r if r[0] != "pure" else ("stop", None)
        if isinstance(x, (ast.Tuple, ast.List)):
            for y in x.elts:
                r = visit(y)
                if r[0] != "pure":
                    return r
            return "pure", None
        if isinstance(x, ast.Subscript):
            r = visit(x.value)
            if r[0] != "pure":
                return r
            return visit(x.slice) if not isinstance(x.slice, ast.Slice) else ("stop", None)
        return "stop", None

    def visit_call_parts(c):
        r = visit(c.func) if isinstance(c.func, ast.Attribute) else ("pure", None)
        if r[0] != "pure":
            return r
        for y in list(c.args) + [k.value for k in c.keywords]:
            r = visit(y)
            if r[0] != "pure":
                return r
        return "pure", None

    r = visit(e)
    return r[1] if r[0] == "found" else None


def _replace_node(root: ast.AST, old: ast.AST, new: ast.AST) -> ast.AST:
    class T(ast.NodeTransformer):
        def visit(self, node):
            if node is old:
                return new
            return super().visit(node)

    return T().visit(root)


class _Inliner:
    def __init__(self, mod: _Module, cls: Optional[ast.ClassDef], fn, budget: int = 24):
        self.mod = mod
        self.cls = cls
        self.fn = fn
        self.budget = budget
        self.changed = False
        self.is_async = isinstance(fn, ast.AsyncFunctionDef)
        self.stack: List[str] = [fn.name]

    def _call_of(self, e):
        if isinstance(e, ast.Await) and isinstance(e.value, ast.Call):
            return e.value, True
        if isinstance(e, ast.Call):
            return e, False
        return None, False

    def _resolvable(self, e):
        call, awaited = self._call_of(e)
        if call is None:
            return None
        h, drop = self.mod.resolve(call, self.cls, self.fn)
        if h is None or h.name in self.stack and False:
            return None
        if isinstance(h, ast.AsyncFunctionDef) != awaited:
            return None
        if awaited and not self.is_async:
            return None
        return call, h, drop

    def _expand(self, call, h, drop, mode, target_stmt) -> Optional[List[ast.stmt]]:
        """mode: 'discard' | 'assign' | 'return'"""
        try:
            binds, body, _ = _instantiate(h, call, drop)
            self.mod.inlined.add(h.name)
            if mode == "return":
                out = binds + body
                if not _always_returns(body):
                    out.append(ast.copy_location(ast.Return(value=ast.Constant(value=None)), target_stmt))
                return out

            # `T = self._h()` where every return of the helper returns the same local: use T for that local
            if mode == "assign" and isinstance(target_stmt, (ast.Assign, ast.AnnAssign)):
                tg = target_stmt.targets if isinstance(target_stmt, ast.Assign) else [target_stmt.target]
                rets = [n for st_ in body for n in ast.walk(st_) if isinstance(n, ast.Return)]
                if len(tg) == 1 and isinstance(tg[0], ast.Name) and rets and all(isinstance(r_.value, ast.Name) for r_ in rets) and len({r_.value.id for r_ in rets}) == 1:
                    rname = rets[0].value.id
                    tname = tg[0].id
                    used = {x.id for st_ in body for x in ast.walk(st_) if isinstance(x, ast.Name)} | {x.id for b_ in binds for x in ast.walk(b_) if isinstance(x, ast.Name)}
                    if rname.endswith("__i%s" % rname.rsplit("__i", 1)[-1]) and "__i" in rname and tname not in used:
                        body = [_Rename({rname: tname}, {}).visit(st_) for st_ in body]
                        mode = "discard-name"

            def on_return(ret: ast.Return, mode=mode):
                if mode == "discard-name":
                    return []
                if mode == "assign":
                    new = copy.deepcopy(target_stmt)
                    new.value = ret.value if ret.value is not None else ast.Constant(value=None)
                    return [ast.copy_location(new, ret)]
                if ret.value is not None and any(isinstance(x, (ast.Call, ast.Await)) for x in ast.walk(ret.value)):
                    return [ast.copy_location(ast.Expr(value=ret.value), ret)]
                return []

            if not _contains_return(ast.Module(body=body, type_ignores=[])):
                tail = on_return(ast.copy_location(ast.Return(value=None), target_stmt)) if mode == "assign" else []
                return binds + body + tail
            if mode == "discard-name" and not _always_returns(body):
                raise _NotInlinable("helper may fall off its end")
            try:
                full0 = body + ([ast.copy_location(ast.Return(value=None), target_stmt)] if mode == "assign" and not _always_returns(body) else [])
                new = _nest(full0, on_return)
                return binds + new
            except _NeedFlags:
                done = "done__i%d" % _fresh()
                pre = [ast.copy_location(ast.Assign(targets=[ast.Name(id=done, ctx=ast.Store())], value=ast.Constant(value=False)), target_stmt)]
                full = body + ([ast.copy_location(ast.Return(value=None), target_stmt)] if mode == "assign" and not _always_returns(body) else [])
                new = _flag(full, False, done, on_return, target_stmt)
                return binds + pre + new
        except _NotInlinable:
            return None

    def block(self, stmts: List[ast.stmt]) -> List[ast.stmt]:
        out: List[ast.stmt] = []
        work = list(stmts)
        while work:
            st = work.pop(0)
            rep = self.statement(st) if self.budget > 0 else None
            if rep is not None:
                self.budget -= 1
                self.changed = True
                for s_ in rep:
                    ast.fix_missing_locations(s_)
                work = rep + work  # re-examine (nested helper calls, further calls in the same statement)
                continue
            # recurse into child blocks
            if isinstance(st, FuncNode + (ast.ClassDef,)):
                out.append(st)
                continue
            for fld in ("body", "orelse", "finalbody"):
                b = getattr(st, fld, None)
                if isinstance(b, list) and b and isinstance(b[0], ast.stmt):
                    setattr(st, fld, self.block(b))
            for h in getattr(st, "handlers", []) or []:
                h.body = self.block(h.body)
            out.append(st)
        return out

    def statement(self, st: ast.stmt) -> Optional[List[ast.stmt]]:
        # direct forms
        if isinstance(st, ast.Expr):
            r = self._resolvable(st.value)
            if r:
                return self._expand(r[0], r[1], r[2], "discard", st)
        if isinstance(st, (ast.Assign, ast.AnnAssign)) and st.value is not None:
            r = self._resolvable(st.value)
            if r:
                return self._expand(r[0], r[1], r[2], "assign", st)
        if isinstance(st, ast.Return) and st.value is not None:
            r = self._resolvable(st.value)
            if r:
                return self._expand(r[0], r[1], r[2], "return", st)
        # hoisting
        hdr = None
        if isinstance(st, (ast.Expr, ast.Return)) and st.value is not None:
            hdr = "value"
        elif isinstance(st, (ast.Assign, ast.AnnAssign, ast.AugAssign)) and st.value is not None:
            hdr = "value"
        elif isinstance(st, ast.If):
            hdr = "test"
        elif isinstance(st, ast.While) and not st.orelse:
            hdr = "test"
        if hdr is None:
            return None
        e = getattr(st, hdr)
        first = _first_eval_call(e)
        if first is None or (first is e and hdr == "value"):
            return None
        r = self._resolvable(first)
        if not r:
            return None
        tmp = "t__i%d" % _fresh()
        asg = ast.copy_location(ast.Assign(targets=[ast.Name(id=tmp, ctx=ast.Store())], value=first), st)
        new_e = _replace_node(e, first, ast.copy_location(ast.Name(id=tmp, ctx=ast.Load()), first))
        if isinstance(st, ast.While):
            guard = ast.copy_location(ast.If(test=ast.UnaryOp(op=ast.Not(), operand=new_e), body=[ast.copy_location(ast.Break(), st)], orelse=[]), st)
            loop = ast.copy_location(ast.While(test=ast.Constant(value=True), body=[asg, guard] + st.body, orelse=[]), st)
            return [loop]
        setattr(st, hdr, new_e)
        return [asg, st]


# ---------------------------------------------------------------------------
# N-swap: `a, b = x, y`  ->  `a = x; b = y`      (take-and-clear written as a tuple swap)


def _split_tuple_assign(st: ast.stmt) -> Optional[List[ast.stmt]]:
    if not (isinstance(st, ast.Assign) and len(st.targets) == 1 and isinstance(st.targets[0], ast.Tuple) and isinstance(st.value, ast.Tuple)):
        return None
    ts, vs = st.targets[0].elts, st.value.elts
    if len(ts) != len(vs) or any(isinstance(x, ast.Starred) for x in ts + vs) or len(ts) < 2:
        return None
    for i, t in enumerate(ts):
        td = q.dotted(t)
        if td is None:
            return None
        for v in vs[i + 1:]:
            for x in ast.walk(v):
                d = q.dotted(x) if isinstance(x, (ast.Name, ast.Attribute)) else None
                if d and (d == td or d.startswith(td + ".") or td.startswith(d + ".")):
                    return None
            if any(isinstance(x, (ast.Call, ast.Await)) for x in ast.walk(v)):
                return None
    # right-hand sides are all evaluated first: sequential assignment is equivalent when no later value
    # reads an earlier target (checked above) and values have no calls
    if any(isinstance(x, (ast.Call, ast.Await)) for v in vs for x in ast.walk(v)):
        return None
    return [ast.copy_location(ast.Assign(targets=[t], value=v), st) for t, v in zip(ts, vs)]


def _pass_plain_locals(fn) -> bool:
    """`x: T = v` for a local name is `x = v` (annotations of locals are not evaluated)"""
    changed = False
    for node in ast.walk(fn):
        for fld in ("body", "orelse", "finalbody"):
            b = getattr(node, fld, None)
            if not (isinstance(b, list) and b and isinstance(b[0], ast.stmt)):
                continue
            for i, st in enumerate(b):
                if isinstance(st, ast.AnnAssign) and isinstance(st.target, ast.Name) and st.value is not None:
                    b[i] = ast.copy_location(ast.Assign(targets=[st.target], value=st.value), st)
                    changed = True
    return changed


def _pass_tail_returns(fn) -> bool:
    """Single exit with a result variable -> early returns.  ``v = <const>`` at the top level, ``return v`` as the
    last statement, ``v`` read nowhere else, and every other binding of ``v`` a plain ``v = E`` that is the last
    thing executed before the final return (tail position of the if/elif chain that precedes it): each such
    ``v = E`` is ``return E`` and the final return yields the initial constant.  Anything else is left alone."""
    if not fn.body or not (isinstance(fn.body[-1], ast.Return) and isinstance(fn.body[-1].value, ast.Name)) or len(fn.body) < 3:
        return False
    v = fn.body[-1].value.id
    a = fn.args
    if v in {x.arg for x in a.posonlyargs + a.args + a.kwonlyargs} or (a.vararg and a.vararg.arg == v) or (a.kwarg and a.kwarg.arg == v):
        return False
    loads = stores = 0
    for n in ast.walk(fn):
        if isinstance(n, ast.Name) and n.id == v:
            if isinstance(n.ctx, ast.Load):
                loads += 1
            else:
                stores += 1
        elif isinstance(n, ast.ExceptHandler) and n.name == v:
            return False
        elif isinstance(n, (ast.Global, ast.Nonlocal)) and v in n.names:
            return False
        elif isinstance(n, ast.arg) and n.arg == v:
            return False
    if loads != 1:
        return False

    def is_store(st) -> bool:
        return isinstance(st, ast.Assign) and len(st.targets) == 1 and isinstance(st.targets[0], ast.Name) and st.targets[0].id == v

    inits = [i for i, st in enumerate(fn.body[:-1]) if is_store(st)]
    if len(inits) != 1 or not isinstance(fn.body[inits[0]].value, ast.Constant) or inits[0] == len(fn.body) - 2:
        return False
    init = fn.body[inits[0]]
    tails: List[Tuple[list, int]] = []

    def tail(block) -> None:
        if not block:
            return
        last = block[-1]
        if is_store(last):
            tails.append((block, len(block) - 1))
        elif isinstance(last, ast.If):
            tail(last.body)
            tail(last.orelse)

    tail(fn.body[:-1])
    if not tails or stores != 1 + len(tails):
        return False  # some binding of v is not in tail position (or is not a plain assignment)
    if any(isinstance(x, ast.Name) and x.id == v for blk, i in tails for x in ast.walk(blk[i].value)):
        return False
    for blk, i in tails:
        blk[i] = ast.copy_location(ast.Return(value=blk[i].value), blk[i])
    fn.body[-1] = ast.copy_location(ast.Return(value=copy.deepcopy(init.value)), fn.body[-1])
    return True


def _pass_join_index(fn) -> bool:
    """`t = f(..); a = t[0]; b = t[1]` (adjacent, in order, ``t`` used nowhere else) is `a, b = f(..)`; likewise for `t = q[i]`"""
    changed = False
    uses: Dict[str, int] = {}
    for n in ast.walk(fn):
        if isinstance(n, ast.Name):
            uses[n.id] = uses.get(n.id, 0) + 1
    for node in ast.walk(fn):
        for fld in ("body", "orelse", "finalbody"):
            b = getattr(node, fld, None)
            if not (isinstance(b, list) and b and isinstance(b[0], ast.stmt)):
                continue
            i = 0
            while i < len(b):
                st = b[i]
                i += 1
                if not (isinstance(st, ast.Assign) and len(st.targets) == 1 and isinstance(st.targets[0], ast.Name) and isinstance(st.value, (ast.Call, ast.Subscript))):
                    continue
                t = st.targets[0].id
                names: List[str] = []
                j = i
                while j < len(b):
                    s2 = b[j]
                    if not (isinstance(s2, ast.Assign) and len(s2.targets) == 1 and isinstance(s2.targets[0], ast.Name)
                            and isinstance(s2.value, ast.Subscript) and isinstance(s2.value.value, ast.Name) and s2.value.value.id == t
                            and isinstance(s2.value.slice, ast.Constant) and s2.value.slice.value == len(names) and type(s2.value.slice.value) is int):
                        break
                    names.append(s2.targets[0].id)
                    j += 1
                if len(names) < 2 or len(set(names)) != len(names) or t in names or uses.get(t, 0) != 1 + len(names):
                    continue
                tgt = ast.Tuple(elts=[ast.Name(id=x, ctx=ast.Store()) for x in names], ctx=ast.Store())
                new = ast.copy_location(ast.Assign(targets=[tgt], value=st.value), st)
                ast.fix_missing_locations(new)
                b[i - 1:j] = [new]
                changed = True
    return changed


def _pass_walrus(fn) -> bool:
    """`if (x := E) <rest>:` -> `x = E; if x <rest>:` (also for the value of a simple statement) when the
    assignment expression is evaluated unconditionally and first in that header; `while (x := E) ..:` becomes
    `while True: x = E; if not (x ..): break` (no else clause)."""
    changed = False
    for node in ast.walk(fn):
        for fld in ("body", "orelse", "finalbody"):
            b = getattr(node, fld, None)
            if not (isinstance(b, list) and b and isinstance(b[0], ast.stmt)):
                continue
            i = 0
            while i < len(b):
                st = b[i]
                hdr = None
                if isinstance(st, ast.If):
                    hdr = "test"
                elif isinstance(st, ast.While) and not st.orelse:
                    hdr = "test"
                elif isinstance(st, (ast.Expr, ast.Return, ast.Assign, ast.AugAssign, ast.AnnAssign)) and getattr(st, "value", None) is not None:
                    hdr = "value"
                if hdr is None:
                    i += 1
                    continue
                e = getattr(st, hdr)
                w = _first_walrus(e)
                if w is None:
                    i += 1
                    continue
                asg = ast.copy_location(ast.Assign(targets=[ast.Name(id=w.target.id, ctx=ast.Store())], value=w.value), st)
                new_e = _replace_node(e, w, ast.copy_location(ast.Name(id=w.target.id, ctx=ast.Load()), w))
                if isinstance(st, ast.While):
                    guard = ast.copy_location(ast.If(test=ast.UnaryOp(op=ast.Not(), operand=new_e), body=[ast.copy_location(ast.Break(), st)], orelse=[]), st)
                    b[i] = ast.copy_location(ast.While(test=ast.Constant(value=True), body=[asg, guard] + st.body, orelse=[]), st)
                else:
                    setattr(st, hdr, new_e)
                    b.insert(i, asg)
                changed = True
                # re-examine the same statement (several walruses)
            # end while
    if changed:
        ast.fix_missing_locations(fn)
    return changed


def _first_walrus(e: ast.AST):
    """the NamedExpr evaluated first and unconditionally in ``e`` (nothing effectful before it), else None"""
    def visit(x):
        if isinstance(x, ast.NamedExpr):
            if isinstance(x.target, ast.Name) and not any(isinstance(y, ast.NamedExpr) for y in ast.walk(x.value)):
                return "found", x
            return "stop", None
        if isinstance(x, (ast.Constant, ast.Name)):
            return "pure", None
        if isinstance(x, ast.Attribute):
            return visit(x.value)
        if isinstance(x, ast.UnaryOp):
            return visit(x.operand)
        if isinstance(x, ast.Compare):
            for y in [x.left] + list(x.comparators):
                r = visit(y)
                if r[0] != "pure":
                    return r
            return "pure", None
        if isinstance(x, ast.BoolOp):
            r = visit(x.values[0])
            return r if r[0] != "pure" else ("stop", None)
        if isinstance(x, ast.BinOp):
            r = visit(x.left)
            return r if r[0] != "pure" else visit(x.right)
        if isinstance(x, ast.Call):
            r = visit(x.func) if isinstance(x.func, ast.Attribute) else ("pure", None)
            if r[0] != "pure":
                return r
            for y in list(x.args) + [k.value for k in x.keywords]:
                r = visit(y)
                if r[0] != "pure":
                    return r
            return "stop", None  # an effectful call before any walrus
        if isinstance(x, (ast.Tuple, ast.List)):
            for y in x.elts:
                r = visit(y)
                if r[0] != "pure":
                    return r
            return "pure", None
        return "stop", None

    r = visit(e)
    return r[1] if r[0] == "found" else None


def _pass_adjacent_temp(fn) -> bool:
    """explaining local used once, in the very next statement: `e = E(); f(e)` -> `f(E())`.
    Only when the local is stored once and loaded once in the whole function, the use sits in the header of a
    simple statement / an `if` test / a `return`, and nothing effectful of that statement is evaluated before it."""
    params = {a.arg for a in fn.args.posonlyargs + fn.args.args + fn.args.kwonlyargs}
    if fn.args.vararg:
        params.add(fn.args.vararg.arg)
    if fn.args.kwarg:
        params.add(fn.args.kwarg.arg)
    stores: Dict[str, int] = {}
    loads: Dict[str, int] = {}
    for n in ast.walk(fn):
        if isinstance(n, ast.Name):
            if isinstance(n.ctx, ast.Load):
                loads[n.id] = loads.get(n.id, 0) + 1
            else:
                stores[n.id] = stores.get(n.id, 0) + 1
        elif isinstance(n, ast.ExceptHandler) and n.name:
            stores[n.name] = stores.get(n.name, 0) + 1
    changed = False
    for node in ast.walk(fn):
        for fld in ("body", "orelse", "finalbody"):
            b = getattr(node, fld, None)
            if not (isinstance(b, list) and len(b) >= 2 and isinstance(b[0], ast.stmt)):
                continue
            i = 0
            while i < len(b) - 1:
                st, nxt = b[i], b[i + 1]
                i += 1
                if not (isinstance(st, ast.Assign) and len(st.targets) == 1 and isinstance(st.targets[0], ast.Name)):
                    continue
                name = st.targets[0].id
                if name in params or stores.get(name) != 1 or loads.get(name) != 1:
                    continue
                v = st.value
                if any(isinstance(x, (ast.Await, ast.Yield, ast.YieldFrom, ast.NamedExpr, ast.Lambda, ast.ListComp, ast.GeneratorExp, ast.SetComp, ast.DictComp)) for x in ast.walk(v)):
                    continue
                if isinstance(nxt, (ast.Expr, ast.Return, ast.Raise)):
                    hdr = "value" if not isinstance(nxt, ast.Raise) else "exc"
                elif isinstance(nxt, (ast.Assign, ast.AugAssign, ast.AnnAssign)):
                    hdr = "value"
                elif isinstance(nxt, ast.If):
                    hdr = "test"
                else:
                    continue
                e = getattr(nxt, hdr, None)
                if e is None:
                    continue
                uses = [x for x in ast.walk(e) if isinstance(x, ast.Name) and x.id == name and isinstance(x.ctx, ast.Load)]
                if len(uses) != 1:
                    continue
                # not under a lambda / comprehension / short-circuit operand / conditional expression branch
                pm = {c: p_ for p_ in ast.walk(e) for c in ast.iter_child_nodes(p_)}
                x = uses[0]
                okpos = True
                while x in pm:
                    par = pm[x]
                    if isinstance(par, (ast.Lambda, ast.ListComp, ast.GeneratorExp, ast.SetComp, ast.DictComp)):
                        okpos = False
                    if isinstance(par, ast.BoolOp) and par.values[0] is not x:
                        okpos = False
                    if isinstance(par, ast.IfExp) and par.test is not x:
                        okpos = False
                    x = par
                if not okpos:
                    continue
                new_e = _replace_node(copy.deepcopy(e) if False else e, uses[0], copy.deepcopy(v))
                has_call = any(isinstance(y, ast.Call) for y in ast.walk(v))
                if has_call:
                    first = _first_eval_call(new_e)
                    inside = first is not None and any(first is y for y in ast.walk(new_e) if True) and _within(first, new_e, v)
                    if not inside:
                        # restore and skip
                        setattr(nxt, hdr, _replace_by_structure(new_e, v, uses[0]))
                        continue
                setattr(nxt, hdr, new_e)
                del b[i - 1]
                i -= 1
                stores[name] = 0
                loads[name] = 0
                changed = True
    return changed


def _within(node: ast.AST, root: ast.AST, value_template: ast.AST) -> bool:
    """``node`` lies inside the (copied) value expression that was substituted into ``root``: compared by structure"""
    dump_v = ast.dump(value_template)
    for y in ast.walk(root):
        if ast.dump(y) == dump_v and any(node is z for z in ast.walk(y)):
            return True
    return False


def _replace_by_structure(root: ast.AST, value_template: ast.AST, name_node: ast.Name) -> ast.AST:
    dump_v = ast.dump(value_template)

    class T(ast.NodeTransformer):
        done = False

        def visit(self, node):
            if not T.done and ast.dump(node) == dump_v:
                T.done = True
                return name_node
            return super().visit(node)

    return T().visit(root)


def _pass_positional(fn, mod: "_Module", cls: Optional[ast.ClassDef]) -> bool:
    """`self.m(b=y, a=x)` / `f(a=x)` for a function defined in the same class / module becomes the positional
    call `self.m(x, y)` (argument values are evaluated in the same order only when that order is unchanged; values
    here are required to be side-effect free: names, attributes, constants)."""
    changed = False
    for c in [n for n in ast.walk(fn) if isinstance(n, ast.Call) and n.keywords]:
        if any(k.arg is None for k in c.keywords) or any(isinstance(a, ast.Starred) for a in c.args):
            continue
        h = None
        drop = False
        f = c.func
        if isinstance(f, ast.Attribute) and isinstance(f.value, ast.Name) and f.value.id in ("self", "cls") and cls is not None:
            h = mod.method(cls, f.attr)
            drop = h is not None and not any(q.dotted(d) == "staticmethod" for d in h.decorator_list)
        elif isinstance(f, ast.Name):
            h = mod.funcs.get(f.id)
        if h is None or h.args.vararg or h.args.kwarg or h.args.kwonlyargs:
            continue
        params = [a.arg for a in h.args.posonlyargs + h.args.args]
        if drop:
            params = params[1:]
        if len(c.args) > len(params):
            continue
        kw = {k.arg: k.value for k in c.keywords}
        if not all(k in params[len(c.args):] for k in kw):
            continue
        if not all(isinstance(v, (ast.Name, ast.Attribute, ast.Constant)) for v in kw.values()):
            continue
        new_args = list(c.args)
        ok = True
        for prm in params[len(c.args):]:
            if prm in kw:
                new_args.append(kw.pop(prm))
            else:
                break
        if kw:
            continue  # a gap (a defaulted parameter in between): leave the call alone
        c.args = new_args
        c.keywords = []
        changed = True
    return changed


def _pass_split_swaps(fn) -> bool:
    changed = False
    for node in ast.walk(fn):
        for fld in ("body", "orelse", "finalbody"):
            b = getattr(node, fld, None)
            if not (isinstance(b, list) and b and isinstance(b[0], ast.stmt)):
                continue
            i = 0
            while i < len(b):
                rep = _split_tuple_assign(b[i])
                if rep is not None:
                    b[i:i + 1] = rep
                    i += len(rep)
                    changed = True
                else:
                    i += 1
    return changed


# ---------------------------------------------------------------------------
# N-alias: a local bound once to an attribute path of self that is not re-bound while the local is in use
# is replaced by the path ("values threaded through locals instead of re-reading attributes")


def _method_writes(cls: Optional[ast.ClassDef], name: str, seen: Optional[Set[str]] = None) -> Optional[Set[str]]:
    """self attributes a method of ``cls`` may (re)bind, transitively through self calls; None if unknown"""
    if cls is None:
        return None
    seen = seen if seen is not None else set()
    if name in seen:
        return set()
    seen.add(name)
    m = next((x for x in cls.body if isinstance(x, FuncNode) and x.name == name), None)
    if m is None:
        return None
    out: Set[str] = set()
    for n in _own_walk(m):
        if isinstance(n, (ast.Assign, ast.AugAssign, ast.AnnAssign, ast.Delete)):
            out |= {p for p in q.assigned_paths(n) if p.startswith("self.") and not p.endswith("[]")}
        elif isinstance(n, ast.Call) and isinstance(n.func, ast.Attribute) and q.dotted(n.func.value) == "self":
            w = _method_writes(cls, n.func.attr, seen)
            if w is None:
                if n.func.attr not in ("closed", "reading", "writing", "fileno"):
                    return None
            else:
                out |= w
    return out


def _pass_alias(fn, cls: Optional[ast.ClassDef]) -> bool:
    from .cfg import build

    params = {a.arg for a in fn.args.posonlyargs + fn.args.args + fn.args.kwonlyargs}
    stores: Dict[str, List[ast.stmt]] = {}
    for n in _own_walk(fn):
        if isinstance(n, (ast.Assign, ast.AnnAssign, ast.AugAssign, ast.For, ast.AsyncFor, ast.With, ast.AsyncWith, ast.Delete, ast.NamedExpr)):
            for p in q.assigned_paths(n):
                if "." not in p and "[" not in p:
                    stores.setdefault(p, []).append(n)
        elif isinstance(n, ast.ExceptHandler) and n.name:
            stores.setdefault(n.name, []).append(n)
    cands = []
    for name, sts in stores.items():
        if name in params or len(sts) != 1:
            continue
        st = sts[0]
        if not (isinstance(st, ast.Assign) and len(st.targets) == 1 and isinstance(st.targets[0], ast.Name)):
            continue
        d = q.dotted(st.value) if isinstance(st.value, ast.Attribute) else None
        if not d or not d.startswith("self.") or d.count(".") > 2:
            continue
        # used inside a nested scope (lambda / def)? keep
        nested_use = False
        for n in ast.walk(fn):
            if isinstance(n, (ast.Lambda,) + FuncNode) and n is not fn:
                if any(isinstance(x, ast.Name) and x.id == name for x in ast.walk(n)):
                    nested_use = True
        if nested_use:
            continue
        cands.append((name, st, d))
    if not cands:
        return False
    try:
        cfg = build(fn)
    except Exception:
        return False
    changed = False
    for name, st, d in cands:
        defs = [n for n in cfg.stmt_nodes() if n.kind == "stmt" and n.ast is st]
        if len(defs) != 1:
            continue
        dn = defs[0]
        # nodes reachable after the definition
        reach: Set[int] = set()
        work = [dn.id]
        while work:
            x = work.pop()
            for y, _k in cfg.succ[x]:
                if y not in reach:
                    reach.add(y)
                    work.append(y)
        if dn.id in reach:
            continue  # definition inside a loop
        uses = []
        for n in cfg.stmt_nodes():
            if n.ast is None:
                continue
            roots = [n.ast] if n.kind in ("stmt", "test") else ([n.ast.iter] if n.kind == "for" else [it.context_expr for it in n.ast.items] if n.kind == "with" else [])
            if any(isinstance(x, ast.Name) and x.id == name and isinstance(x.ctx, ast.Load) for r in roots for x in q.walk_local(r)):
                uses.append(n)
        if not uses or any(u.id not in reach for u in uses):
            continue
        # a node that may re-bind the path (or a prefix): direct store, self call writing it, suspension
        attr2 = ".".join(d.split(".")[:2])

        def clobbers(n) -> bool:
            if n.ast is None or n.kind not in ("stmt", "test", "for", "with"):
                return False
            if n.suspends:
                return True
            if isinstance(n.ast, ast.stmt) and n.kind == "stmt":
                for p in q.assigned_paths(n.ast):
                    p0 = p[:-2] if p.endswith("[]") else p
                    if not p.endswith("[]") and (p0 == d or d.startswith(p0 + ".")):
                        return True
            roots = [n.ast] if n.kind in ("stmt", "test") else []
            for r in roots:
                for x in q.walk_local(r):
                    if isinstance(x, ast.Call) and isinstance(x.func, ast.Attribute) and q.dotted(x.func.value) == "self":
                        w = _method_writes(cls, x.func.attr)
                        if w is None or any(p == attr2 or p == d or d.startswith(p + ".") for p in w):
                            return True
            return False

        bad_nodes = {n.id for n in cfg.nodes if n.id in reach and clobbers(n)}
        # no use may be reachable from a clobbering node (the clobbering node itself may not use the alias either)
        after_bad: Set[int] = set(bad_nodes)
        work = list(bad_nodes)
        while work:
            x = work.pop()
            for y, _k in cfg.succ[x]:
                if y not in after_bad:
                    after_bad.add(y)
                    work.append(y)
        if any(u.id in after_bad for u in uses):
            continue
        # substitute
        path_expr = st.value

        class T(ast.NodeTransformer):
            def visit_Name(self, node):
                if node.id == name and isinstance(node.ctx, ast.Load):
                    return ast.copy_location(copy.deepcopy(path_expr), node)
                return node

            def visit_Lambda(self, node):
                return node

        for fld in ("body",):
            fn.body = [T().visit(s_) if s_ is not st else s_ for s_ in fn.body]
        # remove the definition
        for node in ast.walk(fn):
            for fld in ("body", "orelse", "finalbody"):
                b = getattr(node, fld, None)
                if isinstance(b, list) and st in b:
                    if len(b) == 1:
                        b[b.index(st)] = ast.copy_location(ast.Pass(), st)
                    else:
                        b.remove(st)
        changed = True
    return changed


def inline_tree(tree: ast.Module, keep: Iterable[str], tail_returns: bool = False, join_index: bool = False) -> ast.Module:
    tree = copy.deepcopy(tree)
    mod = _Module(tree, set(keep))
    units: List[Tuple[Optional[ast.ClassDef], ast.AST]] = []
    for n in tree.body:
        if isinstance(n, FuncNode):
            units.append((None, n))
        elif isinstance(n, ast.ClassDef):
            for m in n.body:
                if isinstance(m, FuncNode):
                    units.append((n, m))
    for cls, fn in units:
        try:
            _pass_walrus(fn)  # `if (x := self._h()) ..` must become a plain assignment before helpers are inlined
            if tail_returns:
                _pass_tail_returns(fn)  # before inlining: the lowering of a helper's returns then sees early returns
        except RecursionError:
            pass
    for cls, fn in units:
        # helpers that will themselves be inlined elsewhere are still processed (nested splitting)
        inl = _Inliner(mod, cls, fn)
        fn.body = inl.block(fn.body)
        # nested functions of fn
        for sub in [x for x in ast.walk(fn) if isinstance(x, FuncNode) and x is not fn]:
            si = _Inliner(mod, cls, sub, budget=8)
            sub.body = si.block(sub.body)
    for cls, fn in units:
        try:
            _pass_walrus(fn)
            _pass_plain_locals(fn)
            if join_index:
                _pass_join_index(fn)
            _pass_positional(fn, mod, cls)
            _pass_split_swaps(fn)
            _pass_alias(fn, cls)
            _pass_adjacent_temp(fn)
        except RecursionError:
            pass
    # a helper whose every call was inlined is no longer part of the program the rules look at
    def refs(name: str, skip) -> int:
        k = 0
        for n in ast.walk(tree):
            if n is skip:
                continue
            if (isinstance(n, ast.Attribute) and n.attr == name) or (isinstance(n, ast.Name) and n.id == name) or (isinstance(n, ast.Constant) and n.value == name):
                k += 1
        return k

    changed = True
    rounds = 0
    while changed and rounds < 4:
        changed = False
        rounds += 1
        for owner in [tree] + [c for c in tree.body if isinstance(c, ast.ClassDef)]:
            for h in list(owner.body):
                if isinstance(h, FuncNode) and _is_private(h.name) and h.name not in mod.keep and _callee_ok(h):
                    inner = sum(1 for n in ast.walk(h) if (isinstance(n, ast.Attribute) and n.attr == h.name) or (isinstance(n, ast.Name) and n.id == h.name))
                    if refs(h.name, None) - inner == 0 and h.name in mod.inlined:
                        owner.body.remove(h)
                        changed = True
    ast.fix_missing_locations(tree)
    compile(tree, "<inlined>", "exec")
    return tree


_CACHE: Dict[Tuple[str, str, Tuple[str, ...]], ast.Module] = {}


def inline_repo(repo: Repo, relpaths: Iterable[str], keep: Iterable[str], tail_returns: bool = False, join_index: bool = False) -> Repo:
    """Copy of ``repo`` whose listed modules have their private helpers inlined
    (cached by source digest).  A module that cannot be rewritten is left as it is."""
    keep_t = tuple(sorted(set(keep)))
    r = repo
    for rel in relpaths:
        if not rel.startswith("tornado/"):
            rel = "tornado/" + rel
        if rel not in repo.modules:
            continue
        m = repo.modules[rel]
        key = (rel, m.digest, keep_t, tail_returns, join_index)
        if key not in _CACHE:
            if len(_CACHE) > 64:
                _CACHE.clear()
            try:
                _CACHE[key] = inline_tree(m.tree, keep_t, tail_returns, join_index)
            except Exception:
                _CACHE[key] = m.tree
        if _CACHE[key] is not m.tree:
            r = r.with_module(rel, tree=copy.deepcopy(_CACHE[key]))
    return r


def module_private_names(repo: Repo, relpath: str) -> Set[str]:
    if not relpath.startswith("tornado/"):
        relpath = "tornado/" + relpath
    out: Set[str] = set()
    if relpath in repo.modules:
        for qn in repo.modules[relpath].funcs:
            nm = qn.split(".")[-1]
            if _is_private(nm):
                out.add(nm)
    return out
