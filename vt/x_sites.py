"""x_sites — call-site lookup that sees through local aliases.

``method_calls(fi, "write_headers", "self.request.connection")`` finds
``self.request.connection.write_headers(..)`` as well as ``conn.write_headers(..)``
after ``conn = self.request.connection`` (unique local definitions are
expanded with :func:`vt.x_flow.expand_locals`)."""
from __future__ import annotations

import ast
from typing import List, Optional, Tuple

from . import q
from .cfg import Node
from .model import FuncInfo
from .x_flow import expand_locals, resolve_local


def receiver_path(fi: FuncInfo, call: ast.Call) -> Optional[str]:
    if not isinstance(call.func, ast.Attribute):
        return None
    return q.dotted(expand_locals(fi, call.func.value))


def method_calls(fi: FuncInfo, attr: str, receiver: str) -> List[Tuple[Node, ast.Call]]:
    return [(n, c) for n, c in fi.cfg.find(lambda x: isinstance(x, ast.Call) and isinstance(x.func, ast.Attribute) and x.func.attr == attr) if receiver_path(fi, c) == receiver]


def resolved(fi: FuncInfo, e: Optional[ast.AST]) -> Optional[ast.AST]:
    """``e`` with unique-definition locals replaced by their definitions (None stays None)."""
    return None if e is None else expand_locals(fi, e)
