"""Emitted-code events of a code generator (``writer.write_line(<format>, ...)`` calls).

The first argument of an emission call is folded to a *template string* in which every interpolated
expression is replaced by a placeholder, so that rules can reason about the *generated* program
(parse the emitted line as Python, compare names across emissions) and about the order of emissions
on the generator's CFG.  Purely syntactic; nothing is executed.
"""
from __future__ import annotations

import ast
import re
from typing import List, Optional, Tuple

from . import q
from .model import AnalysisError

PH = "\x00"  # placeholder for an interpolated expression

_PCT = re.compile(r"%(?:\((\w+)\))?[-#0 +]*\d*(?:\.\d+)?([sdrifgxXoeEc%])")


class Emission:
    def __init__(self, call: ast.Call, template: str, exprs: List[ast.AST], convs: List[str]):
        self.call = call
        self.template = template  # literal text with PH per interpolated expression
        self.exprs = exprs
        self.convs = convs  # conversion per expression: 's', 'r', 'd', ...

    @property
    def head(self) -> str:
        return self.template.split(PH)[0]

    def python(self, names: Optional[List[str]] = None) -> ast.AST:
        """The emitted line parsed as Python, placeholders replaced by ``__e0__``, ``__e1__``...; a
        trailing ':' header gets a ``pass`` body."""
        src = self.template
        i = 0
        while PH in src:
            src = src.replace(PH, (names[i] if names else "__e%d__" % i), 1)
            i += 1
        src = src.strip()
        if src.endswith(":"):
            src += " pass"
        try:
            body = ast.parse(src).body
            return body[0] if body else ast.Pass()  # blank / comment-only line
        except SyntaxError as e:
            raise AnalysisError("emitted line %r is not a Python statement: %s" % (self.template, e))

    def __repr__(self):
        return "<emit %r>" % self.template.replace(PH, "{}")


def fold_format(e: ast.AST) -> Optional[Tuple[str, List[ast.AST], List[str]]]:
    """(template, interpolated expressions, conversions) for a string-building expression."""
    if isinstance(e, ast.Constant) and isinstance(e.value, str):
        return e.value, [], []
    if isinstance(e, ast.JoinedStr):
        t, xs, cs = "", [], []
        for v in e.values:
            if isinstance(v, ast.Constant):
                t += str(v.value)
            else:
                t += PH
                xs.append(v.value)
                cs.append({-1: "s", 115: "s", 114: "r", 97: "a"}.get(v.conversion, "s"))
        return t, xs, cs
    if isinstance(e, ast.BinOp) and isinstance(e.op, ast.Mod) and isinstance(e.left, ast.Constant) and isinstance(e.left.value, str):
        args = list(e.right.elts) if isinstance(e.right, ast.Tuple) else [e.right]
        t, xs, cs = "", [], []
        pos = 0
        k = 0
        s = e.left.value
        for m in _PCT.finditer(s):
            t += s[pos:m.start()]
            pos = m.end()
            if m.group(2) == "%":
                t += "%"
                continue
            if m.group(1):
                return None
            if k >= len(args):
                return None
            t += PH
            xs.append(args[k])
            cs.append(m.group(2))
            k += 1
        t += s[pos:]
        if k != len(args):
            return None
        return t, xs, cs
    if isinstance(e, ast.BinOp) and isinstance(e.op, ast.Add):
        a, b = fold_format(e.left), fold_format(e.right)
        if a is None or b is None:
            return None
        return a[0] + b[0], a[1] + b[1], a[2] + b[2]
    if isinstance(e, ast.Call) and isinstance(e.func, ast.Attribute) and e.func.attr == "format" and isinstance(e.func.value, ast.Constant) and isinstance(e.func.value.value, str) and not e.keywords:
        s = e.func.value.value
        parts = re.split(r"\{(!r|!s)?\}", s)
        if (len(parts) - 1) // 2 != len(e.args) or "{" in "".join(parts[0::2]).replace("{{", "").replace("}}", ""):
            return None
        t = ""
        cs = []
        for i in range(0, len(parts), 2):
            t += parts[i].replace("{{", "{").replace("}}", "}")
            if i + 1 < len(parts):
                t += PH
                cs.append("r" if parts[i + 1] == "!r" else "s")
        return t, list(e.args), cs
    if isinstance(e, ast.Call) and isinstance(e.func, ast.Attribute) and e.func.attr == "join" and isinstance(e.func.value, ast.Constant) and e.func.value.value == "" and len(e.args) == 1 and isinstance(e.args[0], (ast.List, ast.Tuple)):
        t, xs, cs = "", [], []
        for part in e.args[0].elts:
            ff = fold_format(part)
            if ff is None:
                return None
            t, xs, cs = t + ff[0], xs + ff[1], cs + ff[2]
        return t, xs, cs
    if isinstance(e, (ast.Name, ast.Attribute, ast.Call, ast.Subscript)):
        return PH, [e], ["s"]
    return None


def emissions(fn: ast.AST, method: str = "write_line", receiver: Optional[str] = None) -> List[Emission]:
    """All ``<receiver>.<method>(fmt, ...)`` calls in the function's own scope, in source order."""
    out = []
    for n in q.walk_body(fn):
        if isinstance(n, ast.Call) and isinstance(n.func, ast.Attribute) and n.func.attr == method and (receiver is None or q.dotted(n.func.value) == receiver):
            if not n.args:
                raise AnalysisError("emission call without a line argument: %s" % q.unparse(n))
            ff = fold_format(n.args[0])
            if ff is None:
                raise AnalysisError("emitted line is not a foldable format expression: %s" % q.unparse(n.args[0])[:100])
            out.append(Emission(n, ff[0], ff[1], ff[2]))
    return out


def _emission_from_expr(node: ast.AST) -> Emission:
    ff = fold_format(node)
    if ff is None:
        raise AnalysisError("emitted line is not a foldable format expression: %s" % q.unparse(node)[:100])
    return Emission(node, ff[0], ff[1], ff[2])


def emission_program(repo, fi, writer: str, method: str = "write_line"):
    """Where the lines a generator emits are *built*.

    Usually ``fi`` calls ``writer.write_line(<format>)`` itself: returns (fi, emissions, {}).  After function
    splitting the generator may read ``for line in self._lines(args): writer.write_line(line, ...)``: then the
    lines are the elements of the list ``_lines`` returns -- its list display (in order) and later
    ``.append(..)`` calls -- and the result is (helper FuncInfo, those emissions, {helper parameter: argument
    expression of the call}).  The ``call`` of each Emission is an AST node inside the returned function, so
    ``cfg.nodes_for(e.call)`` locates the event on that function's CFG.  Anything else -> AnalysisError."""
    direct = emissions(fi.node, method, writer)
    names = [e for e in direct if e.template == PH and isinstance(e.exprs[0], ast.Name)]
    if not names:
        return fi, direct, {}
    if len(direct) != 1:
        raise AnalysisError("%s: mixes literal emissions with lines taken from a variable" % fi.qualname)
    var = names[0].exprs[0].id
    loops = [n for n in q.walk_body(fi.node) if isinstance(n, (ast.For,)) and isinstance(n.target, ast.Name) and n.target.id == var]
    if len(loops) != 1 or not isinstance(loops[0].iter, (ast.Call, ast.Name)):
        raise AnalysisError("%s: emitted variable %s is not the target of a loop over a helper call" % (fi.qualname, var))
    lp = loops[0]
    if any(isinstance(x, (ast.If, ast.Continue, ast.Break)) for x in ast.walk(lp)) or not any(names[0].call is x for x in ast.walk(lp)):
        raise AnalysisError("%s: the emitting loop is conditional" % fi.qualname)
    if isinstance(lp.iter, ast.Name):
        # the lines are collected in a local list of the generator itself and written out by a final loop
        return fi, _list_events(fi, lp.iter.id), {}
    call = lp.iter
    h = None
    m = fi.module
    if isinstance(call.func, ast.Attribute) and q.dotted(call.func.value) == "self" and fi.cls is not None:
        h = m.funcs.get("%s.%s" % (fi.qualname.split(".")[0], call.func.attr))
    elif isinstance(call.func, ast.Name):
        h = m.funcs.get(call.func.id)
    if h is None:
        raise AnalysisError("%s: helper producing the emitted lines not found: %s" % (fi.qualname, q.unparse(call.func)))
    hp = [p_ for p_ in h.params() if p_ != "self"]
    binding = {hp[i]: a for i, a in enumerate(call.args) if i < len(hp)}
    binding.update({k.arg: k.value for k in call.keywords if k.arg})
    rets = [r for r in q.walk_body(h.node) if isinstance(r, ast.Return)]
    lst = {q.dotted(r.value) for r in rets if r.value is not None}
    if len(lst) != 1 or None in lst or not rets:
        raise AnalysisError("%s: does not return one list variable" % h.qualname)
    L = lst.pop()
    return h, _list_events(h, L), binding



def _list_events(h, L: str):
    """Emissions denoted by the elements put into list ``L`` of function ``h``: its list display, then append /
    extend / += of displays, in source order."""
    out = []
    n_def = 0
    for st in q.walk_body(h.node):
        if isinstance(st, (ast.Assign, ast.AnnAssign)) and L in q.assigned_paths(st):
            n_def += 1
            if not isinstance(st.value, ast.List):
                raise AnalysisError("%s: %s is not built from a list display" % (h.qualname, L))
            out += [_emission_from_expr(el) for el in st.value.elts]
        elif isinstance(st, ast.AugAssign) and L in q.assigned_paths(st):
            if not (isinstance(st.op, ast.Add) and isinstance(st.value, ast.List)):
                raise AnalysisError("%s: update of %s not understood" % (h.qualname, L))
            out += [_emission_from_expr(el) for el in st.value.elts]
        elif isinstance(st, ast.Call) and isinstance(st.func, ast.Attribute) and q.dotted(st.func.value) == L:
            if st.func.attr == "append" and len(st.args) == 1:
                out.append(_emission_from_expr(st.args[0]))
            elif st.func.attr == "extend" and len(st.args) == 1 and isinstance(st.args[0], ast.List):
                out += [_emission_from_expr(el) for el in st.args[0].elts]
            else:
                raise AnalysisError("%s: operation %s on the line list is not understood" % (h.qualname, st.func.attr))
    if n_def != 1:
        raise AnalysisError("%s: the line list %s is bound %d times" % (h.qualname, L, n_def))
    return out
