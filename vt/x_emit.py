"""Emitted-code events of a code generator (``writer.write_line(<format>, ...)`` calls).

The first argument of an emission call is folded to a *template string* in which every interpolated
expression is replaced by a placeholder, so that rules can reason about the *generated* program
(parse the emitted line as Python, compare names across emissions) and about the order of emissions
on the generator's CFG.  Purely syntactic; nothing is executed.
"""
from __future__ import annotations

import ast
import re
from typing import List, Optional, Tuple

from . import q
from .model import AnalysisError

PH = "\x00"  # placeholder for an interpolated expression

_PCT = re.compile(r"%(?:\((\w+)\))?[-#0 +]*\d*(?:\.\d+)?([sdrifgxXoeEc%])")


class Emission:
    def __init__(self, call: ast.Call, template: str, exprs: List[ast.AST], convs: List[str]):
        self.call = call
        self.template = template  # literal text with PH per interpolated expression
        self.exprs = exprs
        self.convs = convs  # conversion per expression: 's', 'r', 'd', ...

    @property
    def head(self) -> str:
        return self.template.split(PH)[0]

    def python(self, names: Optional[List[str]] = None) -> ast.AST:
        """The emitted line parsed as Python, placeholders replaced by ``__e0__``, ``__e1__``...; a
        trailing ':' header gets a ``pass`` body."""
        src = self.template
        i = 0
        while PH in src:
            src = src.replace(PH, (names[i] if names else "__e%d__" % i), 1)
            i += 1
        src = src.strip()
        if src.endswith(":"):
            src += " pass"
        try:
            body = ast.parse(src).body
            return body[0] if body else ast.Pass()  # blank / comment-only line
        except SyntaxError as e:
            raise AnalysisError("emitted line %r is not a Python statement: %s" % (self.template, e))

    def __repr__(self):
        return "<emit %r>" % self.template.replace(PH, "{}")


def fold_format(e: ast.AST) -> Optional[Tuple[str, List[ast.AST], List[str]]]:
    """(template, interpolated expressions, conversions) for a string-building expression."""
    if isinstance(e, ast.Constant) and isinstance(e.value, str):
        return e.value, [], []
    if isinstance(e, ast.JoinedStr):
        t, xs, cs = "", [], []
        for v in e.values:
            if isinstance(v, ast.Constant):
                t += str(v.value)
            else:
                t += PH
                xs.append(v.value)
                cs.append({-1: "s", 115: "s", 114: "r", 97: "a"}.get(v.conversion, "s"))
        return t, xs, cs
    if isinstance(e, ast.BinOp) and isinstance(e.op, ast.Mod) and isinstance(e.left, ast.Constant) and isinstance(e.left.value, str):
        args = list(e.right.elts) if isinstance(e.right, ast.Tuple) else [e.right]
        t, xs, cs = "", [], []
        pos = 0
        k = 0
        s = e.left.value
        for m in _PCT.finditer(s):
            t += s[pos:m.start()]
            pos = m.end()
            if m.group(2) == "%":
                t += "%"
                continue
            if m.group(1):
                return None
            if k >= len(args):
                return None
            t += PH
            xs.append(args[k])
            cs.append(m.group(2))
            k += 1
        t += s[pos:]
        if k != len(args):
            return None
        return t, xs, cs
    if isinstance(e, ast.BinOp) and isinstance(e.op, ast.Add):
        a, b = fold_format(e.left), fold_format(e.right)
        if a is None or b is None:
            return None
        return a[0] + b[0], a[1] + b[1], a[2] + b[2]
    if isinstance(e, ast.Call) and isinstance(e.func, ast.Attribute) and e.func.attr == "format" and isinstance(e.func.value, ast.Constant) and isinstance(e.func.value.value, str) and not e.keywords:
        s = e.func.value.value
        parts = re.split(r"\{(!r|!s)?\}", s)
        if (len(parts) - 1) // 2 != len(e.args) or "{" in "".join(parts[0::2]).replace("{{", "").replace("}}", ""):
            return None
        t = ""
        cs = []
        for i in range(0, len(parts), 2):
            t += parts[i].replace("{{", "{").replace("}}", "}")
            if i + 1 < len(parts):
                t += PH
                cs.append("r" if parts[i + 1] == "!r" else "s")
        return t, list(e.args), cs
    if isinstance(e, (ast.Name, ast.Attribute, ast.Call, ast.Subscript)):
        return PH, [e], ["s"]
    return None


def emissions(fn: ast.AST, method: str = "write_line", receiver: Optional[str] = None) -> List[Emission]:
    """All ``<receiver>.<method>(fmt, ...)`` calls in the function's own scope, in source order."""
    out = []
    for n in q.walk_body(fn):
        if isinstance(n, ast.Call) and isinstance(n.func, ast.Attribute) and n.func.attr == method and (receiver is None or q.dotted(n.func.value) == receiver):
            if not n.args:
                raise AnalysisError("emission call without a line argument: %s" % q.unparse(n))
            ff = fold_format(n.args[0])
            if ff is None:
                raise AnalysisError("emitted line is not a foldable format expression: %s" % q.unparse(n.args[0])[:100])
            out.append(Emission(n, ff[0], ff[1], ff[2]))
    return out
