"""Inlining of private helpers into anchored functions (function-splitting refactorings).

``inlined(repo, relpath, roots, keep, relevant)`` returns a Repo in which, inside every
function named in ``roots`` (qualified names), calls of *private* helpers of the same
module / class (underscore-named, not dunder, not recursive, not named in ``keep``,
accepted by ``relevant``) are replaced by the helper's body - to depth 3:

* statement position (``h(a)``, ``x = h(a)``, ``return h(a)``, also awaited): the body
  with its locals renamed apart; a parameter that the helper never re-binds and whose
  argument is a name / attribute path / constant *is* the argument, other parameters are
  bound by an assignment.  ``return h(a)`` keeps the helper's ``return`` statements as
  they are (any control flow).  For the other positions every ``return e`` in tail
  position becomes the delivery of ``e`` (guard clauses are turned into if/else, the
  remainder of the block moves into the fall-through branch); when a ``return`` is not in
  tail position the body is wrapped in ``while True: ... break``; a ``return`` inside a
  loop of the helper makes the call un-inlinable (it is left alone).
* expression position (operand of an ``if`` test, argument of another call, part of an
  assigned / returned expression), evaluated unconditionally: a helper whose body is a
  single ``return <expr>`` is substituted as an expression; any other helper is first
  hoisted (``_hN_value = h(a)`` in front of the statement) and then inlined as above.
  Under a short-circuit operator only the single-expression form is substituted.

Nothing is written anywhere; a call that cannot be inlined cleanly is left as it is (the
rules then see the call and fail closed if they need to look inside).
"""
from __future__ import annotations

import ast
import copy
from typing import Callable, Dict, Iterable, List, Optional, Set, Tuple

from . import q
from .model import Repo, FuncNode


def _functions(tree: ast.Module):
    out = {}
    for st in tree.body:
        if isinstance(st, FuncNode):
            out[(None, st.name)] = st
        elif isinstance(st, ast.ClassDef):
            for s2 in st.body:
                if isinstance(s2, FuncNode):
                    out.setdefault((st.name, s2.name), s2)
    return out


def _bases(tree: ast.Module) -> Dict[str, List[str]]:
    return {st.name: [q.dotted(b) or "?" for b in st.bases] for st in tree.body if isinstance(st, ast.ClassDef)}


class _Rename(ast.NodeTransformer):
    def __init__(self, mapping):
        self.mapping = mapping

    def visit_Name(self, node):
        if node.id in self.mapping:
            return ast.copy_location(ast.Name(id=self.mapping[node.id], ctx=node.ctx), node)
        return node

    def visit_ExceptHandler(self, node):
        self.generic_visit(node)
        if node.name and node.name in self.mapping:
            node.name = self.mapping[node.name]
        return node


class _Subst(ast.NodeTransformer):
    def __init__(self, direct):
        self.direct = direct

    def visit_Name(self, node):
        if node.id in self.direct and isinstance(node.ctx, ast.Load):
            return ast.copy_location(copy.deepcopy(self.direct[node.id]), node)
        return node


def _has_return(st) -> bool:
    for x in q.walk_local(st):
        if isinstance(x, ast.Return):
            return True
    return False


def _terminates(stmts: List[ast.stmt]) -> bool:
    if not stmts:
        return False
    last = stmts[-1]
    if isinstance(last, (ast.Return, ast.Raise)):
        return True
    if isinstance(last, ast.If):
        return _terminates(last.body) and _terminates(last.orelse)
    if isinstance(last, ast.Try):
        parts = [last.body + last.orelse] + [h.body for h in last.handlers]
        return all(_terminates(p) for p in parts) or _terminates(last.finalbody)
    if isinstance(last, (ast.With, ast.AsyncWith)):
        return _terminates(last.body)
    return False


def _tailify(stmts: List[ast.stmt], deliver) -> Optional[List[ast.stmt]]:
    """Replace every tail-position ``return v`` by ``deliver(v)``; None when a return is not in tail position."""
    out: List[ast.stmt] = []
    for i, st in enumerate(stmts):
        rest = stmts[i + 1:]
        if isinstance(st, ast.Return):
            return out + deliver(st.value)
        if isinstance(st, FuncNode + (ast.ClassDef,)) or not _has_return(st):
            out.append(st)
            continue
        if isinstance(st, ast.If):
            nb = _tailify(st.body + ([] if _terminates(st.body) else copy.deepcopy(rest)), deliver)
            no = _tailify(st.orelse + ([] if (st.orelse and _terminates(st.orelse)) else copy.deepcopy(rest)), deliver)
            if nb is None or no is None:
                return None
            new = ast.If(test=st.test, body=nb or [ast.Pass()], orelse=no)
            return out + [ast.copy_location(new, st)]
        if isinstance(st, ast.Try):
            if any(_has_return(x) for x in st.finalbody):
                return None
            branches_terminate = _terminates(st.body + st.orelse) and all(_terminates(h.body) for h in st.handlers)
            if rest and not branches_terminate:
                # `try: A except E: return X` followed by REST  ==  `try: A except E: return X else: REST`
                # (an else clause is not covered by the handlers); a handler that falls through gets its own copy of REST
                if any(_has_return(x) for x in st.body) or st.finalbody:
                    return None
                moved = ast.Try(body=st.body, handlers=[ast.copy_location(ast.ExceptHandler(type=h.type, name=h.name, body=h.body + ([] if _terminates(h.body) else copy.deepcopy(rest))), h) for h in st.handlers],
                                orelse=st.orelse + rest, finalbody=[])
                ast.copy_location(moved, st)
                got = _tailify([moved], deliver)
                return None if got is None else out + got
            if st.orelse:
                nb = [x for x in st.body]
                if any(_has_return(x) for x in nb):
                    return None
                ne = _tailify(st.orelse, deliver)
            else:
                nb = _tailify(st.body, deliver)
                ne = []
            if nb is None or ne is None:
                return None
            hs = []
            for h in st.handlers:
                hb = _tailify(h.body, deliver)
                if hb is None:
                    return None
                hs.append(ast.copy_location(ast.ExceptHandler(type=h.type, name=h.name, body=hb or [ast.Pass()]), h))
            new = ast.Try(body=nb or [ast.Pass()], handlers=hs, orelse=ne, finalbody=st.finalbody)
            return out + [ast.copy_location(new, st)] + ([] if branches_terminate else [])
        if isinstance(st, (ast.With, ast.AsyncWith)):
            if rest and not _terminates(st.body):
                return None
            nb = _tailify(st.body, deliver)
            if nb is None:
                return None
            new = type(st)(items=st.items, body=nb or [ast.Pass()])
            return out + [ast.copy_location(new, st)]
        return None  # return inside a loop / match
    return out + deliver(None)


def _return_in_loop(stmts, in_loop=False) -> bool:
    for s in stmts:
        if isinstance(s, ast.Return) and in_loop:
            return True
        if isinstance(s, FuncNode + (ast.ClassDef,)):
            continue
        inner = in_loop or isinstance(s, (ast.For, ast.AsyncFor, ast.While))
        for fld in ("body", "orelse", "finalbody"):
            sub = getattr(s, fld, None)
            if isinstance(sub, list) and sub and isinstance(sub[0], ast.stmt) and _return_in_loop(sub, inner):
                return True
        for h in getattr(s, "handlers", []) or []:
            if _return_in_loop(h.body, inner):
                return True
    return False


class Inliner:
    def __init__(self, tree: ast.Module, keep: Callable[[str, ast.AST], bool], relevant: Callable[[ast.AST], bool]):
        self.tree = tree
        self.funcs = _functions(tree)
        self.bases = _bases(tree)
        self.keep = keep
        self.relevant = relevant
        self.uid = 0
        self.inlined: List[str] = []

    # -- resolution -------------------------------------------------------------------
    def resolve(self, call: ast.Call, cls: Optional[str]) -> Optional[Tuple[ast.AST, str]]:
        """(helper def, binding kind) kind: 'func' | 'method' | 'static' | 'class'"""
        f = call.func
        h = None
        via_self = False
        if isinstance(f, ast.Attribute) and isinstance(f.value, ast.Name):
            if f.value.id in ("self", "cls") and cls:
                seen, todo = set(), [cls]
                while todo and h is None:
                    c = todo.pop(0)
                    if c in seen:
                        continue
                    seen.add(c)
                    h = self.funcs.get((c, f.attr))
                    todo.extend(b for b in self.bases.get(c, []) if b in self.bases)
                via_self = True
            elif f.value.id in self.bases:
                h = self.funcs.get((f.value.id, f.attr))
        elif isinstance(f, ast.Name):
            h = self.funcs.get((None, f.id))
            if h is not None:
                return (h, "func")
        if h is None:
            return None
        decos = [q.dotted(d) for d in h.decorator_list]
        if "staticmethod" in decos:
            return (h, "static")
        if "classmethod" in decos:
            return (h, "class")
        if via_self and f.value.id == "self":
            return (h, "method")
        return None

    def eligible(self, h, caller, awaited: bool, stack: Tuple[str, ...]) -> bool:
        name = h.name
        if not name.startswith("_") or name.startswith("__"):
            return False
        if h is caller or name in stack:
            return False
        if self.keep(name, h) or not self.relevant(h):
            return False
        if any(q.dotted(d) not in ("staticmethod", "classmethod") for d in h.decorator_list):
            return False
        if isinstance(h, ast.AsyncFunctionDef) != awaited:
            return False
        if isinstance(h, ast.AsyncFunctionDef) and not isinstance(caller, ast.AsyncFunctionDef):
            return False
        a = h.args
        if a.vararg or a.kwarg:
            return False
        for s in h.body:
            for x in ast.walk(s):
                if isinstance(x, (ast.Yield, ast.YieldFrom, ast.Global, ast.Nonlocal)) or isinstance(x, FuncNode + (ast.ClassDef,)):
                    return False
        # recursion through itself
        for s in h.body:
            for x in ast.walk(s):
                if isinstance(x, ast.Call) and q.call_attr(x) == name:
                    return False
        return True

    # -- binding --------------------------------------------------------------------------
    def bind(self, h, kind: str, call: ast.Call):
        """(renamed body, pre-assignments) or None"""
        a = h.args
        if any(isinstance(x, ast.Starred) for x in call.args) or any(k.arg is None for k in call.keywords):
            return None
        params = [x.arg for x in a.posonlyargs + a.args]
        first = None
        if kind in ("method", "class"):
            if not params:
                return None
            first, params = params[0], params[1:]
        if len(call.args) > len(params):
            return None
        binding: Dict[str, ast.AST] = dict(zip(params, call.args))
        kwonly = [x.arg for x in a.kwonlyargs]
        for k in call.keywords:
            if k.arg not in params + kwonly or k.arg in binding:
                return None
            binding[k.arg] = k.value
        defaults = dict(zip(reversed([x.arg for x in a.posonlyargs + a.args]), reversed(a.defaults)))
        for p_, d in zip(kwonly, a.kw_defaults):
            if d is not None:
                defaults[p_] = d
        for p_ in params + kwonly:
            if p_ not in binding:
                if p_ not in defaults:
                    return None
                binding[p_] = defaults[p_]
        body_src = [s for s in h.body if not (isinstance(s, ast.Expr) and isinstance(s.value, ast.Constant))]
        if kind == "class":
            # the class object: only when the body does not use it for anything but calling other class-level helpers
            recv = call.func.value if isinstance(call.func, ast.Attribute) else None
            if not isinstance(recv, ast.Name):
                return None
        self.uid += 1
        uid = self.uid
        locals_ = set(params + kwonly)
        stored = set()
        for s in body_src:
            for x in q.walk_local(s):
                if isinstance(x, ast.Name) and isinstance(x.ctx, (ast.Store, ast.Del)):
                    locals_.add(x.id)
                    stored.add(x.id)
                elif isinstance(x, ast.ExceptHandler) and x.name:
                    locals_.add(x.name)
                    stored.add(x.name)
                elif isinstance(x, (ast.ListComp, ast.SetComp, ast.DictComp, ast.GeneratorExp)):
                    for g in x.generators:
                        for y in ast.walk(g.target):
                            if isinstance(y, ast.Name):
                                locals_.add(y.id)
        locals_.discard("self")
        mapping = {n: "_h%d_%s" % (uid, n) for n in locals_}
        if first is not None and first != "self":
            recv = call.func.value
            mapping[first] = recv.id if isinstance(recv, ast.Name) else first
        if kind == "class" and first is not None:
            mapping[first] = call.func.value.id
        body = [_Rename(mapping).visit(copy.deepcopy(s)) for s in body_src]
        direct: Dict[str, ast.AST] = {}
        pre: List[ast.stmt] = []
        for p_ in params + kwonly:
            v = binding[p_]
            if p_ not in stored and (isinstance(v, (ast.Name, ast.Constant)) or (isinstance(v, ast.Attribute) and q.dotted(v) is not None)):
                direct[mapping[p_]] = v
            else:
                pre.append(ast.Assign(targets=[ast.Name(id=mapping[p_], ctx=ast.Store())], value=copy.deepcopy(v)))
        if direct:
            body = [_Subst(direct).visit(s) for s in body]
        return body, pre, uid

    def single_expr(self, h) -> Optional[ast.AST]:
        body = [s for s in h.body if not (isinstance(s, ast.Expr) and isinstance(s.value, ast.Constant))]
        if len(body) == 1 and isinstance(body[0], ast.Return) and body[0].value is not None and not any(isinstance(x, (ast.Await, ast.NamedExpr)) for x in ast.walk(body[0])):
            return body[0].value
        return None

    # -- statement-level ----------------------------------------------------------------------
    def inline_stmt(self, st: ast.stmt, caller, cls, stack, rest: Optional[List[ast.stmt]] = None):
        """(replacement statements, rest_consumed) or None"""
        v, kind = None, None
        if isinstance(st, ast.Expr):
            v, kind = st.value, "expr"
        elif isinstance(st, ast.Assign) and len(st.targets) == 1:
            v, kind = st.value, "assign"
        elif isinstance(st, ast.AnnAssign) and st.value is not None:
            v, kind = st.value, "assign"
        elif isinstance(st, ast.Return) and st.value is not None:
            v, kind = st.value, "return"
        if v is None:
            return None
        awaited = False
        if isinstance(v, ast.Await):
            v, awaited = v.value, True
        if not isinstance(v, ast.Call):
            return None
        r = self.resolve(v, cls)
        if r is None:
            return None
        h, bkind = r
        if not self.eligible(h, caller, awaited, stack):
            return None
        b = self.bind(h, bkind, v)
        if b is None:
            return None
        body, pre, uid = b
        # continuation duplication: a helper that returns a distinguishing constant (None / True / False) on some
        # paths and something else on others is followed in the caller by a test of that result; to keep the
        # correlation between the helper's branch and the caller's test, the rest of the caller's block is copied
        # behind every delivery and tests of the result against its known constant are folded there
        rets = [x for s_ in body for x in q.walk_local(s_) if isinstance(x, ast.Return)]
        consts = [x for x in rets if x.value is None or (isinstance(x.value, ast.Constant) and x.value.value in (None, True, False))]
        target = st.targets[0].id if kind == "assign" and isinstance(st, ast.Assign) and isinstance(st.targets[0], ast.Name) else None
        dup = bool(rest) and target is not None and len(rets) >= 2 and len(rets) <= 5 and consts and sum(1 for s_ in rest for _ in ast.walk(s_)) * len(rets) <= 6000 \
            and not any(isinstance(x, FuncNode + (ast.ClassDef,)) for s_ in rest for x in ast.walk(s_))

        def deliver(value):
            val = value if value is not None else ast.Constant(value=None)
            if kind == "expr":
                return [] if value is None or isinstance(value, (ast.Constant, ast.Name)) else [ast.Expr(value=val)]
            if kind == "assign":
                new = copy.deepcopy(st)
                new.value = val
                if dup:
                    cont = [copy.deepcopy(s_) for s_ in rest]
                    if isinstance(val, ast.Constant):
                        cont = _fold_known(cont, target, val.value)
                    return [new] + cont
                return [new]
            return [ast.Return(value=val)]

        consumed = False
        if kind == "return":
            out = pre + body + ([] if _terminates(body) else [ast.Return(value=ast.Constant(value=None))])
        else:
            t = _tailify(body, deliver)
            if t is not None and dup:
                consumed = True
            if t is None:
                dup = False
                if _return_in_loop(body) or kind != "expr":
                    return None  # a merged result variable would lose which branch produced it: do not inline
                res = "_h%d_result" % uid

                class R(ast.NodeTransformer):
                    def visit_Return(self, node):
                        return [ast.Assign(targets=[ast.Name(id=res, ctx=ast.Store())], value=node.value if node.value is not None else ast.Constant(value=None)), ast.Break()]

                    def visit_FunctionDef(self, node):
                        return node

                    def visit_Lambda(self, node):
                        return node

                wrapped: List[ast.stmt] = []
                for s in body:
                    rr = R().visit(s)
                    wrapped.extend(rr if isinstance(rr, list) else [rr])
                loop = ast.While(test=ast.Constant(value=True), body=wrapped + [ast.Assign(targets=[ast.Name(id=res, ctx=ast.Store())], value=ast.Constant(value=None)), ast.Break()], orelse=[])
                t = [loop] + deliver(ast.Name(id=res, ctx=ast.Load()))
            out = pre + t
        if not out:
            out = [ast.Pass()]
        for s in out:
            for x in ast.walk(s):
                if not hasattr(x, "lineno"):
                    ast.copy_location(x, st)
        self.inlined.append(h.name)
        return out, consumed

    # -- expression-level -------------------------------------------------------------------------
    def expr_calls(self, e: ast.AST) -> List[Tuple[ast.Call, bool]]:
        """helper-call candidates in ``e`` in evaluation (post-)order with 'unconditionally evaluated' flag"""
        out: List[Tuple[ast.Call, bool]] = []

        def rec(x, uncond):
            if isinstance(x, (ast.Lambda, ast.ListComp, ast.SetComp, ast.DictComp, ast.GeneratorExp)):
                return
            if isinstance(x, ast.BoolOp):
                for i, v in enumerate(x.values):
                    rec(v, uncond and i == 0)
                return
            if isinstance(x, ast.IfExp):
                rec(x.test, uncond)
                rec(x.body, False)
                rec(x.orelse, False)
                return
            for c in ast.iter_child_nodes(x):
                rec(c, uncond)
            if isinstance(x, ast.Call):
                out.append((x, uncond))

        rec(e, True)
        return out

    def rewrite_exprs(self, stmts: List[ast.stmt], i: int, caller, cls, stack) -> int:
        """Inline helper calls inside the expressions of statement ``stmts[i]``; returns the number of statements inserted in front."""
        st = stmts[i]
        inserted = 0
        for _round in range(12):
            if isinstance(st, ast.If):
                holder, attr = st, "test"
            elif isinstance(st, (ast.Assign, ast.AnnAssign, ast.AugAssign, ast.Expr, ast.Return)) and getattr(st, "value", None) is not None:
                holder, attr = st, "value"
            elif isinstance(st, ast.Raise) and st.exc is not None:
                holder, attr = st, "exc"
            else:
                return inserted
            e = getattr(holder, attr)
            top = e.value if isinstance(e, ast.Await) else e
            done = False
            for c, uncond in self.expr_calls(e):
                if c is top and attr == "value" and not isinstance(st, ast.AugAssign) and not (isinstance(st, ast.Assign) and len(st.targets) != 1):
                    continue  # statement-level call: handled by inline_stmt
                r = self.resolve(c, cls)
                if r is None:
                    continue
                h, bkind = r
                if not self.eligible(h, caller, False, stack):
                    continue
                se = self.single_expr(h)
                if se is not None:
                    b = self.bind(h, bkind, c)
                    if b is None:
                        continue
                    body, pre, uid = b
                    if pre:
                        if not uncond:
                            continue
                        for p_ in pre:
                            ast.copy_location(p_, st)
                            ast.fix_missing_locations(p_)
                        stmts[i:i] = pre
                        i += len(pre)
                        inserted += len(pre)
                    new_e = body[0].value
                    self._replace(holder, attr, c, new_e)
                    self.inlined.append(h.name)
                    done = True
                    break
                if not uncond:
                    continue
                if self.bind(h, bkind, c) is None:
                    continue
                self.uid += 1
                tmp = "_h%d_value" % self.uid
                assign = ast.Assign(targets=[ast.Name(id=tmp, ctx=ast.Store())], value=c)
                ast.copy_location(assign, st)
                self._replace(holder, attr, c, ast.Name(id=tmp, ctx=ast.Load()))
                ast.fix_missing_locations(assign)
                stmts[i:i] = [assign]
                return inserted + 1  # the caller re-processes from the hoisted statement
            if not done:
                break
        return inserted

    @staticmethod
    def _replace(holder, attr, target, new):
        class Rep(ast.NodeTransformer):
            def visit_Call(self, node):
                if node is target:
                    return ast.copy_location(new, node)
                return self.generic_visit(node)

        setattr(holder, attr, Rep().visit(getattr(holder, attr)))
        ast.fix_missing_locations(getattr(holder, attr))

    # -- driver ----------------------------------------------------------------------------------------
    def block(self, stmts: List[ast.stmt], caller, cls, stack: Tuple[str, ...]) -> None:
        i = 0
        while i < len(stmts):
            s = stmts[i]
            if isinstance(s, FuncNode + (ast.ClassDef,)):
                i += 1
                continue
            if self.uid < 80:
                if self.rewrite_exprs(stmts, i, caller, cls, stack):
                    continue  # statements were hoisted in front: start again from the first of them
                res = self.inline_stmt(s, caller, cls, stack, rest=stmts[i + 1:])
                if res is not None:
                    out, consumed = res
                    if consumed:
                        stmts[i:] = out
                    else:
                        stmts[i:i + 1] = out
                    continue
            for fld in ("body", "orelse", "finalbody"):
                sub = getattr(s, fld, None)
                if isinstance(sub, list) and sub and isinstance(sub[0], ast.stmt):
                    self.block(sub, caller, cls, stack)
            for hd in getattr(s, "handlers", []) or []:
                self.block(hd.body, caller, cls, stack)
            i += 1


def _fold_known(stmts: List[ast.stmt], name: str, value) -> List[ast.stmt]:
    """In a straight run of statements in which ``name`` is known to hold the constant ``value`` (until it is
    re-bound), fold the ``if`` tests that only depend on it."""

    def simp(e):
        try:
            return ast.Constant(value=bool(q.fold(e, {name: value})))
        except q.NotFoldable:
            pass
        if isinstance(e, ast.UnaryOp) and isinstance(e.op, ast.Not):
            o = simp(e.operand)
            if isinstance(o, ast.Constant):
                return ast.Constant(value=not o.value)
            return ast.UnaryOp(op=ast.Not(), operand=o)
        if isinstance(e, ast.BoolOp):
            vals = [simp(v) for v in e.values]
            is_and = isinstance(e.op, ast.And)
            kept = []
            for v in vals:
                if isinstance(v, ast.Constant) and isinstance(v.value, bool):
                    if v.value != is_and:
                        # False in an `and` / True in an `or`: decides the whole expression (operands before it have no effect on the outcome)
                        return ast.Constant(value=v.value) if not kept else ast.BoolOp(op=e.op, values=kept + [v])
                    continue
                kept.append(v)
            if not kept:
                return ast.Constant(value=is_and)
            return kept[0] if len(kept) == 1 else ast.BoolOp(op=e.op, values=kept)
        return e

    out = []
    known = True
    for st in stmts:
        if known and isinstance(st, ast.If):
            new_test = simp(st.test)
            if isinstance(new_test, ast.Constant) and isinstance(new_test.value, bool):
                # decided: keep only the branch that runs; nothing after a branch that always leaves is reachable
                taken = st.body if new_test.value else st.orelse
                taken = _fold_known(taken, name, value)
                out.extend(taken)
                if _terminates(taken):
                    return out
                if any(name in q.assigned_paths(x) for x in taken):
                    known = False
                continue
            if new_test is not st.test:
                st = ast.copy_location(ast.If(test=ast.copy_location(new_test, st.test), body=st.body, orelse=st.orelse), st)
                ast.fix_missing_locations(st)
        out.append(st)
        if known and name in q.assigned_paths(st):
            known = False
    return out or [ast.Pass()]


def inlined(repo: Repo, relpath: str, roots: Iterable[str], keep: Callable[[str, ast.AST], bool], relevant: Optional[Callable[[ast.AST], bool]] = None) -> Repo:
    if not relpath.startswith("tornado/"):
        relpath = "tornado/" + relpath
    mod = repo.modules.get(relpath)
    if mod is None:
        return repo
    tree = copy.deepcopy(mod.tree)
    inl = Inliner(tree, keep, relevant or (lambda h: True))
    roots = set(roots)
    for st in tree.body:
        if isinstance(st, FuncNode) and st.name in roots:
            inl.block(st.body, st, None, (st.name,))
        elif isinstance(st, ast.ClassDef):
            for s2 in st.body:
                if isinstance(s2, FuncNode) and (st.name + "." + s2.name) in roots:
                    inl.block(s2.body, s2, st.name, (s2.name,))
    if not inl.inlined:
        return repo
    ast.fix_missing_locations(tree)
    try:
        compile(tree, relpath, "exec")
    except Exception:
        return repo  # never let a normalisation problem change the verdict: the rules see the original
    r = repo.with_module(relpath, tree=tree)
    r.inlined_helpers = sorted(set(inl.inlined))  # type: ignore[attr-defined]
    return r


def mentions_any(h: ast.AST, words: Iterable[str]) -> bool:
    """The helper's body mentions one of the words as a name, attribute or string constant."""
    ws = set(words)
    for x in ast.walk(h):
        if isinstance(x, ast.Name) and x.id in ws:
            return True
        if isinstance(x, ast.Attribute) and x.attr in ws:
            return True
        if isinstance(x, ast.Constant) and isinstance(x.value, str) and x.value in ws:
            return True
    return False


# ---------------------------------------------------------------------------
# round 5: data-shape normalisations (constant-count loops, lists built by append)


def unroll_const_loops(fn: ast.AST, limit: int = 8) -> bool:
    """``for v in range(K)`` (K a small literal) / ``for v in (a, b, c)`` whose body has no break / continue /
    else is replaced by K copies of the body (``v = i`` / ``v = a`` in front of each when v is used)."""
    changed = False

    def rec(stmts: List[ast.stmt]):
        nonlocal changed
        i = 0
        while i < len(stmts):
            s = stmts[i]
            if isinstance(s, FuncNode + (ast.ClassDef,)):
                i += 1
                continue
            for fld in ("body", "orelse", "finalbody"):
                sub = getattr(s, fld, None)
                if isinstance(sub, list) and sub and isinstance(sub[0], ast.stmt):
                    rec(sub)
            for hd in getattr(s, "handlers", []) or []:
                rec(hd.body)
            if isinstance(s, ast.For) and not s.orelse and isinstance(s.target, ast.Name):
                items = None
                it = s.iter
                if isinstance(it, ast.Call) and isinstance(it.func, ast.Name) and it.func.id == "range" and len(it.args) == 1 and isinstance(it.args[0], ast.Constant) and isinstance(it.args[0].value, int) and 0 < it.args[0].value <= limit:
                    items = [ast.Constant(value=k) for k in range(it.args[0].value)]
                elif isinstance(it, (ast.Tuple, ast.List)) and 0 < len(it.elts) <= limit and not any(isinstance(e, ast.Starred) for e in it.elts):
                    items = list(it.elts)
                jumps = any(isinstance(x, (ast.Break, ast.Continue)) for b in s.body for x in q.walk_local(b))
                if items is not None and not jumps:
                    used = any(isinstance(x, ast.Name) and x.id == s.target.id and isinstance(x.ctx, ast.Load) for b in s.body for x in ast.walk(b))
                    new: List[ast.stmt] = []
                    for it_ in items:
                        if used:
                            a = ast.Assign(targets=[ast.Name(id=s.target.id, ctx=ast.Store())], value=copy.deepcopy(it_))
                            new.append(ast.copy_location(a, s))
                        new.extend(copy.deepcopy(b) for b in s.body)
                    for n_ in new:
                        ast.fix_missing_locations(n_)
                    stmts[i:i + 1] = new
                    changed = True
                    i += len(new)
                    continue
            i += 1

    rec(fn.body)
    return changed


def fold_appends(fn: ast.AST) -> bool:
    """In one statement list: ``X = []`` ... ``X.append(e)`` ... (X not otherwise mentioned in between, top level
    only) becomes ``_appN = e`` at each append and ``X = [_app1, ...]`` after the last one."""
    changed = False
    counter = [0]

    def mentions(st, name):
        return any(isinstance(x, ast.Name) and x.id == name for x in ast.walk(st))

    def rec(stmts: List[ast.stmt]):
        nonlocal changed
        i = 0
        while i < len(stmts):
            s = stmts[i]
            if isinstance(s, FuncNode + (ast.ClassDef,)):
                i += 1
                continue
            if isinstance(s, (ast.Assign, ast.AnnAssign)) and isinstance(getattr(s, "value", None), ast.List) and not s.value.elts:
                tgt = s.targets[0] if isinstance(s, ast.Assign) and len(s.targets) == 1 else getattr(s, "target", None)
                if isinstance(tgt, ast.Name):
                    name = tgt.id
                    temps: List[str] = []
                    j = i + 1
                    last_append = None
                    edits = {}
                    while j < len(stmts):
                        t = stmts[j]
                        is_app = isinstance(t, ast.Expr) and isinstance(t.value, ast.Call) and isinstance(t.value.func, ast.Attribute) and t.value.func.attr == "append" and isinstance(t.value.func.value, ast.Name) \
                            and t.value.func.value.id == name and len(t.value.args) == 1 and not t.value.keywords and not mentions(t.value.args[0], name)
                        if is_app:
                            counter[0] += 1
                            tmp = "_app%d_%s" % (counter[0], name)
                            temps.append(tmp)
                            edits[j] = ast.copy_location(ast.Assign(targets=[ast.Name(id=tmp, ctx=ast.Store())], value=t.value.args[0]), t)
                            last_append = j
                        elif mentions(t, name):
                            break
                        j += 1
                    if last_append is not None:
                        for j_, new in edits.items():
                            ast.fix_missing_locations(new)
                            stmts[j_] = new
                        final = ast.copy_location(ast.Assign(targets=[ast.Name(id=name, ctx=ast.Store())], value=ast.List(elts=[ast.Name(id=t_, ctx=ast.Load()) for t_ in temps], ctx=ast.Load())), stmts[last_append])
                        ast.fix_missing_locations(final)
                        stmts.insert(last_append + 1, final)
                        del stmts[i]
                        changed = True
                        continue
            for fld in ("body", "orelse", "finalbody"):
                sub = getattr(s, fld, None)
                if isinstance(sub, list) and sub and isinstance(sub[0], ast.stmt):
                    rec(sub)
            for hd in getattr(s, "handlers", []) or []:
                rec(hd.body)
            i += 1

    rec(fn.body)
    return changed


def reshaped(repo: Repo, relpath: str, roots: Iterable[str]) -> Repo:
    """Apply unroll_const_loops + fold_appends to the named functions (qualified names)."""
    if not relpath.startswith("tornado/"):
        relpath = "tornado/" + relpath
    mod = repo.modules.get(relpath)
    if mod is None:
        return repo
    roots = set(roots)
    # cheap pre-check on the original tree
    def targets(tree):
        for st in tree.body:
            if isinstance(st, FuncNode) and st.name in roots:
                yield st
            elif isinstance(st, ast.ClassDef):
                for s2 in st.body:
                    if isinstance(s2, FuncNode) and (st.name + "." + s2.name) in roots:
                        yield s2

    def unrollable(x):
        return isinstance(x, ast.For) and ((isinstance(x.iter, ast.Call) and isinstance(x.iter.func, ast.Name) and x.iter.func.id == "range" and len(x.iter.args) == 1 and isinstance(x.iter.args[0], ast.Constant))
                                           or isinstance(x.iter, (ast.Tuple, ast.List)))

    if not any(unrollable(x) for f in targets(mod.tree) for x in ast.walk(f)):
        return repo
    tree = copy.deepcopy(mod.tree)
    changed = False
    for f in targets(tree):
        if unroll_const_loops(f):
            changed = True
            fold_appends(f)
    if not changed:
        return repo
    ast.fix_missing_locations(tree)
    try:
        compile(tree, relpath, "exec")
    except Exception:
        return repo
    r = repo.with_module(relpath, tree=tree)
    if hasattr(repo, "inlined_helpers"):
        r.inlined_helpers = repo.inlined_helpers  # type: ignore[attr-defined]
    return r


# ---------------------------------------------------------------------------
# round 11: locals that merely alias a module attribute (`isdir = os.path.isdir`)


def dealias_module_attrs(fn: ast.AST, modules=("os", "binascii", "base64", "hmac", "hashlib", "time")) -> bool:
    """A local bound exactly once (plain or pairwise tuple assignment) to an attribute chain of an imported module
    is replaced by that chain in the whole function."""
    params = {a.arg for a in fn.args.posonlyargs + fn.args.args + fn.args.kwonlyargs}
    stores: Dict[str, int] = {}
    for x in q.walk_body(fn):
        if isinstance(x, ast.Name) and isinstance(x.ctx, (ast.Store, ast.Del)):
            stores[x.id] = stores.get(x.id, 0) + 1
    alias: Dict[str, ast.AST] = {}
    for x in q.walk_body(fn):
        if isinstance(x, ast.Assign) and len(x.targets) == 1:
            pairs = []
            t, v = x.targets[0], x.value
            if isinstance(t, ast.Name):
                pairs = [(t, v)]
            elif isinstance(t, (ast.Tuple, ast.List)) and isinstance(v, (ast.Tuple, ast.List)) and len(t.elts) == len(v.elts):
                pairs = list(zip(t.elts, v.elts))
            for tt, vv in pairs:
                d = q.dotted(vv) if isinstance(vv, ast.Attribute) else None
                if isinstance(tt, ast.Name) and d and d.split(".")[0] in modules and d.split(".")[0] not in params and d.split(".")[0] not in stores \
                        and stores.get(tt.id) == 1 and tt.id not in params:
                    alias[tt.id] = vv
    if not alias:
        return False

    class T(ast.NodeTransformer):
        def visit_Name(self, node):
            if node.id in alias and isinstance(node.ctx, ast.Load):
                return ast.copy_location(copy.deepcopy(alias[node.id]), node)
            return node

        def visit_FunctionDef(self, node):
            return node

        def visit_Lambda(self, node):
            return node

    for i, st in enumerate(fn.body):
        fn.body[i] = T().visit(st)
    ast.fix_missing_locations(fn)
    return True


def dealiased(repo: Repo, relpath: str, roots: Iterable[str]) -> Repo:
    if not relpath.startswith("tornado/"):
        relpath = "tornado/" + relpath
    mod = repo.modules.get(relpath)
    if mod is None:
        return repo
    roots = set(roots)

    def targets(tree):
        for st in tree.body:
            if isinstance(st, FuncNode) and st.name in roots:
                yield st
            elif isinstance(st, ast.ClassDef):
                for s2 in st.body:
                    if isinstance(s2, FuncNode) and (st.name + "." + s2.name) in roots:
                        yield s2

    def has_alias(f):
        for x in q.walk_body(f):
            if isinstance(x, ast.Assign):
                vals = x.value.elts if isinstance(x.value, (ast.Tuple, ast.List)) else [x.value]
                if any(isinstance(v, ast.Attribute) and (q.dotted(v) or "").split(".")[0] in ("os", "binascii", "base64", "hmac", "hashlib", "time") for v in vals):
                    return True
        return False

    if not any(has_alias(f) for f in targets(mod.tree)):
        return repo
    tree = copy.deepcopy(mod.tree)
    changed = False
    for f in targets(tree):
        changed = dealias_module_attrs(f) or changed
    if not changed:
        return repo
    try:
        compile(tree, relpath, "exec")
    except Exception:
        return repo
    r = repo.with_module(relpath, tree=tree)
    if hasattr(repo, "inlined_helpers"):
        r.inlined_helpers = repo.inlined_helpers  # type: ignore[attr-defined]
    return r
