"""Regenerate /verif/MANIFEST.json from the property modules' metadata."""
from __future__ import annotations

import importlib
import json
import os
import sys

HERE = os.path.dirname(os.path.abspath(__file__))
VERIF = os.path.dirname(HERE)
sys.path.insert(0, VERIF)

NA_FILE = os.path.join(VERIF, "not_applicable.json")


def main():
    props = [json.loads(l) for l in open(os.path.join(VERIF, "properties.jsonl"))]
    checks = []
    na = []
    na_reasons = json.load(open(NA_FILE)) if os.path.exists(NA_FILE) else {}
    engines = [
        {"name": "vt", "path": "vt/", "serves_properties": [], "kind_free_text": "custom static analysis over /repo's source: ast source model, statement CFG with exception edges, must-facts dataflow, path-sensitive typestate exploration, taint, regex automata, clang AST walk"},
    ]
    for p in props:
        pid = p["id"]
        path = os.path.join(HERE, "props", pid.lower() + ".py")
        if not os.path.exists(path) or pid in na_reasons:
            na.append({"property_id": pid, "reason": na_reasons.get(pid, "no sound static rule implemented yet for this property")})
            continue
        mod = importlib.import_module("vt.props." + pid.lower())
        engines[0]["serves_properties"].append(pid)
        checks.append({
            "property_id": pid,
            "quick_cmd": "./check %s --tier quick" % pid,
            "thorough_cmd": "./check %s --tier thorough" % pid,
            "evidence_file": "/verif/evidence/%s.json" % pid,
            "replay_cmd_template": "./check %s --tier quick  # re-derives the finding described in {path} from the current tree" % pid,
            "engine": "vt",
            "level_claimed": {
                "category": "other",
                "text": getattr(mod, "LEVEL_TEXT", "") or ("Static analysis of /repo's current source (no execution): " + getattr(mod, "EXPLANATION", "")),
                "design_ref": "DESIGN.md §4 %s" % pid,
            },
            "level_note": getattr(mod, "LEVEL_NOTE", "") or ("Decides only the structural clauses listed; NOT decided: " + getattr(mod, "NOT_DECIDED", "")),
            "technique": getattr(mod, "TECHNIQUE", "static analysis (AST/CFG rules)"),
        })
    man = {
        "version": 1,
        "setup_cmd": "/venv/bin/python -B vt/selftest.py",
        "hooks": {
            "guard": "TORNADO_VERIF",
            "enable": "none needed: the checks read /repo's source and never run it",
            "baseline_off_cmd": "cd /repo && /venv/bin/python -m pytest -ra -q -p no:cacheprovider --timeout=900 --continue-on-collection-errors",
            "source_commits": [],
            "add_only": True,
        },
        "engines": engines,
        "checks": checks,
        "not_applicable": na,
        "notes": "Technique family: static analysis only. Every check parses /repo's working tree on each run; exit 0 ok / 1 VIOLATION / 2 ANALYSIS-ERROR. Open known findings: known/<PID>.json (exact keys by rule and construct); repaired ones: known_findings.json (fixed: lines). Each check decides the structural clauses named in its level_claimed text; the behavioural quantifier itself (all inputs / schedules / histories) is not decided - see level_note and DESIGN.md sections 0, 4, 5.",
    }
    with open(os.path.join(VERIF, "MANIFEST.json"), "w") as f:
        json.dump(man, f, indent=1)
    print("checks=%d not_applicable=%d" % (len(checks), len(na)))


if __name__ == "__main__":
    main()
