"""Consolidate the per-property files known/<PID>.json into known_findings.json, so that ONE committed file lists
every open known finding (status "known", exact key) and every repaired one (status "fixed", with the /repo commit
and the line `fixed: property=<id> <commit> <what failed>`).  Run by hand after editing known/*.json; checks only
ever read these files."""
import glob, json, os
VERIF = os.path.dirname(os.path.dirname(os.path.abspath(__file__)))

def main():
    p = os.path.join(VERIF, "known_findings.json")
    old = json.load(open(p))["findings"] if os.path.exists(p) else []
    fixed = [f for f in old if f.get("status") == "fixed" and f.get("commit")]
    have = {f.get("key") for f in fixed if f.get("key")}
    open_, fixed_extra = [], []
    for fn in sorted(glob.glob(os.path.join(VERIF, "known", "*.json"))):
        for f in json.load(open(fn)).get("findings", []):
            f = dict(f)
            if f.get("status") == "known":
                f["line"] = "known: property=%s %s" % (f["property"], f.get("title", f["key"]))
                open_.append(f)
            elif f.get("status") == "fixed" and f.get("key") not in have:
                f.setdefault("line", "fixed: property=%s (see the commit-bearing entry of the same finding) %s" % (f["property"], f.get("title", "")))
                fixed_extra.append(f)
    out = {"comment": "open known findings (status known: suppress exactly the listed key, print KNOWN-FINDING) and repaired ones (status fixed: suppress nothing); never written at run time", "findings": open_ + fixed + fixed_extra}
    json.dump(out, open(p, "w"), indent=1)
    print("known_findings.json: %d open, %d fixed (+%d rule-keyed fixed entries)" % (len(open_), len(fixed), len(fixed_extra)))

if __name__ == "__main__":
    main()
