"""Two small flow engines shared by several property checkers.

* ``param_value_flow`` — concrete-value propagation of ONE local/parameter through the CFG for a finite set of
  initial values (exhaustive constant folding): decides "a default is applied only when the caller gave None;
  every other legal value (0, empty, False) reaches the use site unchanged" (class: truthiness test where
  0/empty is a legal value).
* ``derivation`` — backward def-use chain of a text value to its source with the list of operations applied on the
  way: decides "this value reaches its consumer byte-exact / only through the listed slicing operations"
  (class: normaliser/strip/lower applied to more than the part it is meant for).
"""
from __future__ import annotations

import ast
from typing import Callable, Dict, Iterable, List, Optional, Set, Tuple

from . import q
from .cfg import explore
from .model import AnalysisError, FuncInfo


class _Default:
    """Value produced by an expression that cannot be folded (the applied default)."""

    def __repr__(self):
        return "<default>"


DEFAULT = _Default()


class _Unknown:
    """Value after a transformation of the tracked name that cannot be folded (e.g. passed through a helper)."""

    def __repr__(self):
        return "<unknown>"


UNKNOWN = _Unknown()


def _hashable(v):
    if isinstance(v, list):
        return tuple(_hashable(x) for x in v)
    return v


def param_value_flow(fi: FuncInfo, name: str, init_values: Iterable, stop: Callable, other_env: Optional[Dict[str, object]] = None) -> Dict[object, Set[object]]:
    """For each initial value of local ``name``: the set of values it can have on arrival at nodes satisfying ``stop``.
    Assignments ``name = <expr>`` are folded with the current value (unfoldable -> DEFAULT); branch conditions that
    mention only ``name`` (and names in ``other_env``) are folded and prune the infeasible edge."""
    cfg = fi.cfg
    other_env = dict(other_env or {})
    out: Dict[object, Set[object]] = {}
    for init in init_values:
        init_h = _hashable(init)
        got: Set[object] = set()

        # values travel boxed as ("v", value): explore() treats a bare None as "stop this path"
        def env_of(val):
            e = dict(other_env)
            if val is not DEFAULT and val is not UNKNOWN:
                e[name] = val
            return e

        def transfer(n, box):
            val = box[1]
            if stop(n):
                got.add(val)
            if n.kind == "stmt" and isinstance(n.ast, (ast.Assign, ast.AnnAssign, ast.AugAssign)) and name in q.assigned_paths(n.ast):
                st = n.ast
                if isinstance(st, ast.AugAssign) or st.value is None:
                    return ("v", DEFAULT)
                tgt = st.targets[0] if isinstance(st, ast.Assign) else st.target
                if not isinstance(tgt, ast.Name):
                    return ("v", DEFAULT)
                try:
                    return ("v", _hashable(q.fold(st.value, env_of(val))))
                except Exception:
                    return ("v", UNKNOWN if name in q.names_in(st.value) else DEFAULT)
            if n.kind == "for" and name in q.names_in(n.ast.target):
                return ("v", DEFAULT)
            return box

        def edge(n, kind, box):
            val = box[1]
            names = q.names_in(n.ast) if n.kind == "test" else set()
            if n.kind == "test" and kind in ("true", "false") and names and names <= (set(other_env) | {name}) and ((val is not DEFAULT and val is not UNKNOWN) or name not in names):
                try:
                    truth = bool(q.fold(n.ast, env_of(val)))
                except Exception:
                    return box
                if truth != (kind == "true"):
                    return None
            return box

        explore(cfg, ("v", init_h), transfer, lambda t: False, edge_transfer=edge, follow_exc=False)
        out[init_h] = got
    return out


def check_default_only_for_none(ck, rule: str, fi: FuncInfo, name: str, legal_values: Iterable, stop: Callable, what: str, other_env: Optional[Dict[str, object]] = None, node=None) -> int:
    """Obligation per legal (non-None) value: it reaches the use site unchanged."""
    flow = param_value_flow(fi, name, list(legal_values), stop, other_env)
    n = 0
    for init, got in flow.items():
        n += 1
        if not got:
            raise AnalysisError("%s: %s=%r never reaches the use site (flow not understood)" % (fi.qualname, name, init))
        if UNKNOWN in got:
            raise AnalysisError("%s: %s passes through an expression that cannot be folded (helper call?) before its use" % (fi.qualname, name))
        ck.ob(rule, fi, node if node is not None else fi.node, got == {init},
              "%s: the caller's value %s=%r reaches its use unchanged (a default may replace None only); got %s" % (what, name, init, sorted(map(repr, got))),
              construct="%s=%r preserved%s" % (name, init, "" if not other_env else " with " + ",".join("%s=%r" % kv for kv in sorted(other_env.items()))))
    return n


# ---------------------------------------------------------------------------


class Step:
    def __init__(self, op: str, node: ast.AST, detail: str = ""):
        self.op = op
        self.node = node
        self.detail = detail

    def __repr__(self):
        return "%s%s" % (self.op, ("(%s)" % self.detail) if self.detail else "")


def _defs_of(fn: ast.AST, name: str) -> List[Tuple[ast.AST, Optional[int], ast.AST]]:
    """(statement, tuple position or None, value expr) for every binding of local ``name`` (assignments, for targets)."""
    out = []
    for n in q.walk_body(fn):
        if isinstance(n, ast.Assign):
            for t in n.targets:
                if isinstance(t, ast.Name) and t.id == name:
                    out.append((n, None, n.value))
                elif isinstance(t, (ast.Tuple, ast.List)):
                    for i, e in enumerate(t.elts):
                        if isinstance(e, ast.Name) and e.id == name:
                            out.append((n, i, n.value))
        elif isinstance(n, ast.AnnAssign) and isinstance(n.target, ast.Name) and n.target.id == name and n.value is not None:
            out.append((n, None, n.value))
        elif isinstance(n, ast.AugAssign) and isinstance(n.target, ast.Name) and n.target.id == name:
            out.append((n, None, n))
        elif isinstance(n, (ast.For, ast.AsyncFor)):
            t = n.target
            if isinstance(t, ast.Name) and t.id == name:
                out.append((n, "iter", n.iter))
            elif isinstance(t, (ast.Tuple, ast.List)):
                for i, e in enumerate(t.elts):
                    if isinstance(e, ast.Name) and e.id == name:
                        out.append((n, ("iter", i), n.iter))
    return out


def derivation(fi: FuncInfo, expr: ast.AST, is_source: Callable[[ast.AST], bool], max_depth: int = 12) -> List[List[Step]]:
    """All backward chains from ``expr`` to a source: each chain is the list of operations applied (outermost first).
    Constants terminate a chain with a ``const`` step.  Anything not understood yields a step ``?``."""
    fn = fi.node
    params = set(fi.params())
    chains: List[List[Step]] = []

    def go(e, acc, depth, seen):
        if depth > max_depth:
            chains.append(acc + [Step("?", e, "too deep")])
            return
        if is_source(e):
            chains.append(acc + [Step("source", e, q.unparse(e))])
            return
        if isinstance(e, ast.Constant):
            chains.append(acc + [Step("const", e, repr(e.value))])
            return
        if isinstance(e, ast.Name):
            ds = _defs_of(fn, e.id)
            if not ds:
                chains.append(acc + [Step("param" if e.id in params else "free", e, e.id)])
                return
            for st, pos, val in ds:
                key = (id(st), e.id)
                if key in seen:
                    continue
                step = []
                if isinstance(st, ast.AugAssign):
                    chains.append(acc + [Step("augassign", st, q.unparse(st))])
                    continue
                if pos is not None:
                    step = [Step("unpack", st, str(pos))]
                go(val, acc + step, depth + 1, seen | {key})
            return
        if isinstance(e, ast.Call):
            if isinstance(e.func, ast.Attribute):
                kw = {k.arg: k.value for k in e.keywords if k.arg}
                pos = list(e.args)
                order = {"split": ("sep", "maxsplit"), "rsplit": ("sep", "maxsplit"), "partition": ("sep",), "rpartition": ("sep",), "lstrip": ("chars",), "rstrip": ("chars",), "strip": ("chars",),
                         "replace": ("old", "new", "count")}.get(e.func.attr, ())
                for nm_ in order[len(pos):]:
                    if nm_ in kw:
                        pos.append(kw.pop(nm_))
                    else:
                        break
                args = ", ".join([q.unparse(a) for a in pos] + ["%s=%s" % (k_, q.unparse(v_)) for k_, v_ in sorted(kw.items())])
                recv = q.dotted(e.func.value)
                if recv is not None and recv.split(".")[0] in ("self", "cls", "escape", "urllib", "httputil", "os") and len(e.args) == 1 and not e.keywords:
                    # a helper function/method applied to the argument (data flows through the argument, not the receiver)
                    go(e.args[0], acc + [Step(recv + "." + e.func.attr + "()", e)], depth + 1, seen)
                    return
                go(e.func.value, acc + [Step("." + e.func.attr, e, args)], depth + 1, seen)
                return
            if isinstance(e.func, ast.Name) and len(e.args) == 1 and not e.keywords:
                go(e.args[0], acc + [Step(e.func.id + "()", e)], depth + 1, seen)
                return
            chains.append(acc + [Step("?", e, q.unparse(e))])
            return
        if isinstance(e, ast.Subscript):
            go(e.value, acc + [Step("[]", e, q.unparse(e.slice))], depth + 1, seen)
            return
        if isinstance(e, ast.IfExp):
            go(e.body, acc + [Step("ifexp", e)], depth + 1, seen)
            go(e.orelse, acc + [Step("ifexp", e)], depth + 1, seen)
            return
        chains.append(acc + [Step("?", e, q.unparse(e))])

    go(expr, [], 0, frozenset())
    return chains


def check_exact(ck, rule: str, fi: FuncInfo, expr: ast.AST, is_source, allowed: Callable[[Step], bool], what: str, resolve_helper: Optional[Callable[[str], Optional[FuncInfo]]] = None, node=None) -> int:
    """Obligation per derivation chain of ``expr``: every operation between the source and the consumer is allowed
    (slicing/partitioning only).  Same-module helpers are inlined through ``resolve_helper`` (single return expression)."""
    chains = derivation(fi, expr, is_source)
    n = 0
    for ch in chains:
        bad = []
        for st in ch:
            if st.op in ("source", "const", "ifexp"):
                continue
            if st.op == "?":
                raise AnalysisError("%s: cannot follow %s back to its source (%s)" % (fi.qualname, q.unparse(expr), st.detail))
            if st.op in ("param", "free"):
                raise AnalysisError("%s: %s derives from %s, which is not the expected source" % (fi.qualname, q.unparse(expr), st.detail))
            if allowed(st):
                continue
            if st.op.endswith("()") and resolve_helper is not None and "." in st.op:
                h = resolve_helper(st.op[:-2].split(".")[-1])
                if h is not None:
                    rets = [r for r in q.walk_body(h.node) if isinstance(r, ast.Return) and r.value is not None]
                    hp = [p for p in h.params() if p not in ("self", "cls")]
                    if len(rets) == 1 and len(hp) == 1:
                        sub = derivation(h, rets[0].value, lambda e: isinstance(e, ast.Name) and e.id == hp[0] and not _defs_of(h.node, hp[0]))
                        subbad = [x for c2 in sub for x in c2 if x.op not in ("source", "const", "ifexp") and not allowed(x)]
                        if not subbad:
                            continue
                        bad.append(Step(st.op + " -> " + repr(subbad[0]), st.node))
                        continue
                    raise AnalysisError("%s: helper %s is not a single-return function of one argument" % (fi.qualname, st.op))
            bad.append(st)
        n += 1
        ck.ob(rule, fi, node if node is not None else expr, not bad,
              "%s; chain: %s%s" % (what, " <- ".join(map(repr, ch)), ("; not value-preserving: " + ", ".join(map(repr, bad))) if bad else ""),
              construct="%s via %s" % (q.unparse(expr), " <- ".join(s_.op for s_ in ch)))
    return n


# ---------------------------------------------------------------------------
# local aliases, named booleans, finite-domain path evaluation (robustness against routine refactorings)


def _bindings(fn: ast.AST, name: str) -> int:
    """Number of binding sites of local ``name`` in fn (assignments of any kind, for/with targets, except-as, walrus)."""
    k = 0
    for n in q.walk_body(fn):
        if isinstance(n, (ast.Assign, ast.AugAssign, ast.AnnAssign, ast.For, ast.AsyncFor, ast.With, ast.AsyncWith, ast.NamedExpr, ast.ExceptHandler, ast.Delete, ast.Import, ast.ImportFrom)):
            if isinstance(n, ast.AnnAssign) and n.value is None:
                continue
            if isinstance(n, (ast.For, ast.AsyncFor)):
                if name in q.names_in(n.target):
                    k += 1
                continue
            if isinstance(n, (ast.With, ast.AsyncWith)):
                if any(it.optional_vars is not None and name in q.names_in(it.optional_vars) for it in n.items):
                    k += 1
                continue
            if isinstance(n, ast.ExceptHandler):
                if n.name == name:
                    k += 1
                continue
            if isinstance(n, ast.NamedExpr):
                if isinstance(n.target, ast.Name) and n.target.id == name:
                    k += 1
                continue
            if name in {p for p in q.assigned_paths(n) if "." not in p and not p.endswith("[]")}:
                # assigned_paths walks nested statements too; count only the statement's own targets
                tg = n.targets if isinstance(n, ast.Assign) else ([n.target] if isinstance(n, (ast.AugAssign, ast.AnnAssign)) else getattr(n, "targets", []))
                if any(name in q.names_in(t) and not isinstance(t, (ast.Attribute, ast.Subscript)) for t in tg):
                    k += 1
    return k


def unique_def(fi: FuncInfo, name: str) -> Optional[ast.AST]:
    """Value expression of the only binding ``name = <expr>`` of a local that is not a parameter; None otherwise."""
    if name in fi.params():
        return None
    if _bindings(fi.node, name) != 1:
        return None
    for n in q.walk_body(fi.node):
        if isinstance(n, ast.Assign) and len(n.targets) == 1 and isinstance(n.targets[0], ast.Name) and n.targets[0].id == name:
            return n.value
        if isinstance(n, ast.AnnAssign) and isinstance(n.target, ast.Name) and n.target.id == name and n.value is not None:
            return n.value
    return None


def resolve_local(fi: FuncInfo, e: ast.AST, depth: int = 6) -> ast.AST:
    while isinstance(e, ast.Name) and depth > 0:
        d = unique_def(fi, e.id)
        if d is None:
            return e
        e = d
        depth -= 1
    return e


def expand_locals(fi: FuncInfo, e: ast.AST, keep: Iterable[str] = (), depth: int = 6) -> ast.AST:
    """Copy of ``e`` with every local that has a unique simple definition replaced by that definition (recursively)."""
    import copy

    keep = set(keep)

    def go(x, d):
        class T(ast.NodeTransformer):
            def visit_Name(self, nm):
                if not isinstance(nm.ctx, ast.Load) or nm.id in keep or d <= 0:
                    return nm
                df = unique_def(fi, nm.id)
                if df is None:
                    return nm
                return go(copy.deepcopy(df), d - 1)

            def visit_Lambda(self, node):
                return node

        return T().visit(x)

    return go(copy.deepcopy(e), depth)


def expanded_facts(fi: FuncInfo, facts) -> Set[Tuple[str, bool]]:
    """Branch facts plus what they imply through named booleans: a fact on a local with a unique definition E is a fact
    on E; a true conjunction makes every conjunct true, a false disjunction makes every disjunct false."""
    from .cfg import canon_fact

    out = set(facts)
    work = list(facts)
    seen = set()
    while work:
        t, pol = work.pop()
        if (t, pol) in seen or t.startswith("@"):
            continue
        seen.add((t, pol))
        try:
            e = ast.parse(t, mode="eval").body
        except SyntaxError:
            continue
        new = []
        if isinstance(e, ast.Name):
            d = unique_def(fi, e.id)
            if d is not None:
                new.append(canon_fact(d, pol))
        if isinstance(e, ast.BoolOp):
            if isinstance(e.op, ast.And) and pol:
                new.extend(canon_fact(v, True) for v in e.values)
            if isinstance(e.op, ast.Or) and not pol:
                new.extend(canon_fact(v, False) for v in e.values)
        if isinstance(e, ast.UnaryOp) and isinstance(e.op, ast.Not):
            new.append(canon_fact(e.operand, not pol))
        for f in new:
            if f not in out:
                out.add(f)
            work.append(f)
    return out


def concrete_paths(fi: FuncInfo, init_env: Dict[str, object], event: Callable, subst: Optional[Callable[[ast.AST], ast.AST]] = None, follow_exc: bool = False,
                   cfg=None, cut: Optional[Callable] = None, event_env: bool = False, assign_hook: Optional[Callable] = None) -> Set[Tuple[str, Tuple[str, ...]]]:
    """Finite-domain evaluation of a function on its CFG for ONE concrete environment: assignments of foldable expressions
    to simple locals update the environment (named booleans, aliases), branch conditions that fold prune the other edge,
    everything else forks.  ``event(node)`` names an event (or None); returns {(exit kind, event sequence)} over all
    feasible paths ('return' / 'raise')."""
    cfg = cfg or fi.cfg
    sub = subst or (lambda e: e)

    def fold_(e, env):
        return _hashable(q.fold(sub(e), env))

    raised = set()

    def transfer(n, val):
        env_t, trace = val
        if cut is not None and cut(n, trace):
            raised.add(("cut", trace))
            return None
        ev = event(n, dict(env_t)) if event_env else event(n)
        if ev is not None:
            trace = trace + (ev,)
        if n.kind == "stmt" and isinstance(n.ast, ast.Raise):
            raised.add(("raise", trace))
        if assign_hook is not None:
            forced = assign_hook(n, dict(env_t))
            if forced is not None:
                return (tuple(sorted(_hashable_env(forced).items(), key=lambda kv: kv[0])), trace)
        if n.kind == "stmt" and isinstance(n.ast, (ast.Assign, ast.AnnAssign, ast.AugAssign)):
            env = dict(env_t)
            st = n.ast
            tg = st.targets if isinstance(st, ast.Assign) else [st.target]
            changed = False
            for t in tg:
                for nm in q.names_in(t) if not isinstance(t, (ast.Attribute, ast.Subscript)) else ():
                    if isinstance(st, (ast.Assign, ast.AnnAssign)) and isinstance(t, ast.Name) and st.value is not None:
                        try:
                            v = fold_(st.value, env)
                            hash(v)
                            env[nm] = v
                        except Exception:
                            env.pop(nm, None)
                    else:
                        env.pop(nm, None)
                    changed = True
            if changed:
                env_t = tuple(sorted(env.items(), key=lambda kv: kv[0]))
        elif n.kind == "for":
            env = dict(env_t)
            for nm in q.names_in(n.ast.target):
                env.pop(nm, None)
            env_t = tuple(sorted(env.items(), key=lambda kv: kv[0]))
        return (env_t, trace)

    def edge(n, kind, val):
        if n.kind == "test" and kind in ("true", "false"):
            try:
                truth = bool(q.fold(sub(n.ast), dict(val[0])))
            except Exception:
                return val
            if truth != (kind == "true"):
                return None
        return val

    init = (tuple(sorted(_hashable_env(init_env).items(), key=lambda kv: kv[0])), ())
    seen = explore(cfg, init, transfer, lambda t: False, edge_transfer=edge, follow_exc=follow_exc, exc_effect=False)
    out = set()
    for _f, (env_t, trace) in seen.get(cfg.exit.id, ()):
        out.add(("return", trace))
    if follow_exc:
        for _f, (env_t, trace) in seen.get(cfg.rexit.id, ()):
            out.add(("raise", trace))
    out |= raised
    return out


def _hashable_env(env):
    return {k: _hashable(v) for k, v in env.items()}


def protected(pm, node: ast.AST, exc: str, stop: Optional[ast.AST] = None):
    """Like q.protected_by, but also recognises ``with contextlib.suppress(E, ...):`` around the node.  Returns the
    handler / the With node (truthy) or None."""
    h = q.protected_by(pm, node, exc, stop)
    if h is not None:
        return h
    # builtin OSError subclasses the frozen hierarchy of q does not list: a handler for a base class catches them too
    _EXTRA_PARENT = {"BlockingIOError": "OSError", "ChildProcessError": "OSError", "InterruptedError": "OSError", "FileNotFoundError": "OSError", "BrokenPipeError": "ConnectionError",
                     "PermissionError": "OSError", "ProcessLookupError": "OSError"}
    if exc in _EXTRA_PARENT and exc not in q.EXC_PARENT:
        h = protected(pm, node, _EXTRA_PARENT[exc], stop)
        if h is not None:
            return h
    child = node
    for a in q.ancestors(pm, node):
        if a is stop or isinstance(a, q.ScopeNode):
            break
        if isinstance(a, (ast.With, ast.AsyncWith)) and any(child is s for s in a.body):
            for it in a.items:
                c = it.context_expr
                if isinstance(c, ast.Call) and (q.dotted(c.func) or "").split(".")[-1] == "suppress":
                    names = [q.dotted(x) or q.unparse(x) for x in c.args]
                    if q.exc_is_caught(exc, names):
                        return a
        child = a
    return None
