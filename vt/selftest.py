"""Engine self-test run by MANIFEST.setup_cmd (offline, stdlib only)."""
from __future__ import annotations

import ast
import os
import sys

HERE = os.path.dirname(os.path.abspath(__file__))
sys.path.insert(0, os.path.dirname(HERE))

from vt import cfg as C  # noqa: E402
from vt import q  # noqa: E402

SRC = '''
def f(self, x):
    flag = False
    try:
        if x and not self.done():
            flag = True
            self.a()
        while x:
            x = self.step(x)
            if x is None:
                break
        else:
            self.b()
        return 1
    except ValueError:
        self.c()
    finally:
        if flag:
            self.d()
    return 2
'''


def main() -> int:
    fn = ast.parse(SRC).body[0]
    g = C.build(fn)
    facts = C.must_facts(g)
    # self.a() is guarded by x and not self.done()
    a = [n for n in g.stmt_nodes() if n.kind == "stmt" and "self.a()" in q.unparse(n.ast)][0]
    assert C.holds(facts[a.id], "self.done()", False), facts[a.id]
    assert C.holds(facts[a.id], "x", True)
    # the finally body is duplicated for return / exception / fallthrough
    ds = [n for n in g.stmt_nodes() if n.kind == "stmt" and "self.d()" in q.unparse(n.ast)]
    assert len(ds) >= 3, ds
    # every path to either exit passes the test of `flag`
    tests = [n for n in g.stmt_nodes() if n.kind == "test" and q.unparse(n.ast) == "flag"]
    assert len(tests) >= 3
    assert g.pred[g.exit.id] and g.pred[g.rexit.id]
    # fold
    assert q.truth_set(ast.parse("c in (204, 304) or 100 <= c < 200", mode="eval").body, "c", range(100, 600)) == set(range(100, 200)) | {204, 304}
    n_extra = extra()
    print("vt selftest ok: %d cfg nodes, %d further engine assertions" % (len(g.nodes), n_extra))
    return 0


SRC2 = '''
async def g(self, fut):
    if self.closed:
        return
    await self.flush()
    self.write(b"x")

def h(self, fut):
    if not fut.done():
        fut.set_result(1)

def h_bad(self, fut):
    if not fut.done():
        self.log()
    fut.set_result(1)

def k(self):
    if self.state is None:
        return
    gen_log.info(self.other)
    self.state.go()

def k_killed(self):
    if self.state is None:
        return
    self.reset(self.state)
    self.state.go()
'''


def extra() -> int:
    """Both-way examples for the shared engines: each rule shape must hold on the
    positive example and must NOT hold on the negative twin."""
    from vt import rx as R
    n = 0
    mod = ast.parse(SRC2)
    fns = {f.name: f for f in mod.body}

    def facts_at_call(fname, text):
        cg = C.build(fns[fname])
        fa = C.must_facts(cg)
        node = [x for x in cg.stmt_nodes() if x.kind == "stmt" and text in q.unparse(x.ast)][-1]
        return fa[node.id]

    # an attribute fact does not survive an await (another coroutine may change it)
    assert not C.holds(facts_at_call("g", "self.write"), "self.closed", False); n += 1
    # guard dominance: positive / negative twin
    assert C.holds(facts_at_call("h", "set_result"), "fut.done()", False); n += 1
    assert not C.holds(facts_at_call("h_bad", "set_result"), "fut.done()", False); n += 1
    # a fact about self.state survives a call on an unrelated object, dies when the path is passed away
    # (a method call on self itself also kills it: the callee may rebind the attribute)
    assert C.holds(facts_at_call("k", "self.state.go"), "self.state is None", False); n += 1
    assert not C.holds(facts_at_call("k_killed", "self.state.go"), "self.state is None", False); n += 1
    # canonical polarity: `x is not None` true == `x is None` false
    e1 = ast.parse("x is not None", mode="eval").body
    e2 = ast.parse("x is None", mode="eval").body
    assert C.canon_fact(e1, True) == C.canon_fact(e2, False); n += 1
    # regex automata: equivalence is about the language, not the text
    a = R.Rx.from_pattern(r"[0-9]+"); b = R.Rx.from_pattern(r"[0-9][0-9]*"); c = R.Rx.from_pattern(r"[0-9]*")
    assert a.equivalent(b); n += 1
    assert not a.equivalent(c) and a.subset_of(c) and not c.subset_of(a); n += 1
    assert c.witness_not_in(a) == ""; n += 1
    assert R.Rx.from_pattern(r"[^\r\n]*").excludes_symbols([13, 10]); n += 1
    assert not R.Rx.from_pattern(r"[^\r]*").excludes_symbols([13, 10]); n += 1
    assert R.Rx.from_pattern(rb"[0-9a-fA-F]{1,8}").max_length() == 8; n += 1
    assert R.Rx.from_pattern(r"x+").max_length() is None; n += 1
    # match mode: `$` admits a trailing newline, \\Z does not
    m1 = R.Rx.from_pattern(r"[0-9]+$", mode="match"); m2 = R.Rx.from_pattern(r"[0-9]+\Z", mode="match")
    assert m1.accepts("12\n") and not m2.accepts("12\n"); n += 1
    # finite-domain folding of predicates
    te = ast.parse("not (c < 200 or c in (204, 304))", mode="eval").body
    assert q.truth_set(te, "c", range(100, 600)) == set(range(200, 600)) - {204, 304}; n += 1
    return n


if __name__ == "__main__":
    sys.exit(main())
