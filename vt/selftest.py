"""Engine self-test run by MANIFEST.setup_cmd (offline, stdlib only)."""
from __future__ import annotations

import ast
import os
import sys

HERE = os.path.dirname(os.path.abspath(__file__))
sys.path.insert(0, os.path.dirname(HERE))

from vt import cfg as C  # noqa: E402
from vt import q  # noqa: E402

SRC = '''
def f(self, x):
    flag = False
    try:
        if x and not self.done():
            flag = True
            self.a()
        while x:
            x = self.step(x)
            if x is None:
                break
        else:
            self.b()
        return 1
    except ValueError:
        self.c()
    finally:
        if flag:
            self.d()
    return 2
'''


def main() -> int:
    fn = ast.parse(SRC).body[0]
    g = C.build(fn)
    facts = C.must_facts(g)
    # self.a() is guarded by x and not self.done()
    a = [n for n in g.stmt_nodes() if n.kind == "stmt" and "self.a()" in q.unparse(n.ast)][0]
    assert C.holds(facts[a.id], "self.done()", False), facts[a.id]
    assert C.holds(facts[a.id], "x", True)
    # the finally body is duplicated for return / exception / fallthrough
    ds = [n for n in g.stmt_nodes() if n.kind == "stmt" and "self.d()" in q.unparse(n.ast)]
    assert len(ds) >= 3, ds
    # every path to either exit passes the test of `flag`
    tests = [n for n in g.stmt_nodes() if n.kind == "test" and q.unparse(n.ast) == "flag"]
    assert len(tests) >= 3
    assert g.pred[g.exit.id] and g.pred[g.rexit.id]
    # fold
    assert q.truth_set(ast.parse("c in (204, 304) or 100 <= c < 200", mode="eval").body, "c", range(100, 600)) == set(range(100, 200)) | {204, 304}
    print("vt selftest ok: %d cfg nodes" % len(g.nodes))
    return 0


if __name__ == "__main__":
    sys.exit(main())
