"""Driver: ./check <ID>|all [--tier quick|thorough] [--root /repo] [--list]

Exit 0: every obligation discharged (known findings are printed as
KNOWN-FINDING lines).  Exit 1: at least one ``VIOLATION property=<id>
replay=<path>`` line.  Exit 2: ``ANALYSIS-ERROR`` (the analysis could not
decide: anchor vanished, unknown idiom, instance floor not met, internal error).
"""
from __future__ import annotations

import argparse
import importlib
import os
import sys
import traceback

HERE = os.path.dirname(os.path.abspath(__file__))
sys.path.insert(0, os.path.dirname(HERE))

from vt.model import AnalysisError, Repo  # noqa: E402
from vt.report import Check  # noqa: E402
from vt.mutate import MutantNotApplicable  # noqa: E402


def load(pid: str):
    return importlib.import_module("vt.props.%s" % pid.lower())


def run_rules(mod, pid: str, repo: Repo, tier: str, quiet: bool) -> Check:
    ck = Check(pid, repo, tier, quiet=quiet)
    ck.explanation = getattr(mod, "EXPLANATION", "")
    ck.na_part = getattr(mod, "NOT_DECIDED", "")
    mod.run(ck)
    return ck


def run_mutants(mod, ck: Check, repo: Repo):
    """Thorough tier: every seeded in-memory mutant of the *current* tree must be
    reported by the rule that governs it (checker self-test, both directions:
    the unmodified tree's verdict is the quick result above)."""
    base_keys = {v.key for v in ck.violations}
    for m in getattr(mod, "MUTANTS", []):
        name, make = m[0], m[1]
        want = m[2] if len(m) > 2 else None
        rec = {"name": name, "expect_rule": want, "caught": False, "status": ""}
        try:
            mrepo = make(repo)
        except (MutantNotApplicable, AnalysisError) as e:
            rec["status"] = "not-applicable: %s" % e
            rec["caught"] = True  # not counted as missed: the anchor is gone on this tree
            ck.mutants.append(rec)
            continue
        sub = Check(ck.pid, mrepo, "thorough", quiet=True)
        try:
            mod.run(sub)
            newv = [v for v in sub.violations if v.key not in base_keys]
            hit = [v for v in newv if want is None or v.rule == want or (isinstance(want, (tuple, list, set)) and v.rule in want)]
            rec["caught"] = bool(hit)
            rec["status"] = "reported: " + "; ".join("%s@%s:%s" % (v.rule, v.func, v.line) for v in (hit or newv)[:3]) if (hit or newv) else "silent"
        except AnalysisError as e:
            # fail-closed also counts as noticed (the checker did not pass the mutant)
            rec["caught"] = True
            rec["status"] = "analysis-error: %s" % e
        ck.mutants.append(rec)


def main(argv=None) -> int:
    ap = argparse.ArgumentParser()
    ap.add_argument("pid")
    ap.add_argument("--tier", default=os.environ.get("VERIF_TIER", "quick"), choices=["quick", "thorough"])
    ap.add_argument("--root", default=os.environ.get("VERIF_ROOT", "/repo"))
    ap.add_argument("--no-mutants", action="store_true")
    args = ap.parse_args(argv)
    pids = [args.pid.upper()]
    if args.pid.lower() == "all":
        pids = sorted(f[:-3].upper() for f in os.listdir(os.path.join(HERE, "props")) if f.startswith("c") and f.endswith(".py"))
    worst = 0
    try:
        repo = Repo(args.root)
    except AnalysisError as e:
        for pid in pids:
            print("ANALYSIS-ERROR property=%s %s" % (pid, e))
        return 2
    for pid in pids:
        ck = None
        try:
            mod = load(pid)
            ck = Check(pid, repo, args.tier)
            ck.explanation = getattr(mod, "EXPLANATION", "")
            ck.na_part = getattr(mod, "NOT_DECIDED", "")
            mod.run(ck)
            if args.tier == "thorough" and not args.no_mutants:
                run_mutants(mod, ck, repo)
            code = ck.finish()
        except AnalysisError as e:
            code = (ck or Check(pid, repo, args.tier)).finish(error=str(e))
        except Exception as e:  # internal error: never let a traceback look like a violation
            tb = traceback.format_exc()
            sys.stderr.write(tb)
            code = (ck or Check(pid, repo, args.tier)).finish(error="internal error: %r" % (e,))
        worst = max(worst, code)
    return worst


if __name__ == "__main__":
    sys.exit(main())
