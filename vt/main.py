"""Driver: ./check <ID>|all [--tier quick|thorough] [--root /repo] [--list]

Exit 0: every obligation discharged (known findings are printed as
KNOWN-FINDING lines).  Exit 1: at least one ``VIOLATION property=<id>
replay=<path>`` line.  Exit 2: ``ANALYSIS-ERROR`` (the analysis could not
decide: anchor vanished, unknown idiom, instance floor not met, internal error).
"""
from __future__ import annotations

import argparse
import importlib
import os
import sys
import traceback

HERE = os.path.dirname(os.path.abspath(__file__))
sys.path.insert(0, os.path.dirname(HERE))

from vt.model import AnalysisError, Repo  # noqa: E402
from vt.report import Check  # noqa: E402
from vt.mutate import MutantNotApplicable  # noqa: E402


def load(pid: str):
    return importlib.import_module("vt.props.%s" % pid.lower())


def run_rules(mod, pid: str, repo: Repo, tier: str, quiet: bool) -> Check:
    ck = Check(pid, repo, tier, quiet=quiet)
    ck.explanation = getattr(mod, "EXPLANATION", "")
    ck.na_part = getattr(mod, "NOT_DECIDED", "")
    mod.run(ck)
    return ck


def run_mutants(mod, ck: Check, repo: Repo):
    """Thorough tier: every seeded in-memory mutant of the *current* tree must be
    reported by the rule that governs it (checker self-test, both directions:
    the unmodified tree's verdict is the quick result above)."""
    base_keys = {v.key for v in ck.violations}
    for m in getattr(mod, "MUTANTS", []):
        name, make = m[0], m[1]
        want = m[2] if len(m) > 2 else None
        rec = {"name": name, "expect_rule": want, "caught": False, "status": ""}
        try:
            mrepo = make(repo)
        except (MutantNotApplicable, AnalysisError) as e:
            rec["status"] = "not-applicable: %s" % e
            rec["caught"] = True  # not counted as missed: the anchor is gone on this tree
            ck.mutants.append(rec)
            continue
        sub = Check(ck.pid, mrepo, "thorough", quiet=True)
        try:
            mod.run(sub)
            newv = [v for v in sub.violations if v.key not in base_keys]
            hit = [v for v in newv if want is None or v.rule == want or (isinstance(want, (tuple, list, set)) and v.rule in want)]
            rec["caught"] = bool(hit)
            rec["status"] = "reported: " + "; ".join("%s@%s:%s" % (v.rule, v.func, v.line) for v in (hit or newv)[:3]) if (hit or newv) else "silent"
        except AnalysisError as e:
            # fail-closed also counts as noticed (the checker did not pass the mutant); a violation
            # recorded before the undecidable site stands
            newv = [v for v in sub.violations if v.key not in base_keys]
            rec["caught"] = True
            rec["status"] = ("reported: " + "; ".join("%s@%s:%s" % (v.rule, v.func, v.line) for v in newv[:3])) if newv else "analysis-error: %s" % e
        ck.mutants.append(rec)


def run_seeded(mod, ck: Check, repo: Repo):
    """Thorough tier: apply every kept red-team change for this property
    (/verif/seeded/<name>/patch.diff, written by sub-agents that saw only the
    property text) to a scratch copy of the *current* tornado package and run the
    same rules on it.  Results go to the evidence; a miss is printed, never hidden.
    The scratch copy is removed immediately; /repo is not touched."""
    import json
    import shutil
    import subprocess
    import tempfile

    sd = os.path.join(os.path.dirname(HERE), "seeded")
    if not os.path.isdir(sd):
        return
    base_keys = {v.key for v in ck.violations}
    for name in sorted(os.listdir(sd)):
        d = os.path.join(sd, name)
        mf = os.path.join(d, "meta.json")
        if not (os.path.isfile(mf) and os.path.isfile(os.path.join(d, "patch.diff"))):
            continue
        try:
            meta = json.load(open(mf))
        except Exception:
            continue
        if (meta.get("breaks_property") or meta.get("property")) != ck.pid or meta.get("kind") == "refactor":
            continue
        rec = {"name": "seeded/" + name, "expect_rule": None, "caught": False, "status": ""}
        tmp = tempfile.mkdtemp(prefix="vt-seeded-")
        try:
            shutil.copytree(os.path.join(repo.root, "tornado"), os.path.join(tmp, "tornado"), ignore=shutil.ignore_patterns("__pycache__", "*.so", "test"))
            p = subprocess.run(["patch", "-p1", "-s", "-d", tmp, "-i", os.path.join(d, "patch.diff")], stdout=subprocess.PIPE, stderr=subprocess.STDOUT, text=True)
            if p.returncode != 0:
                rec["status"] = "not-applicable: patch does not apply to this tree"
                rec["caught"] = True
            else:
                sub = Check(ck.pid, Repo(tmp), "thorough", quiet=True)
                try:
                    mod.run(sub)
                    newv = [v for v in sub.violations if v.key not in base_keys]
                    rec["caught"] = bool(newv)
                    rec["status"] = ("reported: " + "; ".join("%s@%s" % (v.rule, v.func) for v in newv[:3])) if newv else "silent"
                except AnalysisError as e:
                    newv = [v for v in sub.violations if v.key not in base_keys]
                    rec["caught"] = True
                    rec["status"] = ("reported: " + "; ".join("%s@%s" % (v.rule, v.func) for v in newv[:3])) if newv else "analysis-error: %s" % e
        finally:
            shutil.rmtree(tmp, ignore_errors=True)
        ck.mutants.append(rec)


def main(argv=None) -> int:
    ap = argparse.ArgumentParser()
    ap.add_argument("pid")
    ap.add_argument("--tier", default=os.environ.get("VERIF_TIER", "quick"), choices=["quick", "thorough"])
    ap.add_argument("--root", default=os.environ.get("VERIF_ROOT", "/repo"))
    ap.add_argument("--no-mutants", action="store_true")
    args = ap.parse_args(argv)
    pids = [args.pid.upper()]
    if args.pid.lower() == "all":
        pids = sorted(f[:-3].upper() for f in os.listdir(os.path.join(HERE, "props")) if f.startswith("c") and f.endswith(".py"))
    worst = 0
    try:
        repo = Repo(args.root)
    except AnalysisError as e:
        for pid in pids:
            print("ANALYSIS-ERROR property=%s %s" % (pid, e))
        return 2
    for pid in pids:
        ck = None
        try:
            mod = load(pid)
            ck = Check(pid, repo, args.tier)
            ck.explanation = getattr(mod, "EXPLANATION", "")
            ck.na_part = getattr(mod, "NOT_DECIDED", "")
            mod.run(ck)
            if args.tier == "thorough" and not args.no_mutants:
                run_mutants(mod, ck, repo)
                run_seeded(mod, ck, repo)
            code = ck.finish()
        except AnalysisError as e:
            code = (ck or Check(pid, repo, args.tier)).finish(error=str(e))
        except Exception as e:  # internal error: never let a traceback look like a violation
            tb = traceback.format_exc()
            sys.stderr.write(tb)
            code = (ck or Check(pid, repo, args.tier)).finish(error="internal error: %r" % (e,))
        worst = max(worst, code)
    return worst


if __name__ == "__main__":
    sys.exit(main())
