# g8: self-audit harness (not a check): applies the ROUND7 checklist rewrites to whole modules in memory and runs C19-C22, C31, C32 on them.
# usage: /venv/bin/python -B vt/x_hygiene_audit.py [transform-substring ...] [CNN ...]
"""Self-audit: apply checklist transformations (behaviour preserving by construction) to whole modules in memory and run my checks."""
import sys, ast, copy, importlib, traceback
sys.path.insert(0, '/verif')
from vt.model import Repo, AnalysisError
from vt.report import Check
PIDS = {'C19': ['tornado/template.py'], 'C20': ['tornado/template.py', 'tornado/escape.py'], 'C21': ['tornado/escape.py'], 'C22': ['tornado/escape.py'],
        'C31': ['tornado/routing.py', 'tornado/util.py', 'tornado/web.py'], 'C32': ['tornado/httpserver.py', 'tornado/netutil.py', 'tornado/httputil.py']}

def leaves(body):
    return bool(body) and isinstance(body[-1], (ast.Return, ast.Raise, ast.Continue, ast.Break))

class SwapIfElse(ast.NodeTransformer):
    def visit_If(self, n):
        self.generic_visit(n)
        if n.orelse:
            return ast.copy_location(ast.If(test=ast.UnaryOp(op=ast.Not(), operand=n.test), body=n.orelse, orelse=n.body), n)
        return n

class FlattenElse(ast.NodeTransformer):
    def _blk(self, body):
        out = []
        for st in body:
            if isinstance(st, ast.If) and st.orelse and leaves(st.body):
                out.append(ast.copy_location(ast.If(test=st.test, body=st.body, orelse=[]), st))
                out.extend(self._blk(st.orelse))
            else:
                out.append(st)
        return out
    def generic_visit(self, n):
        super().generic_visit(n)
        for f in ('body', 'orelse', 'finalbody'):
            b = getattr(n, f, None)
            if isinstance(b, list) and b and isinstance(b[0], ast.stmt):
                setattr(n, f, self._blk(b))
        return n

class SplitAnd(ast.NodeTransformer):
    def visit_If(self, n):
        self.generic_visit(n)
        if not n.orelse and isinstance(n.test, ast.BoolOp) and isinstance(n.test.op, ast.And) and len(n.test.values) == 2:
            inner = ast.If(test=n.test.values[1], body=n.body, orelse=[])
            return ast.copy_location(ast.If(test=n.test.values[0], body=[ast.copy_location(inner, n)], orelse=[]), n)
        return n

class MergeNested(ast.NodeTransformer):
    def visit_If(self, n):
        self.generic_visit(n)
        if not n.orelse and len(n.body) == 1 and isinstance(n.body[0], ast.If) and not n.body[0].orelse:
            return ast.copy_location(ast.If(test=ast.BoolOp(op=ast.And(), values=[n.test, n.body[0].test]), body=n.body[0].body, orelse=[]), n)
        return n

class AugToPlain(ast.NodeTransformer):
    def visit_AugAssign(self, n):
        if isinstance(n.target, (ast.Name, ast.Attribute)) and isinstance(n.op, (ast.Add, ast.Sub, ast.BitOr)):
            load = copy.deepcopy(n.target); load.ctx = ast.Load()
            return ast.copy_location(ast.Assign(targets=[n.target], value=ast.BinOp(left=load, op=n.op, right=n.value)), n)
        return n

class NegCompare(ast.NodeTransformer):
    def visit_Compare(self, n):
        self.generic_visit(n)
        if len(n.ops) == 1 and isinstance(n.ops[0], (ast.NotEq, ast.IsNot, ast.NotIn)):
            pos = {ast.NotEq: ast.Eq, ast.IsNot: ast.Is, ast.NotIn: ast.In}[type(n.ops[0])]()
            return ast.copy_location(ast.UnaryOp(op=ast.Not(), operand=ast.Compare(left=n.left, ops=[pos], comparators=n.comparators)), n)
        return n

class DeMorgan(ast.NodeTransformer):
    def visit_If(self, n):
        self.generic_visit(n)
        t = n.test
        if isinstance(t, ast.BoolOp) and isinstance(t.op, ast.Or):
            n.test = ast.UnaryOp(op=ast.Not(), operand=ast.BoolOp(op=ast.And(), values=[ast.UnaryOp(op=ast.Not(), operand=v) for v in t.values]))
        return n

class ReturnViaLocal(ast.NodeTransformer):
    def __init__(self): self.k = 0
    def _blk(self, body):
        out = []
        for st in body:
            if isinstance(st, ast.Return) and st.value is not None and not isinstance(st.value, (ast.Name, ast.Constant)):
                self.k += 1
                nm = '_g8_result%d' % self.k
                out.append(ast.copy_location(ast.Assign(targets=[ast.Name(id=nm, ctx=ast.Store())], value=st.value), st))
                out.append(ast.copy_location(ast.Return(value=ast.Name(id=nm, ctx=ast.Load())), st))
            else:
                out.append(st)
        return out
    def generic_visit(self, n):
        super().generic_visit(n)
        for f in ('body', 'orelse', 'finalbody'):
            b = getattr(n, f, None)
            if isinstance(b, list) and b and isinstance(b[0], ast.stmt):
                setattr(n, f, self._blk(b))
        return n

class HoistConsts:
    """string/int/tuple literals used as comparison operands or call arguments inside functions -> module-level private names"""
    def apply(self, tree):
        consts = {}
        class T(ast.NodeTransformer):
            def __init__(s): s.depth = 0; s.nofmt = 0
            def visit_FunctionDef(s, n):
                s.depth += 1
                body0 = n.body[0] if n.body and isinstance(n.body[0], ast.Expr) and isinstance(n.body[0].value, ast.Constant) else None
                n.body = [body0] + [s.visit(x) for x in n.body[1:]] if body0 is not None else [s.visit(x) for x in n.body]
                s.depth -= 1
                return n
            visit_AsyncFunctionDef = visit_FunctionDef
            def visit_JoinedStr(s, n): return n
            def visit_arguments(s, n): return n
            def visit_Subscript(s, n):
                n.value = s.visit(n.value); return n   # keep literal indices
            def _name(s, v):
                key = repr(v)
                if key not in consts:
                    consts[key] = ('_G8_K%d' % len(consts), v)
                return ast.Name(id=consts[key][0], ctx=ast.Load())
            def visit_Compare(s, n):
                s.generic_visit(n)
                if s.depth:
                    n.comparators = [s._name(c.value) if isinstance(c, ast.Constant) and isinstance(c.value, (str, int)) and not isinstance(c.value, bool) else (s._name(tuple(e.value for e in c.elts)) if isinstance(c, ast.Tuple) and c.elts and all(isinstance(e, ast.Constant) and isinstance(e.value, str) for e in c.elts) else c) for c in n.comparators]
                return n
            def visit_Call(s, n):
                s.generic_visit(n)
                if s.depth and not (isinstance(n.func, ast.Attribute) and n.func.attr in ('format',)):
                    n.args = [s._name(a.value) if isinstance(a, ast.Constant) and isinstance(a.value, str) else a for a in n.args]
                return n
        tree = T().visit(tree)
        pre = [ast.Assign(targets=[ast.Name(id=nm, ctx=ast.Store())], value=(ast.Tuple(elts=[ast.Constant(value=x) for x in v], ctx=ast.Load()) if isinstance(v, tuple) else ast.Constant(value=v))) for nm, v in consts.values()]
        # after the imports / docstring
        i = 0
        while i < len(tree.body) and (isinstance(tree.body[i], (ast.Import, ast.ImportFrom)) or (isinstance(tree.body[i], ast.Expr) and isinstance(tree.body[i].value, ast.Constant))):
            i += 1
        tree.body[i:i] = pre
        return tree

class KeywordArgs:
    def apply(self, tree):
        funcs = {}
        for st in ast.walk(tree):
            if isinstance(st, ast.FunctionDef):
                funcs.setdefault(st.name, []).append(st)
        class T(ast.NodeTransformer):
            def visit_Call(s, n):
                s.generic_visit(n)
                nm = n.func.id if isinstance(n.func, ast.Name) else (n.func.attr if isinstance(n.func, ast.Attribute) and isinstance(n.func.value, ast.Name) and n.func.value.id == 'self' else None)
                if nm and len(funcs.get(nm, [])) == 1 and not any(isinstance(a, ast.Starred) for a in n.args):
                    fd = funcs[nm][0]
                    ps = [a.arg for a in fd.args.args]
                    if ps and ps[0] in ('self', 'cls') and isinstance(n.func, ast.Attribute): ps = ps[1:]
                    elif ps and ps[0] in ('self', 'cls'): return n
                    if fd.args.vararg or len(n.args) > len(ps) or len(n.args) < 2: return n
                    keep = 1
                    n.keywords = [ast.keyword(arg=ps[i], value=a) for i, a in enumerate(n.args) if i >= keep] + n.keywords
                    n.args = n.args[:keep]
                return n
        return T().visit(tree)

class TruthLen(ast.NodeTransformer):
    """`if not s:` on names known to be str in our files is risky; only rewrite `if x is None` <-> nothing. Skipped."""

class ExplainTest(ast.NodeTransformer):
    def __init__(self): self.k = 0
    def _blk(self, body):
        out = []
        for st in body:
            if isinstance(st, ast.If) and isinstance(st.test, (ast.Compare, ast.Attribute, ast.Call)):
                self.k += 1
                nm = '_g8_cond%d' % self.k
                out.append(ast.copy_location(ast.Assign(targets=[ast.Name(id=nm, ctx=ast.Store())], value=st.test), st))
                st.test = ast.Name(id=nm, ctx=ast.Load())
            out.append(st)
        return out
    def generic_visit(self, n):
        super().generic_visit(n)
        for f in ('body', 'orelse', 'finalbody'):
            b = getattr(n, f, None)
            if isinstance(b, list) and b and isinstance(b[0], ast.stmt):
                setattr(n, f, self._blk(b))
        return n

class SwapAdjacent(ast.NodeTransformer):
    """swap two adjacent plain assignments `a = <pure>; b = <pure>` with disjoint names and no calls"""
    def _pure(self, st):
        return isinstance(st, ast.Assign) and len(st.targets) == 1 and isinstance(st.targets[0], (ast.Name, ast.Attribute)) and not any(isinstance(x, (ast.Call, ast.Subscript, ast.Await, ast.Yield)) for x in ast.walk(st.value))
    def _names(self, st):
        return {ast.unparse(x) for x in ast.walk(st) if isinstance(x, (ast.Name, ast.Attribute))}
    def _blk(self, body):
        out = list(body); i = 0
        while i + 1 < len(out):
            a, b = out[i], out[i + 1]
            if self._pure(a) and self._pure(b):
                ta, tb = ast.unparse(a.targets[0]), ast.unparse(b.targets[0])
                if ta != tb and ta not in self._names(b) and tb not in self._names(a) and not any(n.startswith(ta + '.') or n.startswith(tb + '.') for n in self._names(a) | self._names(b)):
                    out[i], out[i + 1] = b, a; i += 2; continue
            i += 1
        return out
    def generic_visit(self, n):
        super().generic_visit(n)
        for f in ('body', 'orelse', 'finalbody'):
            b = getattr(n, f, None)
            if isinstance(b, list) and b and isinstance(b[0], ast.stmt):
                setattr(n, f, self._blk(b))
        return n

class JoinConcat(ast.NodeTransformer):
    """string concatenation chains that contain a str literal -> ''.join([...])"""
    def visit_BinOp(self, n):
        parts = []
        def flat(e):
            if isinstance(e, ast.BinOp) and isinstance(e.op, ast.Add): flat(e.left); flat(e.right)
            else: parts.append(e)
        if isinstance(n.op, ast.Add):
            flat(n)
            if len(parts) >= 2 and any(isinstance(p, ast.Constant) and isinstance(p.value, str) for p in parts) and not any(isinstance(p, ast.Constant) and not isinstance(p.value, str) for p in parts):
                parts2 = [self.visit(p) for p in parts]
                return ast.copy_location(ast.Call(func=ast.Attribute(value=ast.Constant(value=''), attr='join', ctx=ast.Load()), args=[ast.List(elts=parts2, ctx=ast.Load())], keywords=[]), n)
        self.generic_visit(n)
        return n

TRANSFORMS = {
    'explain-test': lambda t: ExplainTest().visit(t), 'swap-adjacent': lambda t: SwapAdjacent().visit(t), 'join-concat': lambda t: JoinConcat().visit(t),
    'swap-if-else': lambda t: SwapIfElse().visit(t), 'flatten-else': lambda t: FlattenElse().visit(t), 'split-and': lambda t: SplitAnd().visit(t),
    'merge-nested': lambda t: MergeNested().visit(t), 'aug-to-plain': lambda t: AugToPlain().visit(t), 'neg-compare': lambda t: NegCompare().visit(t),
    'de-morgan': lambda t: DeMorgan().visit(t), 'return-via-local': lambda t: ReturnViaLocal().visit(t), 'hoist-consts': lambda t: HoistConsts().apply(t), 'keyword-args': lambda t: KeywordArgs().apply(t),
}

def main():
    base = Repo('/repo')
    sel = sys.argv[1:]
    bad = 0
    for tname, tf in TRANSFORMS.items():
        if sel and not any(s in tname for s in sel if not s.startswith('C')): 
            if any(not s.startswith('C') for s in sel): continue
        for pid, rels in PIDS.items():
            if any(s.startswith('C') for s in sel) and pid not in sel: continue
            repo = base
            try:
                for rel in rels:
                    tree = tf(copy.deepcopy(base.module(rel).tree))
                    ast.fix_missing_locations(tree)
                    compile(tree, rel, 'exec')
                    repo = repo.with_module(rel, tree=tree)
            except Exception as e:
                print('TRANSFORM-FAILED', tname, pid, e); continue
            mod = importlib.import_module('vt.props.' + pid.lower())
            ck = Check(pid, repo, 'quick', quiet=True)
            err = None
            try:
                mod.run(ck)
            except AnalysisError as e:
                err = 'ANALYSIS-ERROR %s' % str(e)[:200]
            except Exception as e:
                err = 'INTERNAL %r %s' % (e, traceback.format_exc().splitlines()[-3:])
            vs = ['VIOLATION %s %s:%s %s' % (v.rule, v.func, v.line, v.message[:140]) for v in ck.violations]
            if vs or err:
                bad += 1
                print('%s / %s' % (tname, pid))
                for v in vs[:6]: print('    ' + v)
                if err: print('    ' + err)
    print('combinations with alarms: %d' % bad)
main()
