"""Regenerate section 10 of DESIGN.md (seeded corpus / refactoring corpus results) from seeded/RESULTS.json,
refactors/RESULTS.json and the meta.json files."""
import json, os, re, sys
VERIF = os.path.dirname(os.path.dirname(os.path.abspath(__file__)))
MARK = "\n## 10. Independent validation: seeded changes and refactorings\n"

def extra_rows():
    """Rows for corpora measured after this text was written: seeded/FIRST_MEASUREMENTS.json =
    [{"corpus":..., "kind":..., "first":..., "lesson":...}]"""
    p = os.path.join(VERIF, "seeded", "FIRST_MEASUREMENTS.json")
    if not os.path.exists(p):
        return ""
    return "\n".join("| %s | %s | %s | %s |" % (r["corpus"], r["kind"], r["first"], r.get("lesson", "")) for r in json.load(open(p)))


def main():
    out = [MARK]
    out.append("""Both corpora were written by sub-agents that were given **only the property records** (and their own
scratch git worktree of tornado); nothing from /verif.  The coordinator confirmed every kept change in a scratch
worktree of /repo's HEAD with `seeded/confirm.py`: the patch applies and compiles, the unedited test suite passes
with it (load-induced flakes of `autoreload_test`/`process_test` re-run alone), the demonstration fails with the
change and passes without it.  `seeded/run_seeded.py` and `seeded/run_refactors.py` apply each patch to a scratch
copy of /repo's `tornado/` (never to /repo) and run the registered checks with `--root <scratch>`; the thorough
tier of each check also runs the seeded changes of its property.

**Rounds.**  Round 1 (`*-adv1`, 47 kept): first measurement 9 caught / 5 fail-closed / 7 missed of the first 21;
the missed classes were turned into general rules (units of a size limit, refuse-before-mutate, truthiness where
0/empty is legal, byte-exact derivation, `.seconds` without `.days`, value computed from an already rounded value,
normaliser applied to more than the name, helper extraction dropping a comparand, ...).  Round 2 (`*-adv2`, red
team told to avoid round-1 mechanisms) measures generalisation: see the table; the first measurement of round 2,
before any rule was adapted to it, was 17 caught / 4 fail-closed / 2 missed of the first 23.  The refactoring corpus
(`refactors/`, 96 behaviour-preserving patches, two per property) measures false alarms: the first run was 27
silent of 96 (54 false VIOLATIONs, 33 fail-closed) and triggered the robustness round described in
`vt/ROUND3_ROBUSTNESS.md` (recognisers generalised: aliases, unpacking, helper inlining, module-level constants,
control-flow rewrites decided on the CFG instead of syntactic position).

**First measurements (before any rule was adapted to the new corpus).**  The loop "fresh independent corpus →
measure → send the misses / false alarms to the owner of the check → re-measure everything" was repeated until
the time ran out.  The first-measurement numbers are the honest estimate of how the checks behave on a change
they have never seen; the tables below show the state *after* adaptation.

| corpus | kind | first measurement | main lesson turned into rules |
|---|---|---|---|
| adv1 (47) | property-breaking | 9 caught, 5 fail-closed, 7 missed of the first 21 | see above |
| adv2 (47) | property-breaking, told to avoid adv1 mechanisms | 39 / 47 reported | sibling sites of the same mechanism, state reset on the error path |
| adv3 (46) | property-breaking, told to avoid adv1+2 | 24 reported, 4 fail-closed, 12 missed of the first 40 | value-flow into a sink through a renamed intermediate; ordering across an `await`; off-by-one on a bound |
| adv4 (46) | property-breaking, told to avoid adv1–3 | remaining misses repaired in round 6 (the coordinator's summaries of round 3 leaked into the prompt, so this number is not a clean measurement) | C29-adv4 dropped: judged outside the property as stated |
| refactors A+B (95) | behaviour-preserving | 27 / 96 silent | rules were matching syntax shapes; rewritten over facts/dominance/resolved names |
| refactors C (48) | behaviour-preserving, heavier (helper extraction, guard inversion) | 5 / 48 silent | helper inlining (`x_inline`), alias resolution (`x_resolve`), normal forms (`x_*norm`) |
| refactors D (48) | behaviour-preserving | 8 / 48 silent | comprehension/loop equivalence, early-return vs nested-if, temp variables |
| refactors E (48) | behaviour-preserving | about 41 / 48 silent | walrus, conditional expressions, `try/else` motion |
| refactors F (48) | "hygiene" edits a maintainer would make (De Morgan, renamed attributes' locals, reordered independent statements) | 29 / 48 silent (13 false VIOLATIONs, 6 fail-closed) | guards compared by truth table instead of text |
| refactors G (48) | hygiene edits, second sample | 38 / 48 silent (6 false VIOLATIONs, 4 fail-closed) | round 8 |
__EXTRA_ROWS__

A false VIOLATION on a behaviour-preserving patch is the worst outcome for this family and every one of them was
treated as a defect of the *rule* (made semantic or removed), never suppressed by listing the patch; a fail-closed
`ANALYSIS-ERROR` (exit 2) on a heavy refactoring is the designed behaviour when a recogniser no longer
understands the governed site, but each was still used to widen the recogniser.
""".replace("__EXTRA_ROWS__", extra_rows()))
    sr = os.path.join(VERIF, "seeded", "RESULTS.json")
    if os.path.exists(sr):
        res = json.load(open(sr))
        out.append("### Seeded changes (current results of `seeded/run_seeded.py`)\n")
        out.append("| seeded | property | what was changed | needs to manifest | result | reported by |")
        out.append("|---|---|---|---|---|---|")
        for r in sorted(res, key=lambda r: r["seeded"]):
            mf = os.path.join(VERIF, "seeded", r["seeded"], "meta.json")
            meta = json.load(open(mf)) if os.path.exists(mf) else {}
            rules = sorted(set(re.findall(r"rule (C\d+\.[\w.-]+)", r.get("detail", ""))))
            cut = lambda s: (str(s).replace("|", "/").replace("\n", " ")[:230])
            out.append("| %s | %s | %s | %s | %s | %s |" % (r["seeded"], r["property"], cut(meta.get("summary", "")), cut(meta.get("needs", "")), r["status"], ", ".join("`%s`" % x for x in rules[:4])))
        c = sum(r["status"] == "caught" for r in res)
        out.append("\n%d of %d seeded changes are reported as VIOLATION by the check of the property they break.\n" % (c, len(res)))
    rr = os.path.join(VERIF, "refactors", "RESULTS.json")
    if os.path.exists(rr):
        res = json.load(open(rr))
        sil = sum(r["status"] == "silent" for r in res)
        out.append("### Behaviour-preserving refactorings (current results of `seeded/run_refactors.py`)\n")
        out.append("%d of %d refactorings leave the checks silent (exit 0).  The run with all 48 checks on every patch "
                   "(`--all-checks`, about an hour) was last done after round 11: 431 / 431 silent; after the final round 12 every patch was "
                   "re-run with the checks whose evidence lists a function of a patched file (default mode), and the checks changed last "
                   "(C33-C39) were re-run on all patches.\n" % (sil, len(res)))
        bad = [r for r in res if r["status"] != "silent"]
        if bad:
            out.append("| refactoring | status | checks that alarm |")
            out.append("|---|---|---|")
            for r in bad:
                al = ", ".join("%s(%s)" % (m.group(1), "VIOLATION" if m.group(2) == "1" else "exit 2") for m in re.finditer(r"(C\d\d) rc=(\d)", r.get("detail", "")))
                out.append("| %s | %s | %s |" % (r["refactor"], r["status"], al or r.get("detail", "")[:80].replace("\n", " ")))
            out.append("")
    p = os.path.join(VERIF, "DESIGN.md")
    s = open(p).read()
    if MARK in s:
        s = s[: s.index(MARK)]
    open(p, "w").write(s.rstrip("\n") + "\n" + "\n".join(out) + "\n")
    print("DESIGN.md section 10 regenerated")

if __name__ == "__main__":
    main()
