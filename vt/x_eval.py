"""Exhaustive evaluation of small integer/None code regions over a finite domain.

DESIGN.md E2 folds *guard expressions* over a finite domain; this helper does
the same for short **statement regions** (if/elif/else, assignments, augmented
assignments, return, raise/assert, try/except by exception name) whose
variables range over ``None`` and small integers.  It is an abstract
interpreter over the AST — nothing of tornado is imported or executed, calls
are never performed: every ``Call`` goes to the ``call`` hook supplied by the
rule (which may record it as an event, inline another analysed function, or
refuse).  Anything outside the modelled subset raises AnalysisError (fail
closed), so a refactoring is never misread.

API
---
``Evaluator(call=None)``  — ``call(dotted_name, args, kwargs, node, ev)`` -> value
``ev.run(stmts, env)``    -> ("fall", env) | ("return", value) | ("raise", exc_name)
``ev.expr(e, env)``       -> value
``ev.call_function(fn_node, args)`` -> result of inlining a FunctionDef (positional args)

The result is exhaustive only for the enumerated domain; rules state the
domain in their obligation text.
"""
from __future__ import annotations

import ast
from typing import Callable, Dict, List, Optional, Tuple

from . import q
from .model import AnalysisError


class _Return(Exception):
    def __init__(self, value):
        self.value = value


class _Raise(Exception):
    def __init__(self, name):
        self.name = name


_BUILTINS = {"len": len, "int": int, "str": str, "min": min, "max": max, "abs": abs, "bool": bool, "range": range, "list": list, "tuple": tuple}


class Evaluator:
    LITERAL_METHODS = {"get", "startswith", "endswith", "lower", "upper", "strip", "keys", "values", "items", "index", "count", "__contains__", "format", "join"}

    def __init__(self, call: Optional[Callable] = None, max_steps: int = 2000, consts: Optional[Callable] = None):
        """``consts(dotted_name)`` -> AST of a module/class-level literal definition (or None); it is folded with
        ``ast.literal_eval`` semantics through this evaluator (no names)."""
        self.consts = consts
        self.call = call
        self.max_steps = max_steps
        self.steps = 0

    # -- expressions -----------------------------------------------------------
    def expr(self, e: ast.AST, env: Dict[str, object]):
        if isinstance(e, ast.Constant):
            return e.value
        if isinstance(e, (ast.Name, ast.Attribute)):
            d = q.dotted(e)
            if d is not None and d in env:
                return env[d]
            if d is not None and self.consts is not None:
                c = self.consts(d)
                if c is not None:
                    try:
                        return ast.literal_eval(c)
                    except (ValueError, SyntaxError):
                        pass
            raise AnalysisError("x_eval: unbound name %s" % (d or q.unparse(e)))
        if isinstance(e, (ast.Tuple, ast.List)):
            vals = [self.expr(x, env) for x in e.elts]
            return tuple(vals) if isinstance(e, ast.Tuple) else vals
        if isinstance(e, ast.BoolOp):
            if isinstance(e.op, ast.And):
                r = True
                for v in e.values:
                    r = self.expr(v, env)
                    if not r:
                        return r
                return r
            r = False
            for v in e.values:
                r = self.expr(v, env)
                if r:
                    return r
            return r
        if isinstance(e, ast.UnaryOp):
            v = self.expr(e.operand, env)
            try:
                if isinstance(e.op, ast.Not):
                    return not v
                if isinstance(e.op, ast.USub):
                    return -v
                if isinstance(e.op, ast.UAdd):
                    return +v
            except TypeError:
                raise _Raise("TypeError")
        if isinstance(e, ast.BinOp):
            a, b = self.expr(e.left, env), self.expr(e.right, env)
            try:
                if isinstance(e.op, ast.Add):
                    return a + b
                if isinstance(e.op, ast.Sub):
                    return a - b
                if isinstance(e.op, ast.Mult):
                    return a * b
                if isinstance(e.op, ast.FloorDiv):
                    return a // b
                if isinstance(e.op, ast.Mod):
                    return a % b
            except TypeError:
                raise _Raise("TypeError")
            except ZeroDivisionError:
                raise _Raise("ZeroDivisionError")
        if isinstance(e, ast.Compare):
            left = self.expr(e.left, env)
            for op, rhs in zip(e.ops, e.comparators):
                right = self.expr(rhs, env)
                try:
                    if isinstance(op, ast.Eq):
                        ok = left == right
                    elif isinstance(op, ast.NotEq):
                        ok = left != right
                    elif isinstance(op, ast.Lt):
                        ok = left < right
                    elif isinstance(op, ast.LtE):
                        ok = left <= right
                    elif isinstance(op, ast.Gt):
                        ok = left > right
                    elif isinstance(op, ast.GtE):
                        ok = left >= right
                    elif isinstance(op, ast.Is):
                        ok = left is right
                    elif isinstance(op, ast.IsNot):
                        ok = left is not right
                    elif isinstance(op, ast.In):
                        ok = left in right
                    elif isinstance(op, ast.NotIn):
                        ok = left not in right
                    else:
                        raise AnalysisError("x_eval: comparison %s" % type(op).__name__)
                except TypeError:
                    raise _Raise("TypeError")
                if not ok:
                    return False
                left = right
            return True
        if isinstance(e, ast.IfExp):
            return self.expr(e.body, env) if self.expr(e.test, env) else self.expr(e.orelse, env)
        if isinstance(e, ast.JoinedStr):
            out = ""
            for v in e.values:
                if isinstance(v, ast.Constant):
                    out += v.value
                elif isinstance(v, ast.FormattedValue) and v.format_spec is None and v.conversion == -1:
                    out += str(self.expr(v.value, env))
                else:
                    raise AnalysisError("x_eval: format spec in f-string")
            return out
        if isinstance(e, ast.Subscript):
            base = self.expr(e.value, env)
            try:
                if isinstance(e.slice, ast.Slice):
                    lo = self.expr(e.slice.lower, env) if e.slice.lower is not None else None
                    hi = self.expr(e.slice.upper, env) if e.slice.upper is not None else None
                    return base[lo:hi]
                return base[self.expr(e.slice, env)]
            except (IndexError, KeyError) as ex:
                raise _Raise(type(ex).__name__)
            except TypeError:
                raise _Raise("TypeError")
        if isinstance(e, ast.Call):
            d = q.dotted(e.func)
            args = [self.expr(a, env) for a in e.args]
            kwargs = {k.arg: self.expr(k.value, env) for k in e.keywords if k.arg}
            if isinstance(e.func, ast.Name) and d in _BUILTINS and d not in env:
                try:
                    return _BUILTINS[d](*args, **kwargs)
                except (TypeError, ValueError) as ex:
                    raise _Raise(type(ex).__name__)
            if isinstance(e.func, ast.Attribute) and e.func.attr in self.LITERAL_METHODS and not kwargs:
                try:
                    recv = self.expr(e.func.value, env)
                except AnalysisError:
                    recv = None
                if isinstance(recv, (dict, str, bytes, tuple, list, frozenset)) and all(isinstance(a, (str, bytes, int, type(None), tuple)) for a in args):
                    try:
                        return getattr(recv, e.func.attr)(*args)
                    except (TypeError, ValueError, KeyError, IndexError) as ex:
                        raise _Raise(type(ex).__name__)
            if self.call is not None:
                return self.call(d or q.unparse(e.func), args, kwargs, e, self)
            raise AnalysisError("x_eval: call %s is not modelled" % q.unparse(e.func))
        raise AnalysisError("x_eval: expression %s is not modelled" % q.unparse(e))

    # -- statements -------------------------------------------------------------
    def _assign(self, t: ast.AST, v, env):
        if isinstance(t, (ast.Name, ast.Attribute)):
            d = q.dotted(t)
            if d is None:
                raise AnalysisError("x_eval: assignment target %s" % q.unparse(t))
            env[d] = v
        elif isinstance(t, (ast.Tuple, ast.List)):
            try:
                vs = list(v)
            except TypeError:
                raise _Raise("TypeError")
            if len(vs) != len(t.elts):
                raise _Raise("ValueError")
            for x, y in zip(t.elts, vs):
                self._assign(x, y, env)
        else:
            raise AnalysisError("x_eval: assignment target %s" % q.unparse(t))

    def block(self, stmts: List[ast.stmt], env):
        for st in stmts:
            self.stmt(st, env)

    def stmt(self, st: ast.stmt, env):
        self.steps += 1
        if self.steps > self.max_steps:
            raise AnalysisError("x_eval: step budget exceeded")
        if isinstance(st, ast.Assign):
            v = self.expr(st.value, env)
            for t in st.targets:
                self._assign(t, v, env)
        elif isinstance(st, ast.AnnAssign):
            if st.value is not None:
                self._assign(st.target, self.expr(st.value, env), env)
        elif isinstance(st, ast.AugAssign):
            cur = self.expr(ast.copy_location(_load(st.target), st.target), env)
            v = self.expr(st.value, env)
            try:
                if isinstance(st.op, ast.Add):
                    r = cur + v
                elif isinstance(st.op, ast.Sub):
                    r = cur - v
                elif isinstance(st.op, ast.Mult):
                    r = cur * v
                else:
                    raise AnalysisError("x_eval: augmented operator %s" % type(st.op).__name__)
            except TypeError:
                raise _Raise("TypeError")
            self._assign(st.target, r, env)
        elif isinstance(st, ast.If):
            if self.expr(st.test, env):
                self.block(st.body, env)
            else:
                self.block(st.orelse, env)
        elif isinstance(st, ast.Return):
            raise _Return(self.expr(st.value, env) if st.value is not None else None)
        elif isinstance(st, ast.Pass):
            pass
        elif isinstance(st, ast.Expr):
            if isinstance(st.value, ast.Constant):
                return
            self.expr(st.value, env)
        elif isinstance(st, ast.Assert):
            if not self.expr(st.test, env):
                raise _Raise("AssertionError")
        elif isinstance(st, ast.Raise):
            nm = None
            if st.exc is not None:
                f = st.exc.func if isinstance(st.exc, ast.Call) else st.exc
                nm = q.dotted(f)
            raise _Raise(nm or "Exception")
        elif isinstance(st, ast.Try):
            if st.finalbody or st.orelse:
                raise AnalysisError("x_eval: try/else/finally")
            try:
                self.block(st.body, env)
            except _Raise as r:
                for h in st.handlers:
                    if q.exc_is_caught(r.name, q.handler_names(h)):
                        self.block(h.body, env)
                        return
                raise
        elif isinstance(st, ast.Delete):
            for t in st.targets:
                d = q.dotted(t)
                if d is None:
                    raise AnalysisError("x_eval: del %s" % q.unparse(t))
                env.pop(d, None)
        else:
            raise AnalysisError("x_eval: statement %s is not modelled" % type(st).__name__)

    def run(self, stmts: List[ast.stmt], env: Dict[str, object]) -> Tuple[str, object]:
        self.steps = 0
        try:
            self.block(stmts, env)
        except _Return as r:
            return ("return", r.value)
        except _Raise as r:
            return ("raise", r.name)
        return ("fall", env)

    def call_function(self, fn: ast.AST, args: List[object]):
        ps = [a.arg for a in fn.args.posonlyargs + fn.args.args]
        if len(args) != len(ps):
            raise AnalysisError("x_eval: arity mismatch inlining %s" % fn.name)
        env = dict(zip(ps, args))
        saved = self.steps
        try:
            try:
                self.block(fn.body, env)
            except _Return as r:
                return r.value
            return None
        finally:
            self.steps = saved + 1


def _load(t: ast.AST) -> ast.AST:
    import copy

    c = copy.deepcopy(t)
    for n in ast.walk(c):
        if hasattr(n, "ctx"):
            n.ctx = ast.Load()
    return c


class Opaque:
    """Result of a call the rule chose not to model; using it in arithmetic/comparisons raises TypeError -> AnalysisError upstream."""

    def __init__(self, what):
        self.what = what

    def __repr__(self):
        return "<opaque %s>" % self.what


def inline_call(repo, fi, name, args, kwargs, node, ev):
    """Hook helper: evaluate a call of a same-module / same-class helper by inlining its body (positional and keyword
    arguments, defaults folded).  Returns (True, value) or (False, None) when ``node`` is not such a call."""
    from .x_resolve import callee

    h = callee(repo, fi, node)
    if h is None or h.node is fi.node:
        return False, None
    a = h.node.args
    params = [x.arg for x in a.posonlyargs + a.args]
    is_static = any(q.dotted(d) == "staticmethod" for d in h.node.decorator_list)
    env = {}
    if h.cls is not None and not is_static and params and params[0] in ("self", "cls"):
        params = params[1:]
    if len(args) > len(params):
        raise AnalysisError("x_eval: too many arguments inlining %s" % h.qualname)
    env.update(zip(params, args))
    for k, v in kwargs.items():
        if k not in params:
            raise AnalysisError("x_eval: unknown keyword %s inlining %s" % (k, h.qualname))
        env[k] = v
    defaults = dict(zip(reversed([x.arg for x in a.posonlyargs + a.args]), reversed(a.defaults)))
    for p_ in params:
        if p_ not in env:
            if p_ in defaults:
                env[p_] = ev.expr(defaults[p_], {})
            else:
                raise AnalysisError("x_eval: missing argument %s inlining %s" % (p_, h.qualname))
    saved = ev.steps
    try:
        try:
            ev.block(h.node.body, env)
        except _Return as r:
            return True, r.value
        return True, None
    finally:
        ev.steps = saved + 1
