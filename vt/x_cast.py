"""x_cast — E8: the clang JSON AST of a C translation unit, plus a symbolic
byte-lane evaluator for integer expressions.

``load(path)`` runs ``clang -fsyntax-only -Xclang -ast-dump=json -I<python
include> <path>`` (nothing is compiled to code, nothing is executed) and returns
the TranslationUnitDecl as nested dicts.  The analysis walks *AST nodes*
(kinds, opcodes, referenced declarations, types); it never looks at source
text.  Missing clang / Python headers / a non-zero clang exit are
``AnalysisError`` (fail closed).

Byte lanes.  An integer value of W bytes is modelled as a tuple of W symbolic
bytes in *value order* (index 0 = least significant).  A load of W bytes from
memory maps memory lanes to value lanes according to the endianness under
which the expression is evaluated; every rule that uses lanes evaluates under
both endiannesses, so "type punning cancels" is checked, not assumed.
Symbolic bytes: ``0``; ``("m", k)`` k-th byte of the mask buffer; ``("d", o)``
byte at offset o from the current data pointer; ``("x", o, k)`` = d_o xor m_k;
``("i", name)`` a byte indexed by loop variable; ``JUNK`` anything else.
"""
from __future__ import annotations

import glob
import json
import os
import shutil
import subprocess
import sysconfig
from typing import Callable, Dict, Iterator, List, Optional, Tuple

from .model import AnalysisError

JUNK = "junk"


# ---------------------------------------------------------------------------
# running clang


def find_clang() -> str:
    for cand in [os.environ.get("VT_CLANG"), "clang"] + ["clang-%d" % v for v in range(20, 10, -1)]:
        if cand:
            p = shutil.which(cand)
            if p:
                return p
    raise AnalysisError("clang not found (needed for the JSON AST dump of speedups.c)")


def python_include() -> str:
    cands: List[str] = []
    if os.environ.get("VT_PY_INCLUDE"):
        cands.append(os.environ["VT_PY_INCLUDE"])
    for key in ("include", "platinclude"):
        try:
            cands.append(sysconfig.get_paths()[key])
        except Exception:
            pass
    v = sysconfig.get_config_var("INCLUDEPY")
    if v:
        cands.append(v)
    cands += sorted(glob.glob("/root/.pyenv/versions/3.*/include/python3.*"), reverse=True)
    cands += sorted(glob.glob("/usr/include/python3*"), reverse=True) + sorted(glob.glob("/usr/local/include/python3*"), reverse=True)
    for c in cands:
        if c and os.path.isfile(os.path.join(c, "Python.h")):
            return c
    raise AnalysisError("Python.h not found in any known include directory (needed to parse speedups.c)")


_CACHE: Dict[Tuple, dict] = {}


def load(path: str) -> dict:
    if not os.path.isfile(path):
        raise AnalysisError("C source %s not found" % path)
    stt = os.stat(path)
    key = (os.path.abspath(path), stt.st_mtime_ns, stt.st_size)
    if key in _CACHE:
        _register_typedefs(_CACHE[key])
        return _CACHE[key]
    tu = _load_disk_cached(path)
    _CACHE.clear()
    _CACHE[key] = tu
    return tu


_DISK = os.path.join(os.path.dirname(os.path.dirname(os.path.abspath(__file__))), ".cache", "cast")


def _reduce(tu: dict) -> dict:
    """Keep what the analyses use: functions defined in the unit, PyMethodDef tables, the typedef map."""
    keep = []
    for d in inner(tu):
        if kind(d) == "FunctionDecl" and any(kind(c) == "CompoundStmt" for c in inner(d)) and not d.get("isImplicit"):
            # header inline functions are kept too (cheap); analyses select by the method table
            keep.append(d)
        elif kind(d) == "VarDecl" and (d.get("type", {}).get("qualType", "")).startswith("PyMethodDef"):
            keep.append(d)
    tds = {}
    for d in inner(tu):
        if kind(d) == "TypedefDecl" and d.get("name"):
            t = d.get("type", {})
            tds[d["name"]] = t.get("desugaredQualType") or t.get("qualType") or ""
    return {"kind": "TranslationUnitDecl", "inner": keep, "typedefs": tds, "reduced": True}


def _load_disk_cached(path: str) -> dict:
    """The parsed (and reduced) AST is cached under /verif/.cache keyed by the SHA-256 of the C source,
    the include directory and the clang binary; any change of the source re-runs clang."""
    import hashlib
    import pickle

    try:
        with open(path, "rb") as f:
            src = f.read()
        cl, inc = find_clang(), python_include()
        st_c = os.stat(cl)
        st_h = os.stat(os.path.join(inc, "Python.h"))
        h = hashlib.sha256()
        for part in (src, cl.encode(), str((st_c.st_size, st_c.st_mtime_ns)).encode(), inc.encode(), str((st_h.st_size, st_h.st_mtime_ns)).encode(), b"v2"):
            h.update(hashlib.sha256(part).digest())
        fn = os.path.join(_DISK, h.hexdigest() + ".pickle")
    except OSError:
        fn = None
    if fn and os.path.isfile(fn) and not os.environ.get("VT_NO_CACHE"):
        try:
            with open(fn, "rb") as f:
                tu = pickle.load(f)
            if isinstance(tu, dict) and tu.get("kind") == "TranslationUnitDecl":
                _register_typedefs(tu)
                return tu
        except Exception:
            pass
    tu = _reduce(_load(path))
    _register_typedefs(tu)
    if fn and not os.environ.get("VT_NO_CACHE"):
        try:
            os.makedirs(_DISK, exist_ok=True)
            tmp = fn + ".%d.tmp" % os.getpid()
            with open(tmp, "wb") as f:
                pickle.dump(tu, f, protocol=4)
            os.replace(tmp, fn)
        except OSError:
            pass
    return tu


def _load(path: str) -> dict:
    cmd = [find_clang(), "-fsyntax-only", "-Xclang", "-ast-dump=json", "-I" + python_include(), path]
    try:
        r = subprocess.run(cmd, capture_output=True, timeout=120)
    except (OSError, subprocess.TimeoutExpired) as e:
        raise AnalysisError("clang failed to run: %s" % e)
    if r.returncode != 0:
        raise AnalysisError("clang rejected %s: %s" % (path, r.stderr.decode("utf-8", "replace").strip().splitlines()[:3]))
    try:
        tu = json.loads(r.stdout)
    except ValueError as e:
        raise AnalysisError("clang produced no JSON AST for %s: %s" % (path, e))
    if tu.get("kind") != "TranslationUnitDecl":
        raise AnalysisError("unexpected clang AST root %r" % tu.get("kind"))
    _register_typedefs(tu)
    return tu


_TYPEDEFS: Dict[str, str] = {}


def _register_typedefs(tu) -> None:
    """typedef name -> underlying type as reported by clang (used to resolve uint32_t, size_t, ...)."""
    if isinstance(tu.get("typedefs"), dict):
        _TYPEDEFS.update(tu["typedefs"])
        return
    for d in inner(tu):
        if kind(d) == "TypedefDecl" and d.get("name"):
            t = d.get("type", {})
            _TYPEDEFS[d["name"]] = t.get("desugaredQualType") or t.get("qualType") or ""


# ---------------------------------------------------------------------------
# node helpers


def kind(n) -> Optional[str]:
    return n.get("kind") if isinstance(n, dict) else None


def inner(n) -> List[dict]:
    return n.get("inner", []) if isinstance(n, dict) else []


def walk(n) -> Iterator[dict]:
    st = [n]
    while st:
        x = st.pop()
        if isinstance(x, dict):
            yield x
            st.extend(reversed(inner(x)))


def line(n) -> Optional[int]:
    for x in walk(n):
        for key in ("loc",):
            l = x.get(key) or {}
            if "line" in l:
                return l["line"]
        r = x.get("range", {}).get("begin", {})
        if "line" in r:
            return r["line"]
    return None


def qtype(n) -> str:
    t = n.get("type", {})
    return t.get("desugaredQualType") or t.get("qualType") or ""


def strip(n):
    """Skip parentheses and value-preserving implicit casts (LValueToRValue, NoOp, decay)."""
    while kind(n) in ("ParenExpr",) or (kind(n) == "ImplicitCastExpr" and n.get("castKind") in ("LValueToRValue", "NoOp", "ArrayToPointerDecay", "FunctionToPointerDecay")):
        n = inner(n)[0]
    return n


def strip_all_casts(n):
    while kind(n) in ("ParenExpr", "ImplicitCastExpr", "CStyleCastExpr"):
        n = inner(n)[0]
    return n


def ref(n) -> Optional[str]:
    """Name of the declaration a (possibly parenthesised / rvalue-converted) DeclRefExpr refers to."""
    n = strip(n)
    if kind(n) == "DeclRefExpr":
        return (n.get("referencedDecl") or {}).get("name")
    return None


def ref_id(n) -> Optional[str]:
    n = strip(n)
    if kind(n) == "DeclRefExpr":
        return (n.get("referencedDecl") or {}).get("id")
    return None


def int_literal(n) -> Optional[int]:
    n = strip(n)
    while kind(n) == "ImplicitCastExpr" and n.get("castKind") == "IntegralCast":
        n = strip(inner(n)[0])
    if kind(n) == "IntegerLiteral":
        try:
            return int(n.get("value"))
        except (TypeError, ValueError):
            return None
    return None


def is_null_pointer(n) -> bool:
    n = strip(n)
    while kind(n) in ("ImplicitCastExpr", "CStyleCastExpr", "ParenExpr"):
        if n.get("castKind") not in (None, "NullToPointer", "NoOp", "BitCast", "IntegralToPointer"):
            return False
        n = inner(n)[0]
    return kind(n) == "IntegerLiteral" and n.get("value") == "0" or kind(n) == "GNUNullExpr"


def callee(n) -> Optional[str]:
    n = strip(n)
    if kind(n) == "CallExpr" and inner(n):
        return ref(inner(n)[0])
    return None


def call_args(n) -> List[dict]:
    n = strip(n)
    return inner(n)[1:] if kind(n) == "CallExpr" else []


def string_literal(n) -> Optional[str]:
    for x in walk(n):
        if kind(x) == "StringLiteral":
            v = x.get("value", "")
            return v[1:-1] if len(v) >= 2 and v[0] == '"' and v[-1] == '"' else v
    return None


def function_decls(tu) -> Dict[str, dict]:
    """Functions *defined* (with a body) in the translation unit, by name."""
    out = {}
    for d in inner(tu):
        if kind(d) == "FunctionDecl" and any(kind(c) == "CompoundStmt" for c in inner(d)):
            out[d.get("name")] = d
    return out


def method_table(tu) -> Dict[str, str]:
    """{python-visible name: C function name} from every PyMethodDef[] initialiser."""
    out: Dict[str, str] = {}
    for d in inner(tu):
        if kind(d) == "VarDecl" and (d.get("type", {}).get("qualType", "")).startswith("PyMethodDef"):
            for il in walk(d):
                if kind(il) == "InitListExpr" and (il.get("type", {}).get("qualType", "")).startswith("PyMethodDef") and "[" not in il.get("type", {}).get("qualType", ""):
                    elems = inner(il)
                    if len(elems) >= 2:
                        nm = string_literal(elems[0]) if kind(strip_all_casts(elems[0])) == "StringLiteral" else None
                        fn = ref(strip_all_casts(elems[1])) if kind(strip_all_casts(elems[1])) == "DeclRefExpr" else None
                        if nm and fn:
                            out[nm] = fn
    return out


def body_of(fdecl) -> dict:
    for c in inner(fdecl):
        if kind(c) == "CompoundStmt":
            return c
    raise AnalysisError("function %s has no body" % fdecl.get("name"))


# ---------------------------------------------------------------------------
# integer widths (bytes) of the scalar types the analysed code uses (LP64)

_WIDTH = {
    "char": 1, "const char": 1, "signed char": 1, "unsigned char": 1, "const unsigned char": 1,
    "short": 2, "unsigned short": 2,
    "int": 4, "unsigned int": 4, "const int": 4,
    "long": 8, "unsigned long": 8, "long long": 8, "unsigned long long": 8,
}
_SIGNED = {"char", "const char", "signed char", "short", "int", "const int", "long", "long long"}


def _resolve_type(t: str) -> str:
    t = t.strip()
    for _ in range(8):
        core = t
        for qual in ("const ", "volatile "):
            if core.startswith(qual):
                core = core[len(qual):]
        if core in _WIDTH:
            return core
        if core in _TYPEDEFS and _TYPEDEFS[core] and _TYPEDEFS[core] != core:
            t = _TYPEDEFS[core]
            continue
        break
    return t


def width_of_type(t: str) -> int:
    r = _resolve_type(t)
    if r in _WIDTH:
        return _WIDTH[r]
    raise AnalysisError("unmodelled C scalar type %r" % t)


def is_signed(t: str) -> bool:
    return _resolve_type(t) in _SIGNED


def pointee_width(n) -> int:
    t = qtype(n).strip()
    if not t.endswith("*"):
        raise AnalysisError("expected a pointer type, got %r" % t)
    return width_of_type(t[:-1].strip())


# ---------------------------------------------------------------------------
# lane evaluator


class LaneEnv:
    """Interpretation context: which pointer variable plays which role, the
    current constant offsets of the pointers, scalar variable values, endianness."""

    def __init__(self, endian: str, roles: Dict[str, str], offsets: Dict[str, int], scalars: Dict[str, Tuple], index_vars: Optional[Dict[str, str]] = None):
        self.endian = endian  # "little" | "big"
        self.roles = roles  # var name -> "mask" | "data" | "out"
        self.offsets = offsets  # var name -> constant byte offset relative to the iteration start
        self.scalars = scalars  # var name -> lanes (value order)
        self.index_vars = index_vars or {}  # loop index variables (symbolic index)


def _mem_to_value(mem: List, endian: str) -> Tuple:
    return tuple(mem) if endian == "little" else tuple(reversed(mem))


def value_to_mem(val: Tuple, endian: str) -> List:
    return list(val) if endian == "little" else list(reversed(val))


def _xor(a, b):
    if a == 0:
        return b
    if b == 0:
        return a
    for p, r in ((a, b), (b, a)):
        if isinstance(p, tuple) and isinstance(r, tuple) and p[0] == "d" and r[0] == "m":
            return ("x", p[1], r[1])
    return JUNK


def _or(a, b):
    if a == 0:
        return b
    if b == 0:
        return a
    return JUNK


def subscript_parts(n):
    """For an ArraySubscriptExpr: (base pointer variable name, element width in
    bytes, index node).  The base may be ``(T *)ptr`` (type punning)."""
    n = strip(n)
    if kind(n) == "UnaryOperator" and n.get("opcode") == "*":
        # *p  is  p[0]
        base, idx = inner(n)[0], {"kind": "IntegerLiteral", "value": "0", "type": {"qualType": "int"}}
    elif kind(n) == "ArraySubscriptExpr":
        base, idx = inner(n)[0], inner(n)[1]
    else:
        return None
    b = strip(base)
    w = pointee_width(b)
    while kind(b) in ("CStyleCastExpr", "ParenExpr", "ImplicitCastExpr"):
        if kind(b) == "CStyleCastExpr" and b.get("castKind") not in ("BitCast", "NoOp"):
            raise AnalysisError("unmodelled pointer cast %s" % b.get("castKind"))
        b = inner(b)[0]
    if kind(b) != "DeclRefExpr":
        raise AnalysisError("memory access through a computed pointer is not modelled (line %s)" % line(n))
    return (b.get("referencedDecl") or {}).get("name"), w, idx


def is_mem_access(n) -> bool:
    n = strip(n)
    return kind(n) == "ArraySubscriptExpr" or (kind(n) == "UnaryOperator" and n.get("opcode") == "*")


def load_lanes(var: str, w: int, idx, env: LaneEnv) -> Tuple:
    role = env.roles.get(var)
    k = int_literal(idx)
    mem: List = []
    if k is not None:
        base = env.offsets.get(var, 0) + k * w
        for j in range(w):
            o = base + j
            if role == "mask":
                mem.append(("m", o) if 0 <= o < 4 else JUNK)
            elif role == "data":
                mem.append(("d", o))
            else:
                mem.append(JUNK)
    else:
        iv = ref(idx)
        if iv is not None and iv in env.index_vars and w == 1 and env.offsets.get(var, 0) == 0:
            mem.append(("m", ("i", iv)) if role == "mask" else (("d", ("i", iv)) if role == "data" else JUNK))
        else:
            # i % 4 style index on the mask
            s = strip(idx)
            if role == "mask" and w == 1 and kind(s) == "BinaryOperator" and s.get("opcode") == "%" and ref(inner(s)[0]) in env.index_vars and int_literal(inner(s)[1]) == 4:
                mem.append(("m", ("i%4", ref(inner(s)[0]))))
            else:
                mem = [JUNK] * w
    return _mem_to_value(mem, env.endian)


def eval_lanes(n, env: LaneEnv) -> Tuple:
    """Symbolic value (tuple of lanes, LSB first) of integer expression ``n``."""
    k = kind(n)
    if k == "ParenExpr":
        return eval_lanes(inner(n)[0], env)
    if k == "ImplicitCastExpr" or k == "CStyleCastExpr":
        ck_ = n.get("castKind")
        sub = inner(n)[0]
        if ck_ in ("LValueToRValue", "NoOp"):
            return eval_lanes(sub, env)
        if ck_ == "IntegralCast":
            v = eval_lanes(sub, env)
            w = width_of_type(qtype(n))
            if len(v) >= w:
                return tuple(v[:w])
            fill = JUNK if is_signed(qtype(sub)) else 0
            return tuple(v) + (fill,) * (w - len(v))
        raise AnalysisError("unmodelled cast %s in an integer expression (line %s)" % (ck_, line(n)))
    if k == "IntegerLiteral":
        w = width_of_type(qtype(n))
        val = int(n.get("value"))
        return tuple(0 if ((val >> (8 * j)) & 0xFF) == 0 else JUNK for j in range(w))
    if k == "DeclRefExpr":
        nm = (n.get("referencedDecl") or {}).get("name")
        if nm in env.scalars:
            return env.scalars[nm]
        w = width_of_type(qtype(n))
        return (JUNK,) * w
    if k == "ArraySubscriptExpr" or (k == "UnaryOperator" and n.get("opcode") == "*"):
        var, w, idx = subscript_parts(n)
        return load_lanes(var, w, idx, env)
    if k == "BinaryOperator":
        op = n.get("opcode")
        a, b = inner(n)
        w = width_of_type(qtype(n))
        if op in ("^", "|", "&"):
            va, vb = eval_lanes(a, env), eval_lanes(b, env)
            va = tuple(va[:w]) + (0,) * max(0, w - len(va))
            vb = tuple(vb[:w]) + (0,) * max(0, w - len(vb))
            if op == "^":
                return tuple(_xor(x, y) for x, y in zip(va, vb))
            if op == "|":
                return tuple(_or(x, y) for x, y in zip(va, vb))
            return tuple(0 if (x == 0 or y == 0) else JUNK for x, y in zip(va, vb))
        if op in ("<<", ">>"):
            va = eval_lanes(a, env)
            va = tuple(va[:w]) + (0,) * max(0, w - len(va))
            s = int_literal(b)
            if s is None or s % 8 != 0 or s < 0:
                return (JUNK,) * w
            sh = s // 8
            if op == "<<":
                return tuple(([0] * sh + list(va))[:w])
            return tuple((list(va)[sh:] + [0] * sh)[:w])
        return (JUNK,) * w
    raise AnalysisError("unmodelled expression kind %s in an integer expression (line %s)" % (k, line(n)))
