"""Byte-exact derivation of payload data (shared helper).

Class of defect decided: *payload bytes that must reach their destination
unchanged are passed through a lossy text operation* (``strip``/``rstrip``/
``lstrip``/``replace``/``split``+``join``/``lower``/``decode``...), or are cut
with slice bounds that do not equal the length of the delimiter that was
actually tested for (off-by-one / wrong-delimiter slices).

``derive(fi, expr, sources, passthrough)`` walks the expression backwards through
the function's local bindings until it reaches one of ``sources`` (parameter
or attribute paths) and returns the list of :class:`Step` taken.  Accepted
steps (exact): alias of a local, ``X[a:b]`` slice, element of
``X.split(<delimiter>)`` (loop variable of ``for p in parts``), element of a
list display, conditional expression, calls listed in ``passthrough``
(name -> index of the argument that carries the payload, or ``-1`` for the
receiver, or ``None`` = trusted producer, stop).  A step through a method of
the *lossy* set is recorded as ``lossy`` (a violation for the caller); any
other construct raises AnalysisError (fail closed).

``check_exact(ck, rule, fi, sink_expr, sources, what, passthrough=None)`` records
one obligation per sink (exact chain) and returns the steps.

``slice_delimiters(fi, sub, facts)`` decides, for a slice ``X[lo:hi]``:
* ``lo`` is ``<v> + k`` (or ``k``) where ``v`` is bound from ``X.find(<literal>)``
  (first occurrence; ``rfind`` is reported) and ``k == len(literal)``;
  a bare constant ``k`` needs a dominating ``X.startswith(<literal of length k>)``;
* ``hi`` is ``-k`` with a dominating ``X.endswith(<literal of length k>)`` fact,
  or a variable bound from ``find``/``rfind`` (cut *at* the delimiter), or absent.
Returns a list of (ok, text) judgements.
"""
from __future__ import annotations

import ast
from typing import Dict, Iterable, List, Optional, Tuple

from . import q
from .model import AnalysisError, FuncInfo

LOSSY = {
    "strip", "rstrip", "lstrip", "replace", "lower", "upper", "title", "capitalize", "casefold", "swapcase", "expandtabs",
    "translate", "splitlines", "removeprefix", "removesuffix", "decode", "encode", "center", "ljust", "rjust", "zfill", "format",
    "normalize", "sub", "subn",
}


class Step:
    at = None   # CFG node that evaluates the step's expression (flow-sensitive derivations only)

    def __init__(self, kind: str, node: ast.AST, note: str = ""):
        self.kind = kind  # source alias slice element passthrough lossy
        self.node = node
        self.note = note

    def __repr__(self):
        return "%s(%s)" % (self.kind, q.unparse(self.node)[:50])


def _bindings(fi: FuncInfo, name: str) -> List[Tuple[str, ast.AST]]:
    """('value', expr) | ('element', iterable expr) | ('unpack', (expr, index)) for every binding of local ``name``."""
    out: List[Tuple[str, ast.AST]] = []
    for n in q.walk_body(fi.node):
        if isinstance(n, ast.Assign):
            for t in n.targets:
                if isinstance(t, ast.Name) and t.id == name:
                    out.append(("value", n.value))
                elif isinstance(t, (ast.Tuple, ast.List)):
                    for i, e in enumerate(t.elts):
                        if isinstance(e, ast.Name) and e.id == name:
                            if isinstance(n.value, (ast.Tuple, ast.List)) and len(n.value.elts) == len(t.elts):
                                out.append(("value", n.value.elts[i]))
                            else:
                                out.append(("unpack", n.value))
        elif isinstance(n, ast.AnnAssign) and isinstance(n.target, ast.Name) and n.target.id == name and n.value is not None:
            out.append(("value", n.value))
        elif isinstance(n, ast.AugAssign) and isinstance(n.target, ast.Name) and n.target.id == name:
            out.append(("aug", n))
        elif isinstance(n, ast.NamedExpr) and n.target.id == name:
            out.append(("value", n.value))
        elif isinstance(n, (ast.For, ast.AsyncFor)):
            if isinstance(n.target, ast.Name) and n.target.id == name:
                out.append(("element", n.iter))
            elif name in q.names_in(n.target):
                out.append(("unpack", n.iter))
    return out


def _reaching(fi: FuncInfo):
    """IN[node id] = {local name -> frozenset(ids of the CFG nodes whose binding of that name may reach the node)}."""
    cached = getattr(fi, "_g2_reach", None)
    if cached is not None:
        return cached
    cfg = fi.cfg
    gen = {}
    for n in cfg.nodes:
        names = set()
        if n.ast is None:
            continue
        if n.kind == "for":
            names = {x.id for x in ast.walk(n.ast.target) if isinstance(x, ast.Name)}
        elif n.kind == "with":
            for it in n.ast.items:
                if it.optional_vars is not None:
                    names |= {x.id for x in ast.walk(it.optional_vars) if isinstance(x, ast.Name)}
        elif n.kind in ("stmt", "test"):
            for x in q.walk_local(n.ast):
                if isinstance(x, ast.Name) and isinstance(x.ctx, (ast.Store, ast.Del)):
                    names.add(x.id)
        elif n.kind == "handler" and getattr(n.ast, "name", None):
            names = {n.ast.name}
        if names:
            gen[n.id] = names
    IN = {cfg.entry.id: {}}
    work = [cfg.entry.id]
    while work:
        nid = work.pop()
        cur = IN[nid]
        out = cur
        if nid in gen:
            out = dict(cur)
            for nm in gen[nid]:
                out[nm] = frozenset([nid])
        for sid, kind in cfg.succ[nid]:
            src = out
            if kind == "exc" and nid in gen:
                src = dict(cur)
                for nm in gen[nid]:
                    src[nm] = src.get(nm, frozenset()) | {nid}
            old = IN.get(sid)
            if old is None:
                IN[sid] = dict(src)
                work.append(sid)
                continue
            changed = False
            for nm, ds in src.items():
                o = old.get(nm)
                if o is None:
                    old[nm] = ds
                    changed = True
                elif not ds <= o:
                    old[nm] = o | ds
                    changed = True
            if changed:
                work.append(sid)
    try:
        fi._g2_reach = IN
    except Exception:
        pass
    return IN


def _bindings_at(fi: FuncInfo, name: str, at: "Node"):
    """Like _bindings but only the bindings that may reach CFG node ``at``: [(kind, expr, defining node)]."""
    IN = _reaching(fi)
    out = []
    for did in sorted(IN.get(at.id, {}).get(name, ())):
        dn = fi.cfg.nodes[did]
        if dn.kind == "for":
            if isinstance(dn.ast.target, ast.Name) and dn.ast.target.id == name:
                out.append(("element", dn.ast.iter, dn))
            else:
                out.append(("unpack", dn.ast.iter, dn))
            continue
        if dn.kind != "stmt":
            out.append(("unpack", dn.ast, dn))
            continue
        tmp = ast.FunctionDef(name="_", args=ast.arguments(posonlyargs=[], args=[], kwonlyargs=[], kw_defaults=[], defaults=[]), body=[dn.ast], decorator_list=[])
        class _F:
            node = tmp
        for kind, v in _bindings(_F, name):
            out.append((kind, v, dn))
    return out


def derive(fi: FuncInfo, expr: ast.AST, sources: Iterable[str], passthrough: Optional[Dict[str, Optional[int]]] = None, _seen=None, at=None) -> List[Step]:
    """``at``: the CFG node that evaluates ``expr`` — bindings are then followed flow-sensitively (reaching definitions),
    so a same-named local of an earlier loop does not leak into the chain."""
    sources = set(sources)
    passthrough = passthrough or {}
    seen = _seen if _seen is not None else set()
    steps: List[Step] = []
    here = [at]

    def go(e: ast.AST):
        d = q.dotted(e) if isinstance(e, (ast.Name, ast.Attribute)) else None
        if d is not None and d in sources:
            steps.append(Step("source", e))
            return
        if isinstance(e, ast.Name) and here[0] is not None:
            key_ = (e.id, here[0].id)
            if key_ in seen:
                return
            seen.add(key_)
            bs3 = _bindings_at(fi, e.id, here[0])
            if not bs3:
                if e.id in fi.params():
                    raise AnalysisError("x_exact: %s derives from parameter %s which is not a declared source" % (fi.qualname, e.id))
                raise AnalysisError("x_exact: no binding of %s reaches %s in %s" % (e.id, q.unparse(here[0].ast)[:40] if here[0].ast is not None else "?", fi.qualname))
            for kind, v, dn in bs3:
                saved = here[0]
                here[0] = dn
                try:
                    if kind == "value":
                        st_ = Step("alias", v, e.id)
                        st_.at = dn
                        steps.append(st_)
                        go(v)
                    elif kind == "element":
                        steps.append(Step("element", v, e.id))
                        go_iter(v)
                    elif kind == "aug":
                        raise AnalysisError("x_exact: %s is modified in place (%s)" % (e.id, q.unparse(v)))
                    else:
                        raise AnalysisError("x_exact: %s is bound by tuple-unpacking of %s (unknown idiom)" % (e.id, q.unparse(v)))
                finally:
                    here[0] = saved
            return
        if isinstance(e, ast.Name):
            if e.id in seen:
                return
            seen.add(e.id)
            bs = _bindings(fi, e.id)
            if not bs:
                if e.id in fi.params():
                    raise AnalysisError("x_exact: %s derives from parameter %s which is not a declared source" % (fi.qualname, e.id))
                raise AnalysisError("x_exact: no binding for %s in %s" % (e.id, fi.qualname))
            for kind, v in bs:
                if kind == "value":
                    steps.append(Step("alias", v, e.id))
                    go(v)
                elif kind == "element":
                    steps.append(Step("element", v, e.id))
                    go_iter(v)
                elif kind == "aug":
                    raise AnalysisError("x_exact: %s is modified in place (%s)" % (e.id, q.unparse(v)))
                else:
                    raise AnalysisError("x_exact: %s is bound by tuple-unpacking of %s (unknown idiom)" % (e.id, q.unparse(v)))
            return
        if isinstance(e, ast.Subscript):
            if isinstance(e.slice, ast.Slice):
                st_ = Step("slice", e)
                st_.at = here[0]
                steps.append(st_)
            else:
                steps.append(Step("element", e))
            go(e.value)
            return
        if isinstance(e, ast.IfExp):
            go(e.body)
            go(e.orelse)
            return
        if isinstance(e, ast.BoolOp):
            for v in e.values:
                go(v)
            return
        if isinstance(e, (ast.List, ast.Tuple)):
            for v in e.elts:
                go(v)
            return
        if isinstance(e, ast.Constant) and isinstance(e.value, (bytes, str)):
            steps.append(Step("source", e, "literal"))
            return
        if isinstance(e, ast.Await):
            go(e.value)
            return
        if isinstance(e, ast.Call):
            name = q.call_attr(e)
            dn = q.dotted(e.func)
            key = dn if dn in passthrough else name
            if key in passthrough:
                idx = passthrough[key]
                steps.append(Step("passthrough", e, key))
                if idx is None:
                    steps.append(Step("source", e, "trusted producer"))
                    return
                if idx == -1:
                    if not isinstance(e.func, ast.Attribute):
                        raise AnalysisError("x_exact: passthrough receiver of a plain function")
                    go(e.func.value)
                else:
                    if idx >= len(e.args):
                        raise AnalysisError("x_exact: passthrough argument %d missing in %s" % (idx, q.unparse(e)))
                    go(e.args[idx])
                return
            if isinstance(e.func, ast.Attribute) and name in ("split", "rsplit") and e.args:
                if len(e.args) > 1 or e.keywords:
                    steps.append(Step("lossy", e, "split bounded by maxsplit (the last piece still contains delimiters and the pieces after them)"))
                else:
                    steps.append(Step("element", e, "pieces between delimiters"))
                go(e.func.value)
                return
            if isinstance(e.func, ast.Attribute) and name in LOSSY:
                steps.append(Step("lossy", e, name))
                go(e.func.value)
                return
            if isinstance(e.func, ast.Attribute) and name == "join":
                steps.append(Step("lossy", e, "join (re-assembly with a separator is not the identity unless the pieces came from the same split)"))
                return
            raise AnalysisError("x_exact: unmodelled call %s on a byte-exact path in %s" % (q.unparse(e.func), fi.qualname))
        raise AnalysisError("x_exact: unmodelled expression %s on a byte-exact path in %s" % (q.unparse(e), fi.qualname))

    def go_iter(it: ast.AST):
        # element of an iterable: X.split(delim) -> X ; a local list -> its elements ; filter(pred, X) -> elements of X
        if isinstance(it, ast.Call) and q.dotted(it.func) == "filter" and len(it.args) == 2:
            steps.append(Step("element", it, "filtered subset"))
            go_iter(it.args[1])
            return
        if isinstance(it, ast.Call) and isinstance(it.func, ast.Attribute) and it.func.attr in ("split", "rsplit") and it.args:
            if len(it.args) > 1 or it.keywords:
                steps.append(Step("lossy", it, "split bounded by maxsplit (the last piece still contains delimiters and the pieces after them)"))
            else:
                steps.append(Step("element", it, "piece between delimiters"))
            go(it.func.value)
            return
        go(it)

    go(expr)
    return steps


def check_exact(ck, rule: str, fi: FuncInfo, sink: ast.AST, sources: Iterable[str], what: str, passthrough: Optional[Dict[str, Optional[int]]] = None, site: Optional[ast.AST] = None, at=None) -> List[Step]:
    steps = derive(fi, sink, sources, passthrough, at=at)
    lossy = [s for s in steps if s.kind == "lossy"]
    reached = any(s.kind == "source" for s in steps)
    if not lossy and not reached:
        raise AnalysisError("x_exact: %s does not derive from any of the declared sources in %s" % (q.unparse(sink), fi.qualname))
    ck.ob(rule, fi, site if site is not None else sink, not lossy,
          "%s: derived from the payload only by slicing/aliasing%s" % (what, "" if not lossy else " — passes through lossy %s" % ", ".join("%s [%s]" % (s.note, q.unparse(s.node)[:60]) for s in lossy)))
    return steps


# ---------------------------------------------------------------------------


def _const_len(e: ast.AST, fi: Optional[FuncInfo] = None) -> Optional[int]:
    """Length of a bytes/str literal, or of a module-level NAME bound to one."""
    if isinstance(e, ast.Constant) and isinstance(e.value, (bytes, str)):
        return len(e.value)
    if isinstance(e, ast.Name) and fi is not None:
        v = fi.module.assigns.get(e.id)
        if isinstance(v, ast.Constant) and isinstance(v.value, (bytes, str)) and e.id not in q.local_names(fi.node):
            return len(v.value)
    return None


def _int_of(e: ast.AST, fi: FuncInfo) -> Optional[int]:
    """Value of an int literal or of ``len(<literal or module constant>)``."""
    if isinstance(e, ast.Constant) and type(e.value) is int:
        return e.value
    if isinstance(e, ast.Call) and q.is_call(e, "len") and len(e.args) == 1:
        return _const_len(e.args[0], fi)
    if isinstance(e, ast.Name):
        v = fi.module.assigns.get(e.id)
        if isinstance(v, ast.Constant) and type(v.value) is int and e.id not in q.local_names(fi.node):
            return v.value
    return None


def slice_delimiters(fi: FuncInfo, sub: ast.Subscript, facts) -> List[Tuple[bool, str]]:
    """Judgements for the bounds of ``X[lo:hi]`` (see module docstring).  ``facts`` = must-facts at the CFG node of the slice."""
    out: List[Tuple[bool, str]] = []
    base = q.unparse(sub.value)
    sl = sub.slice
    if not isinstance(sl, ast.Slice) or sl.step is not None:
        raise AnalysisError("x_exact: not a plain slice: %s" % q.unparse(sub))

    def find_binding(name: str):
        bs = [v for k, v in _bindings(fi, name) if k == "value"]
        if len(bs) != 1:
            return None
        v = bs[0]
        if isinstance(v, ast.Call) and isinstance(v.func, ast.Attribute) and v.func.attr in ("find", "rfind", "index", "rindex") and v.args:
            return v
        return None

    def origins(method: str):
        """Texts whose ``endswith`` (``startswith``) facts carry over to ``base``: base itself and, through unique
        bindings, the objects it is a suffix (prefix) slice of."""
        out = [base]
        cur = sub.value
        for _ in range(4):
            if not isinstance(cur, ast.Name):
                break
            bs = [v for k, v in _bindings(fi, cur.id) if k == "value"]
            if len(bs) != 1 or not (isinstance(bs[0], ast.Subscript) and isinstance(bs[0].slice, ast.Slice)):
                break
            sl2 = bs[0].slice
            if (method == "endswith" and sl2.upper is None) or (method == "startswith" and sl2.lower is None):
                cur = bs[0].value
                out.append(q.unparse(cur))
            else:
                break
        return out

    def fact_call(method: str):
        """Literals L for which ``base.method(L)`` is known true here."""
        res = []
        bases = origins(method)
        for t, pol in facts:
            if not pol or t.startswith("@"):
                continue
            try:
                e = ast.parse(t, mode="eval").body
            except SyntaxError:
                continue
            if isinstance(e, ast.Call) and isinstance(e.func, ast.Attribute) and e.func.attr == method and q.unparse(e.func.value) in bases and len(e.args) == 1 and _const_len(e.args[0], fi) is not None:
                res.append(e.args[0])
            # X[0] == 'c'  is  X.startswith('c');  X[-1] == 'c'  is  X.endswith('c')  (one-character literal)
            if isinstance(e, ast.Compare) and len(e.ops) == 1 and isinstance(e.ops[0], ast.Eq):
                l_, r_ = e.left, e.comparators[0]
                if _const_len(l_, fi) is not None and not _const_len(r_, fi):
                    l_, r_ = r_, l_
                if isinstance(l_, ast.Subscript) and q.unparse(l_.value) in bases and not isinstance(l_.slice, ast.Slice) and _const_len(r_, fi) == 1:
                    try:
                        ix = q.fold(l_.slice, {})
                    except q.NotFoldable:
                        ix = None
                    if (method == "startswith" and ix == 0) or (method == "endswith" and ix == -1):
                        res.append(r_)
        return res

    lo, hi = sl.lower, sl.upper
    if lo is not None:
        k = None
        var = None
        if isinstance(lo, ast.BinOp) and isinstance(lo.op, ast.Add):
            a, b = lo.left, lo.right
            if _int_of(a, fi) is not None and isinstance(b, ast.Name) and _int_of(b, fi) is None:
                a, b = b, a
            if isinstance(a, ast.Name) and _int_of(b, fi) is not None:
                var, k = a.id, _int_of(b, fi)
        elif _int_of(lo, fi) is not None and _int_of(lo, fi) >= 0:
            k = _int_of(lo, fi)
        elif isinstance(lo, ast.Name):
            var, k = lo.id, 0
        if k is None:
            raise AnalysisError("x_exact: unmodelled lower slice bound %s" % q.unparse(lo))
        if var is not None:
            fb = find_binding(var)
            if fb is None:
                raise AnalysisError("x_exact: slice start %s is not bound from a find() of a literal delimiter" % var)
            first = fb.func.attr in ("find", "index")
            out.append((first, "the content starts after the FIRST occurrence of the delimiter (%s = %s)" % (var, q.unparse(fb))))
            dl = _const_len(fb.args[0], fi)
            if dl is None:
                raise AnalysisError("x_exact: delimiter of %s is not a literal" % q.unparse(fb))
            out.append((k == dl or k == 0, "the slice starts %d bytes after the delimiter position, the delimiter %s is %d bytes long" % (k, q.unparse(fb.args[0]), dl)))
            out.append((q.unparse(fb.func.value) == base, "the delimiter was searched in the sliced object itself"))
        else:
            lits = fact_call("startswith")
            out.append((k == 0 or any(_const_len(l, fi) == k for l in lits), "a constant start offset %d needs a dominating %s.startswith(<%d-byte literal>)" % (k, base, k)))
    if hi is not None:
        if isinstance(hi, ast.UnaryOp) and isinstance(hi.op, ast.USub) and _int_of(hi.operand, fi) is not None:
            k = _int_of(hi.operand, fi)
            lits = fact_call("endswith")
            out.append((any(_const_len(l, fi) == k for l in lits), "dropping the last %d bytes needs a dominating %s.endswith(<%d-byte literal>) test (exactly the delimiter, nothing of the content)" % (k, base, k)))
        elif isinstance(hi, ast.Name):
            fb = find_binding(hi.id)
            out.append((fb is not None and q.unparse(fb.func.value) == base, "the slice ends at a delimiter position found in the same object (%s)" % hi.id))
        else:
            raise AnalysisError("x_exact: unmodelled upper slice bound %s" % q.unparse(hi))
    return out
