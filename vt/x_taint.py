"""x_taint — flow-sensitive forward taint over one function's CFG, with guards.

State: the set of *tainted paths* (local names / dotted attribute paths) plus
alias records ``a=b`` (``a`` was bound directly to the value of path ``b``).
Assignments update the state strongly for names and attribute paths and weakly
for containers.  A rule supplies

* ``sources``: paths tainted on entry (parameters, ``self.request.path`` …),
* ``sanitizers``: callee names whose result is clean whatever the arguments,
* ``clean_on_edge(node, edge_kind, tainted) -> paths``: paths proven clean by
  taking that branch edge (a regex guard whose language — decided by
  :mod:`vt.rx` — excludes/detects the forbidden symbols, a ``startswith``
  rejection, an ``isinstance`` test …).

The propagation is path-sensitive (built on :func:`vt.cfg.explore`), so
"either validated or overwritten by a constant" is seen without a solver.

Also here: recognition of regex guards in branch tests and resolution of the
pattern objects they use (class attributes, ``_ABNF`` members, module-level
``re.compile`` constants, literal patterns passed to ``re.search``).
"""
from __future__ import annotations

import ast
from typing import Callable, Dict, FrozenSet, Iterable, List, Optional, Set, Tuple

from . import q
from .cfg import CFG, Node, explore, _node_roots
from .model import AnalysisError, FuncInfo, Repo
from .rx import Rx, eval_abnf, eval_pattern_expr

PROPAGATING_METHODS = {
    "strip", "lstrip", "rstrip", "lower", "upper", "split", "rsplit", "partition", "rpartition", "replace", "decode", "encode",
    "format", "join", "title", "capitalize", "items", "values", "keys", "get", "pop", "copy", "OutputString", "output",
}
CONVERSIONS = {"str", "bytes", "utf8", "native_str", "to_unicode", "to_basestring", "_unicode", "escape.native_str", "escape.utf8", "escape.to_unicode", "list", "tuple", "dict", "sorted", "set"}
SCOPE = (ast.Lambda, ast.FunctionDef, ast.AsyncFunctionDef, ast.ClassDef)
NONSTR = "~nonstr"  # marker: the path was only shown not to be a ``str``; it may still be bytes carrying the characters
DECODERS = {"native_str", "to_unicode", "_unicode", "to_basestring", "str", "decode", "format", "join"}


def _prefixes(d: str) -> List[str]:
    parts = d.split(".")
    return [".".join(parts[:i]) for i in range(1, len(parts) + 1)]


def expr_tainted(e: ast.AST, tainted: Iterable[str], sanitizers: Iterable[str] = (), source_calls: Iterable[str] = (), expr_hook: Optional[Callable[[ast.AST], Optional[bool]]] = None,
                 cond_cleaner: Optional[Callable[[ast.AST, bool, Set[str]], Set[str]]] = None) -> bool:
    """``e`` may carry tainted data: it mentions a tainted path outside any sanitizer call.
    ``expr_hook(sub_expression)`` may decide a sub-expression (True/False) or return None."""
    tainted = set(tainted)
    sanitizers = set(sanitizers)
    source_calls = tuple(source_calls)

    def rec(x: ast.AST) -> bool:
        if expr_hook is not None:
            r = expr_hook(x)
            if r is not None:
                return r
        if isinstance(x, ast.IfExp) and cond_cleaner is not None:
            # `a if test else b`: each arm is judged with what its side of the test proves
            t_true = tainted - set(cond_cleaner(x.test, True, set(tainted)))
            t_false = tainted - set(cond_cleaner(x.test, False, set(tainted)))
            return expr_tainted(x.body, t_true, sanitizers, source_calls, expr_hook, cond_cleaner) or expr_tainted(x.orelse, t_false, sanitizers, source_calls, expr_hook, cond_cleaner)
        if isinstance(x, ast.Call) and q.call_attr(x) in DECODERS:
            # a value known only to be "not a str" (e.g. bytes) becomes text again when decoded
            operand = x.func.value if (isinstance(x.func, ast.Attribute) and x.func.attr == "decode") else (x.args[0] if x.args else None)
            d = q.dotted(operand) if isinstance(operand, (ast.Name, ast.Attribute)) else None
            if d is not None and any((p + NONSTR) in tainted for p in _prefixes(d)):
                return True
        if isinstance(x, ast.Call):
            nm = q.call_attr(x)
            d = q.dotted(x.func)
            if nm in sanitizers or (d is not None and d in sanitizers):
                return False
            if source_calls and q.is_call(x, *source_calls):
                return True
        if isinstance(x, (ast.Name, ast.Attribute)):
            d = q.dotted(x)
            if d is not None:
                return any(p in tainted for p in _prefixes(d))
        if isinstance(x, SCOPE):
            return False
        return any(rec(c) for c in ast.iter_child_nodes(x))

    return rec(e)


def cond_cleaner_from(fi, clean_on_edge) -> Optional[Callable[[ast.AST, bool, Set[str]], Set[str]]]:
    """What a *value-position* test proves (conditional expressions): and/or/not are split like the CFG splits
    statement tests, a tested local is looked through, atoms go to the same ``clean_on_edge`` callback."""
    if clean_on_edge is None:
        return None

    def go(test: ast.AST, pol: bool, tainted: Set[str], depth: int = 6) -> Set[str]:
        if depth <= 0:
            return set()
        if isinstance(test, ast.UnaryOp) and isinstance(test.op, ast.Not):
            return go(test.operand, not pol, tainted, depth - 1)
        if isinstance(test, ast.BoolOp):
            conj = isinstance(test.op, ast.And)
            if conj == pol:  # all operands have polarity `pol`
                out: Set[str] = set()
                for v in test.values:
                    out |= go(v, pol, tainted, depth - 1)
                return out
            return set()
        if isinstance(test, ast.Name) and isinstance(fi, FuncInfo):
            from .x_objalias import through_local

            r = through_local(fi, test)
            if r is not test:
                return go(r, pol, tainted, depth - 1)
        return set(clean_on_edge(_FakeTest(test), "true" if pol else "false", tainted) or ())

    return go


def _targets(t: ast.AST) -> List[Tuple[str, bool]]:
    """(path, strong?) for an assignment target."""
    if isinstance(t, (ast.Tuple, ast.List)):
        out = []
        for x in t.elts:
            out.extend(_targets(x))
        return out
    if isinstance(t, ast.Starred):
        return _targets(t.value)
    if isinstance(t, ast.Subscript):
        d = q.dotted(t.value)
        return [(d, False)] if d else []
    d = q.dotted(t)
    return [(d, True)] if d else []


def clean_path(state: FrozenSet[str], path: str) -> FrozenSet[str]:
    """Remove ``path`` and everything recorded as the same value (aliases, both ways)."""
    same = {path}
    changed = True
    while changed:
        changed = False
        for s in state:
            if "=" in s:
                a, b = s.split("=", 1)
                if a in same and b not in same:
                    same.add(b)
                    changed = True
                if b in same and a not in same:
                    same.add(a)
                    changed = True
    return frozenset(s for s in state if s not in same and not (s.endswith(NONSTR) and s[: -len(NONSTR)] in same))


def demote_path(state: FrozenSet[str], path: str) -> FrozenSet[str]:
    """``path`` is no longer text-tainted but only known to be a non-str value."""
    was = path in tainted_of(state)
    st = clean_path(state, path)
    return (st | {path + NONSTR}) if was or True else st


def tainted_of(state: FrozenSet[str]) -> Set[str]:
    return {s for s in state if "=" not in s}


def flow_taint(
    fi_or_cfg,
    sources: Iterable[str],
    sanitizers: Iterable[str] = (),
    clean_on_edge: Optional[Callable[[Node, str, Set[str]], Iterable[str]]] = None,
    source_calls: Iterable[str] = (),
    follow_exc: bool = False,
    on_node: Optional[Callable[[Node, FrozenSet[str]], Optional[FrozenSet[str]]]] = None,
    expr_hook: Optional[Callable[[ast.AST], Optional[bool]]] = None,
) -> Dict[int, List[Set[str]]]:
    """Returns node id -> list of tainted-path sets (one per path-sensitive state) at node entry."""
    cfg: CFG = fi_or_cfg.cfg if isinstance(fi_or_cfg, FuncInfo) else fi_or_cfg
    sanitizers = set(sanitizers)
    source_calls = tuple(source_calls)

    cc = cond_cleaner_from(fi_or_cfg if isinstance(fi_or_cfg, FuncInfo) else None, clean_on_edge)

    def is_t(e, st):
        return expr_tainted(e, tainted_of(st), sanitizers, source_calls, expr_hook, cc)

    def assign(st: FrozenSet[str], t: ast.AST, val: Optional[ast.AST], val_tainted: bool) -> FrozenSet[str]:
        cur = set(st)
        if isinstance(t, (ast.Tuple, ast.List)) and isinstance(val, (ast.Tuple, ast.List)) and len(val.elts) == len(t.elts):
            out = frozenset(cur)
            for x, v in zip(t.elts, val.elts):
                out = assign(out, x, v, is_t(v, st))
            return out
        for path, strong in _targets(t):
            if strong:
                # forget everything known about path and below
                cur = {s for s in cur if not (s == path or s.startswith(path + ".") or s.startswith(path + "=") or s.endswith("=" + path) or s == path + NONSTR)}
                srcp = q.dotted(val) if isinstance(val, (ast.Name, ast.Attribute)) else None
                if srcp and (srcp + NONSTR) in st:
                    cur.add(path + NONSTR)
                if val_tainted:
                    cur.add(path)
                    src = q.dotted(val) if isinstance(val, (ast.Name, ast.Attribute)) else None
                    if src:
                        cur.add("%s=%s" % (path, src))
            elif val_tainted:
                cur.add(path)
        return frozenset(cur)

    def transfer(n: Node, st: FrozenSet[str]):
        if on_node is not None:
            r = on_node(n, st)
            if r is not None:
                st = r
        if n.ast is None:
            return st
        if n.kind == "for":
            out = assign(st, n.ast.target, None, is_t(n.ast.iter, st))
            if any(s.endswith(NONSTR) and s[: -len(NONSTR)] in q.paths_in(n.ast.iter) for s in st):
                for path, strong in _targets(n.ast.target):
                    if strong and path not in tainted_of(out):
                        out = out | {path + NONSTR}
            return out
        if n.kind == "with":
            for it in n.ast.items:
                if it.optional_vars is not None:
                    st = assign(st, it.optional_vars, None, is_t(it.context_expr, st))
            return st
        if n.kind != "stmt":
            return st
        s = n.ast
        if isinstance(s, (ast.Assign, ast.AnnAssign, ast.AugAssign)):
            # a local flag set to a constant (needs_check = False) is remembered so that the branch that contradicts it
            # is not explored; any other binding of the name forgets it
            tg = s.targets if isinstance(s, ast.Assign) else [s.target]
            for t0 in tg:
                for x0 in ast.walk(t0):
                    if isinstance(x0, ast.Name):
                        st = frozenset(z for z in st if not z.startswith(x0.id + ":="))
            if isinstance(s, ast.Assign) and len(s.targets) == 1 and isinstance(s.targets[0], ast.Name) and isinstance(s.value, ast.Constant) and (isinstance(s.value.value, bool) or s.value.value is None):
                st = st | {"%s:=%s" % (s.targets[0].id, bool(s.value.value))}
        if isinstance(s, ast.Assign):
            vt = is_t(s.value, st)
            for t in s.targets:
                st = assign(st, t, s.value, vt)
        elif isinstance(s, ast.AnnAssign) and s.value is not None:
            st = assign(st, s.target, s.value, is_t(s.value, st))
        elif isinstance(s, ast.AugAssign):
            if is_t(s.value, st):
                for path, _ in _targets(s.target):
                    st = st | {path}
        else:
            for x in q.walk_local(s):
                if isinstance(x, ast.NamedExpr):
                    st = assign(st, x.target, x.value, is_t(x.value, st))
                elif isinstance(x, ast.Call) and isinstance(x.func, ast.Attribute) and x.func.attr in ("append", "extend", "add", "update", "insert", "setdefault"):
                    recv = q.dotted(x.func.value)
                    if recv and any(is_t(a, st) for a in list(x.args) + [k.value for k in x.keywords]):
                        st = st | {recv}
        return st

    def edge(n: Node, kind: str, st: FrozenSet[str]):
        if n.kind == "test" and kind in ("true", "false") and isinstance(n.ast, ast.Name):
            want = kind == "true"
            if ("%s:=%s" % (n.ast.id, not want)) in st:
                return None  # the flag is known to have the other value on this path
        if clean_on_edge is not None and kind in ("true", "false") and n.kind in ("test", "for"):
            for p in clean_on_edge(n, kind, tainted_of(st)) or ():
                if p.startswith("~"):
                    st = demote_path(st, p[1:]) if p[1:] in tainted_of(st) else st
                else:
                    st = clean_path(st, p)
        return st

    seen = explore(cfg, frozenset(sources), transfer, lambda t: False, edge_transfer=edge, follow_exc=follow_exc)
    return {nid: [tainted_of(v) for _f, v in states] for nid, states in seen.items()}


# ---------------------------------------------------------------------------
# regex guards


class Guard:
    """A branch test of the form ``P.<mode>(V)`` (optionally ``is [not] None``)."""

    def __init__(self, var: str, pattern, mode: str, truthy_means_matched: bool, node: ast.AST):
        self.var = var
        self.pattern = pattern
        self.mode = mode
        self.truthy_means_matched = truthy_means_matched
        self.node = node
        self._rx: Optional[Rx] = None

    @property
    def rx(self) -> Rx:
        if self._rx is None:
            self._rx = Rx.from_pattern(self.pattern, self.mode)
        return self._rx

    def matched_on(self, edge_kind: str) -> bool:
        return (edge_kind == "true") == self.truthy_means_matched

    def clean_for(self, edge_kind: str, forbidden: Iterable[int]) -> bool:
        """Taking ``edge_kind`` proves that the tested value contains none of ``forbidden``."""
        forbidden = list(forbidden)
        if self.matched_on(edge_kind):
            return self.rx.excludes_symbols(forbidden)
        return detects_all(self.rx, forbidden, isinstance(self.pattern, bytes))

    def undetected(self, forbidden: Iterable[int]) -> List[int]:
        return [b for b in forbidden if not detects_all(self.rx, [b], isinstance(self.pattern, bytes))]

    def admitted(self, forbidden: Iterable[int]) -> List[int]:
        return [b for b in forbidden if not self.rx.excludes_symbols([b])]


def detects_all(rx_in_mode: Rx, forbidden: Iterable[int], is_bytes: bool) -> bool:
    """Every string containing one of ``forbidden`` is in the language (so a
    *failed* match proves absence)."""
    for b in forbidden:
        if is_bytes:
            ref = Rx.from_pattern(b"[\\x00-\\xff]*\\x%02x[\\x00-\\xff]*" % b)
        else:
            ref = Rx.from_pattern("[\\x00-\\U0010ffff]*\\x%02x[\\x00-\\U0010ffff]*" % b)
        if not ref.subset_of(rx_in_mode):
            return False
    return True


UNWRAP = {"to_unicode", "native_str", "utf8", "str", "_unicode", "to_basestring"}


def _unwrap_value(e: ast.AST) -> Optional[str]:
    while isinstance(e, ast.Call) and q.call_attr(e) in UNWRAP and len(e.args) == 1:
        e = e.args[0]
    return q.dotted(e) if isinstance(e, (ast.Name, ast.Attribute)) else None


def resolve_pattern(repo: Repo, fi: FuncInfo, e: ast.AST):
    """Pattern text denoted by expression ``e`` used as a compiled pattern or as
    the pattern argument of ``re.<fn>``."""
    if isinstance(e, ast.Constant) and isinstance(e.value, (str, bytes)):
        return e.value
    if isinstance(e, ast.Call) and q.call_attr(e) == "compile":
        return eval_pattern_expr(e, {})
    d = q.dotted(e) if isinstance(e, (ast.Name, ast.Attribute)) else None
    if d is None:
        raise AnalysisError("cannot resolve regex object %s in %s" % (q.unparse(e), fi.qualname))
    parts = d.split(".")
    name = parts[-1]
    if len(parts) == 1 and hasattr(fi.node, "body"):
        defs = [st for st in q.walk_body(fi.node) if isinstance(st, (ast.Assign, ast.AnnAssign)) and name in q.assigned_paths(st) and st.value is not None]
        if len(defs) == 1 and not (isinstance(defs[0].value, ast.Name) and defs[0].value.id == name):
            return resolve_pattern(repo, fi, defs[0].value)
    if "_ABNF" in parts[:-1]:
        env = eval_abnf(repo)
        if name not in env:
            raise AnalysisError("_ABNF.%s not found" % name)
        return env[name]
    # class attribute: self.X / Cls.X / X inside the class
    if len(parts) >= 2 and parts[-2] in ("self", "cls") or (len(parts) >= 2 and parts[-2] in fi.module.classes):
        classes = [parts[-2]] if parts[-2] in fi.module.classes else [fi.qualname.split(".")[0]]
        for c in classes:
            try:
                return eval_pattern_expr(repo.class_attr(fi.file, c, name), {})
            except AnalysisError:
                pass
    # module-level constant here or in the module named by the prefix
    cands = [fi.file]
    if len(parts) >= 2:
        cands.insert(0, "tornado/%s.py" % parts[-2])
    for rel in cands:
        try:
            m = repo.module(rel)
        except AnalysisError:
            continue
        if name in m.assigns:
            return eval_pattern_expr(m.assigns[name], {})
    raise AnalysisError("cannot resolve regex object %s in %s" % (d, fi.qualname))


def regex_guard(repo: Repo, fi: FuncInfo, test: ast.AST) -> Optional[Guard]:
    """Recognise an atomic branch test that applies a regex to a value."""
    truthy = True
    t = test
    if isinstance(t, ast.NamedExpr):  # (m := P.search(x)) — the binding does not change what is tested
        t = t.value
    if isinstance(t, ast.Compare) and len(t.ops) == 1 and isinstance(t.comparators[0], ast.Constant) and t.comparators[0].value is None:
        if isinstance(t.ops[0], ast.Is):
            truthy = False
        elif not isinstance(t.ops[0], ast.IsNot):
            return None
        t = t.left
    if isinstance(t, ast.NamedExpr):
        t = t.value
    if not isinstance(t, ast.Call) or not isinstance(t.func, ast.Attribute):
        return None
    mode = t.func.attr
    if mode not in ("fullmatch", "match", "search"):
        return None
    recv = q.dotted(t.func.value)
    if recv in ("re",):
        if len(t.args) < 2:
            return None
        if len(t.args) > 2 or t.keywords:
            raise AnalysisError("re.%s with flags is not modelled in %s" % (mode, fi.qualname))
        pat = resolve_pattern(repo, fi, t.args[0])
        var = _unwrap_value(t.args[1])
    else:
        if len(t.args) != 1 or t.keywords:
            return None
        pat = resolve_pattern(repo, fi, t.func.value)
        var = _unwrap_value(t.args[0])
    if var is None:
        return None
    return Guard(var, pat, mode, truthy, test)


def guards_in(repo: Repo, fi: FuncInfo) -> List[Tuple[Node, Guard]]:
    out = []
    from .x_objalias import through_local

    for n in fi.cfg.stmt_nodes(lambda n: n.kind == "test"):
        g = regex_guard(repo, fi, through_local(fi, n.ast))
        if g is not None:
            out.append((n, g))
    return out


def regex_cleaner(repo: Repo, fi: FuncInfo, forbidden: Iterable[int], extra: Optional[Callable[[Node, str, Set[str]], Iterable[str]]] = None):
    """A ``clean_on_edge`` callback: regex guards that prove absence of ``forbidden``."""
    forbidden = list(forbidden)
    cache: Dict[int, Optional[Guard]] = {}

    def cb(n: Node, kind: str, tainted: Set[str]):
        out = []
        if n.kind == "test":
            if n.id not in cache:
                from .x_objalias import through_local

                cache[n.id] = regex_guard(repo, fi, through_local(fi, n.ast))
            g = cache[n.id]
            if g is not None and g.clean_for(kind, forbidden):
                out.append(g.var)
        if extra is not None:
            out.extend(extra(n, kind, tainted) or ())
        return out

    return cb


# ---------------------------------------------------------------------------
# refuse-before-mutate


def raise_after_mutation(cfg: CFG, mutates: Callable[[Node], bool], raises: Callable[[Node], bool], exempt: Optional[Callable[[Node, FrozenSet], bool]] = None, track: Optional[Callable[[str], bool]] = None) -> List[Tuple[Node, Node]]:
    """(raising node, a mutating node passed before it) for every node matching
    ``raises`` that some CFG path reaches after a node matching ``mutates``.
    A node matching both counts as raising first (its operands are evaluated
    before the store happens).  Used for APIs that must reject an argument
    before they touch the state they own, so that a rejected call leaves the
    effects of earlier, successful calls intact."""
    def transfer(n: Node, val):
        if mutates(n):
            return n.id if val < 0 else val
        return val

    seen = explore(cfg, -1, transfer, track or (lambda t: False), follow_exc=False)
    out = []
    for n in cfg.stmt_nodes(raises):
        for facts, val in seen.get(n.id, ()):
            if val >= 0 and not (exempt is not None and exempt(n, facts)):
                out.append((n, cfg.nodes[val]))
                break
    return out


# ---------------------------------------------------------------------------
# validators / sanitisers extracted into helper functions


class HelperSummaries:
    """Summaries of same-class methods / same-module functions used as validators.

    For a helper ``h(p1, .., pn)`` analysed with the *caller's* guard semantics
    (``make_cleaner(helper_fi)`` builds the ``clean_on_edge`` callback):

    * ``validates(h)``: indexes of the parameters that are clean in every state
      at the helper's normal exit (the helper raised on every other path) — a
      call statement ``h(x)`` then proves ``x`` clean in the caller;
    * ``returns_clean(h)``: every ``return`` value is clean although all
      parameters are tainted — ``h(x)`` is then a sanitiser expression.

    So a check that was moved into a helper is still decided (and a helper that
    lost its check is still reported at the sink)."""

    def __init__(self, repo: Repo, fi: FuncInfo, make_cleaner: Callable[[FuncInfo], Optional[Callable]], sanitizers: Iterable[str] = (), expr_hook=None, depth: int = 2, self_classes: Iterable[str] = ()):
        self.self_classes = tuple(self_classes)
        self.repo = repo
        self.fi = fi
        self.make_cleaner = make_cleaner
        self.sanitizers = tuple(sanitizers)
        self.base_hook = expr_hook
        self.depth = depth
        self._cache: Dict[str, Tuple[Set[int], bool]] = {}
        self._pred: Dict[str, Set[int]] = {}
        self._busy: Set[str] = set()

    def resolve(self, call: ast.Call) -> Optional[Tuple[FuncInfo, List[str]]]:
        rel = self.fi.file
        cls = self.fi.qualname.split(".")[0] if self.fi.cls is not None or "." in self.fi.qualname else None
        h = None
        if isinstance(call.func, ast.Attribute) and q.dotted(call.func.value) in ("self", "cls"):
            for c_ in ([cls] if cls else []) + list(self.self_classes):
                if self.repo.has_func(rel, "%s.%s" % (c_, call.func.attr)):
                    h = self.repo.func(rel, "%s.%s" % (c_, call.func.attr))
                    break
        elif isinstance(call.func, ast.Name) and self.repo.has_func(rel, call.func.id):
            h = self.repo.func(rel, call.func.id)
        if h is None or h is self.fi or isinstance(h.node, ast.AsyncFunctionDef):
            return None
        a = h.node.args
        params = [x.arg for x in a.posonlyargs + a.args]
        if params[:1] in (["self"], ["cls"]):
            params = params[1:]
        return h, params

    def summary(self, h: FuncInfo, params: List[str]) -> Tuple[Set[int], bool]:
        key = h.qualname
        if key in self._cache:
            return self._cache[key]
        if key in self._busy or len(self._busy) >= self.depth:
            return set(), False
        self._busy.add(key)
        try:
            sub = HelperSummaries(self.repo, h, self.make_cleaner, self.sanitizers, self.base_hook, self.depth, self.self_classes)
            sub._busy = self._busy
            sub._cache = self._cache
            sub._pred = self._pred
            states = flow_taint(h, params, sanitizers=self.sanitizers, clean_on_edge=sub.cleaner(self.make_cleaner(h)), on_node=sub.on_node, expr_hook=sub.expr_hook)
            exits = states.get(h.cfg.exit.id, [])
            val = set()
            if exits:
                for i, p in enumerate(params):
                    if all(p not in t for t in exits):
                        val.add(i)
            rets = h.cfg.stmt_nodes(lambda n: n.kind == "stmt" and isinstance(n.ast, ast.Return) and n.ast.value is not None)
            rc = bool(rets) and all(not expr_tainted(r.ast.value, t, self.sanitizers, (), sub.expr_hook) for r in rets for t in states.get(r.id, []))
            # predicate helpers: whenever the helper may return something truthy, the parameter is clean
            cleaner = self.make_cleaner(h)
            pred = set()
            if rets:
                for i, p in enumerate(params):
                    ok = True
                    for r in rets:
                        v = r.ast.value
                        if isinstance(v, ast.Constant) and not v.value:
                            continue
                        for t in states.get(r.id, []):
                            if p not in t:
                                continue
                            fake = _FakeTest(v)
                            cleaned = set(cleaner(fake, "true", t) or ()) if cleaner is not None else set()
                            if p not in cleaned:
                                ok = False
                    if ok:
                        pred.add(i)
            self._pred[key] = pred
            self._cache[key] = (val, rc)
            return self._cache[key]
        finally:
            self._busy.discard(key)

    def on_node(self, n: Node, st: FrozenSet[str]) -> Optional[FrozenSet[str]]:
        if n.kind != "stmt" or n.ast is None:
            return None
        out = st
        for c in q.calls(n.ast):
            r = self.resolve(c)
            if r is None:
                continue
            h, params = r
            val, _rc = self.summary(h, params)
            for i in val:
                arg = c.args[i] if i < len(c.args) and not any(isinstance(a, ast.Starred) for a in c.args[: i + 1]) else q.kwarg(c, params[i])
                d = _unwrap_value(arg) if arg is not None else None
                if d:
                    out = clean_path(out, d)
        return out if out is not st else None

    def cleaner(self, base: Optional[Callable] = None):
        """``clean_on_edge`` callback: ``base`` plus 'a predicate helper returned true'."""

        def cb(n: Node, kind: str, tainted: Set[str]):
            out = list(base(n, kind, tainted) or ()) if base is not None else []
            if n.kind == "test" and kind == "true" and isinstance(n.ast, ast.Call):
                r = self.resolve(n.ast)
                if r is not None:
                    h, params = r
                    self.summary(h, params)
                    for i in self._pred.get(h.qualname, ()):
                        arg = n.ast.args[i] if i < len(n.ast.args) else q.kwarg(n.ast, params[i])
                        d = _unwrap_value(arg) if arg is not None else None
                        if d:
                            out.append(d)
            return out

        return cb

    def expr_hook(self, x: ast.AST) -> Optional[bool]:
        if self.base_hook is not None:
            r = self.base_hook(x)
            if r is not None:
                return r
        if isinstance(x, ast.Call):
            r = self.resolve(x)
            if r is not None:
                h, params = r
                _val, rc = self.summary(h, params)
                if rc:
                    return False
        return None


_fake_ids = [0]


class _FakeTest:
    """A stand-in for a CFG test node: 'the value returned by the helper is truthy'."""

    kind = "test"

    def __init__(self, expr: ast.AST):
        _fake_ids[0] -= 1
        self.id = _fake_ids[0]
        self.ast = expr


def guards_like(h: FuncInfo) -> bool:
    """The helper contains a branch or a raise (it can reject something)."""
    return any(isinstance(n, (ast.If, ast.Raise, ast.IfExp, ast.Assert)) for n in q.walk_body(h.node))
