"""x_taint — flow-sensitive forward taint over one function's CFG, with guards.

State: the set of *tainted paths* (local names / dotted attribute paths) plus
alias records ``a=b`` (``a`` was bound directly to the value of path ``b``).
Assignments update the state strongly for names and attribute paths and weakly
for containers.  A rule supplies

* ``sources``: paths tainted on entry (parameters, ``self.request.path`` …),
* ``sanitizers``: callee names whose result is clean whatever the arguments,
* ``clean_on_edge(node, edge_kind, tainted) -> paths``: paths proven clean by
  taking that branch edge (a regex guard whose language — decided by
  :mod:`vt.rx` — excludes/detects the forbidden symbols, a ``startswith``
  rejection, an ``isinstance`` test …).

The propagation is path-sensitive (built on :func:`vt.cfg.explore`), so
"either validated or overwritten by a constant" is seen without a solver.

Also here: recognition of regex guards in branch tests and resolution of the
pattern objects they use (class attributes, ``_ABNF`` members, module-level
``re.compile`` constants, literal patterns passed to ``re.search``).
"""
from __future__ import annotations

import ast
from typing import Callable, Dict, FrozenSet, Iterable, List, Optional, Set, Tuple

from . import q
from .cfg import CFG, Node, explore, _node_roots
from .model import AnalysisError, FuncInfo, Repo
from .rx import Rx, eval_abnf, eval_pattern_expr

PROPAGATING_METHODS = {
    "strip", "lstrip", "rstrip", "lower", "upper", "split", "rsplit", "partition", "rpartition", "replace", "decode", "encode",
    "format", "join", "title", "capitalize", "items", "values", "keys", "get", "pop", "copy", "OutputString", "output",
}
CONVERSIONS = {"str", "bytes", "utf8", "native_str", "to_unicode", "to_basestring", "_unicode", "escape.native_str", "escape.utf8", "escape.to_unicode", "list", "tuple", "dict", "sorted", "set"}
SCOPE = (ast.Lambda, ast.FunctionDef, ast.AsyncFunctionDef, ast.ClassDef)


def _prefixes(d: str) -> List[str]:
    parts = d.split(".")
    return [".".join(parts[:i]) for i in range(1, len(parts) + 1)]


def expr_tainted(e: ast.AST, tainted: Iterable[str], sanitizers: Iterable[str] = (), source_calls: Iterable[str] = (), expr_hook: Optional[Callable[[ast.AST], Optional[bool]]] = None) -> bool:
    """``e`` may carry tainted data: it mentions a tainted path outside any sanitizer call.
    ``expr_hook(sub_expression)`` may decide a sub-expression (True/False) or return None."""
    tainted = set(tainted)
    sanitizers = set(sanitizers)
    source_calls = tuple(source_calls)

    def rec(x: ast.AST) -> bool:
        if expr_hook is not None:
            r = expr_hook(x)
            if r is not None:
                return r
        if isinstance(x, ast.Call):
            nm = q.call_attr(x)
            d = q.dotted(x.func)
            if nm in sanitizers or (d is not None and d in sanitizers):
                return False
            if source_calls and q.is_call(x, *source_calls):
                return True
        if isinstance(x, (ast.Name, ast.Attribute)):
            d = q.dotted(x)
            if d is not None:
                return any(p in tainted for p in _prefixes(d))
        if isinstance(x, SCOPE):
            return False
        return any(rec(c) for c in ast.iter_child_nodes(x))

    return rec(e)


def _targets(t: ast.AST) -> List[Tuple[str, bool]]:
    """(path, strong?) for an assignment target."""
    if isinstance(t, (ast.Tuple, ast.List)):
        out = []
        for x in t.elts:
            out.extend(_targets(x))
        return out
    if isinstance(t, ast.Starred):
        return _targets(t.value)
    if isinstance(t, ast.Subscript):
        d = q.dotted(t.value)
        return [(d, False)] if d else []
    d = q.dotted(t)
    return [(d, True)] if d else []


def clean_path(state: FrozenSet[str], path: str) -> FrozenSet[str]:
    """Remove ``path`` and everything recorded as the same value (aliases, both ways)."""
    same = {path}
    changed = True
    while changed:
        changed = False
        for s in state:
            if "=" in s:
                a, b = s.split("=", 1)
                if a in same and b not in same:
                    same.add(b)
                    changed = True
                if b in same and a not in same:
                    same.add(a)
                    changed = True
    return frozenset(s for s in state if s not in same)


def tainted_of(state: FrozenSet[str]) -> Set[str]:
    return {s for s in state if "=" not in s}


def flow_taint(
    fi_or_cfg,
    sources: Iterable[str],
    sanitizers: Iterable[str] = (),
    clean_on_edge: Optional[Callable[[Node, str, Set[str]], Iterable[str]]] = None,
    source_calls: Iterable[str] = (),
    follow_exc: bool = False,
    on_node: Optional[Callable[[Node, FrozenSet[str]], Optional[FrozenSet[str]]]] = None,
    expr_hook: Optional[Callable[[ast.AST], Optional[bool]]] = None,
) -> Dict[int, List[Set[str]]]:
    """Returns node id -> list of tainted-path sets (one per path-sensitive state) at node entry."""
    cfg: CFG = fi_or_cfg.cfg if isinstance(fi_or_cfg, FuncInfo) else fi_or_cfg
    sanitizers = set(sanitizers)
    source_calls = tuple(source_calls)

    def is_t(e, st):
        return expr_tainted(e, tainted_of(st), sanitizers, source_calls, expr_hook)

    def assign(st: FrozenSet[str], t: ast.AST, val: Optional[ast.AST], val_tainted: bool) -> FrozenSet[str]:
        cur = set(st)
        if isinstance(t, (ast.Tuple, ast.List)) and isinstance(val, (ast.Tuple, ast.List)) and len(val.elts) == len(t.elts):
            out = frozenset(cur)
            for x, v in zip(t.elts, val.elts):
                out = assign(out, x, v, is_t(v, st))
            return out
        for path, strong in _targets(t):
            if strong:
                # forget everything known about path and below
                cur = {s for s in cur if not (s == path or s.startswith(path + ".") or s.startswith(path + "=") or s.endswith("=" + path))}
                if val_tainted:
                    cur.add(path)
                    src = q.dotted(val) if isinstance(val, (ast.Name, ast.Attribute)) else None
                    if src:
                        cur.add("%s=%s" % (path, src))
            elif val_tainted:
                cur.add(path)
        return frozenset(cur)

    def transfer(n: Node, st: FrozenSet[str]):
        if on_node is not None:
            r = on_node(n, st)
            if r is not None:
                st = r
        if n.ast is None:
            return st
        if n.kind == "for":
            return assign(st, n.ast.target, None, is_t(n.ast.iter, st))
        if n.kind == "with":
            for it in n.ast.items:
                if it.optional_vars is not None:
                    st = assign(st, it.optional_vars, None, is_t(it.context_expr, st))
            return st
        if n.kind != "stmt":
            return st
        s = n.ast
        if isinstance(s, ast.Assign):
            vt = is_t(s.value, st)
            for t in s.targets:
                st = assign(st, t, s.value, vt)
        elif isinstance(s, ast.AnnAssign) and s.value is not None:
            st = assign(st, s.target, s.value, is_t(s.value, st))
        elif isinstance(s, ast.AugAssign):
            if is_t(s.value, st):
                for path, _ in _targets(s.target):
                    st = st | {path}
        else:
            for x in q.walk_local(s):
                if isinstance(x, ast.NamedExpr):
                    st = assign(st, x.target, x.value, is_t(x.value, st))
                elif isinstance(x, ast.Call) and isinstance(x.func, ast.Attribute) and x.func.attr in ("append", "extend", "add", "update", "insert", "setdefault"):
                    recv = q.dotted(x.func.value)
                    if recv and any(is_t(a, st) for a in list(x.args) + [k.value for k in x.keywords]):
                        st = st | {recv}
        return st

    def edge(n: Node, kind: str, st: FrozenSet[str]):
        if clean_on_edge is not None and kind in ("true", "false") and n.kind in ("test", "for"):
            for p in clean_on_edge(n, kind, tainted_of(st)) or ():
                st = clean_path(st, p)
        return st

    seen = explore(cfg, frozenset(sources), transfer, lambda t: False, edge_transfer=edge, follow_exc=follow_exc)
    return {nid: [tainted_of(v) for _f, v in states] for nid, states in seen.items()}


# ---------------------------------------------------------------------------
# regex guards


class Guard:
    """A branch test of the form ``P.<mode>(V)`` (optionally ``is [not] None``)."""

    def __init__(self, var: str, pattern, mode: str, truthy_means_matched: bool, node: ast.AST):
        self.var = var
        self.pattern = pattern
        self.mode = mode
        self.truthy_means_matched = truthy_means_matched
        self.node = node
        self._rx: Optional[Rx] = None

    @property
    def rx(self) -> Rx:
        if self._rx is None:
            self._rx = Rx.from_pattern(self.pattern, self.mode)
        return self._rx

    def matched_on(self, edge_kind: str) -> bool:
        return (edge_kind == "true") == self.truthy_means_matched

    def clean_for(self, edge_kind: str, forbidden: Iterable[int]) -> bool:
        """Taking ``edge_kind`` proves that the tested value contains none of ``forbidden``."""
        forbidden = list(forbidden)
        if self.matched_on(edge_kind):
            return self.rx.excludes_symbols(forbidden)
        return detects_all(self.rx, forbidden, isinstance(self.pattern, bytes))

    def undetected(self, forbidden: Iterable[int]) -> List[int]:
        return [b for b in forbidden if not detects_all(self.rx, [b], isinstance(self.pattern, bytes))]

    def admitted(self, forbidden: Iterable[int]) -> List[int]:
        return [b for b in forbidden if not self.rx.excludes_symbols([b])]


def detects_all(rx_in_mode: Rx, forbidden: Iterable[int], is_bytes: bool) -> bool:
    """Every string containing one of ``forbidden`` is in the language (so a
    *failed* match proves absence)."""
    for b in forbidden:
        if is_bytes:
            ref = Rx.from_pattern(b"[\\x00-\\xff]*\\x%02x[\\x00-\\xff]*" % b)
        else:
            ref = Rx.from_pattern("[\\x00-\\U0010ffff]*\\x%02x[\\x00-\\U0010ffff]*" % b)
        if not ref.subset_of(rx_in_mode):
            return False
    return True


UNWRAP = {"to_unicode", "native_str", "utf8", "str", "_unicode", "to_basestring"}


def _unwrap_value(e: ast.AST) -> Optional[str]:
    while isinstance(e, ast.Call) and q.call_attr(e) in UNWRAP and len(e.args) == 1:
        e = e.args[0]
    return q.dotted(e) if isinstance(e, (ast.Name, ast.Attribute)) else None


def resolve_pattern(repo: Repo, fi: FuncInfo, e: ast.AST):
    """Pattern text denoted by expression ``e`` used as a compiled pattern or as
    the pattern argument of ``re.<fn>``."""
    if isinstance(e, ast.Constant) and isinstance(e.value, (str, bytes)):
        return e.value
    if isinstance(e, ast.Call) and q.call_attr(e) == "compile":
        return eval_pattern_expr(e, {})
    d = q.dotted(e) if isinstance(e, (ast.Name, ast.Attribute)) else None
    if d is None:
        raise AnalysisError("cannot resolve regex object %s in %s" % (q.unparse(e), fi.qualname))
    parts = d.split(".")
    name = parts[-1]
    if len(parts) == 1 and hasattr(fi.node, "body"):
        defs = [st for st in q.walk_body(fi.node) if isinstance(st, (ast.Assign, ast.AnnAssign)) and name in q.assigned_paths(st) and st.value is not None]
        if len(defs) == 1 and not (isinstance(defs[0].value, ast.Name) and defs[0].value.id == name):
            return resolve_pattern(repo, fi, defs[0].value)
    if "_ABNF" in parts[:-1]:
        env = eval_abnf(repo)
        if name not in env:
            raise AnalysisError("_ABNF.%s not found" % name)
        return env[name]
    # class attribute: self.X / Cls.X / X inside the class
    if len(parts) >= 2 and parts[-2] in ("self", "cls") or (len(parts) >= 2 and parts[-2] in fi.module.classes):
        classes = [parts[-2]] if parts[-2] in fi.module.classes else [fi.qualname.split(".")[0]]
        for c in classes:
            try:
                return eval_pattern_expr(repo.class_attr(fi.file, c, name), {})
            except AnalysisError:
                pass
    # module-level constant here or in the module named by the prefix
    cands = [fi.file]
    if len(parts) >= 2:
        cands.insert(0, "tornado/%s.py" % parts[-2])
    for rel in cands:
        try:
            m = repo.module(rel)
        except AnalysisError:
            continue
        if name in m.assigns:
            return eval_pattern_expr(m.assigns[name], {})
    raise AnalysisError("cannot resolve regex object %s in %s" % (d, fi.qualname))


def regex_guard(repo: Repo, fi: FuncInfo, test: ast.AST) -> Optional[Guard]:
    """Recognise an atomic branch test that applies a regex to a value."""
    truthy = True
    t = test
    if isinstance(t, ast.Compare) and len(t.ops) == 1 and isinstance(t.comparators[0], ast.Constant) and t.comparators[0].value is None:
        if isinstance(t.ops[0], ast.Is):
            truthy = False
        elif not isinstance(t.ops[0], ast.IsNot):
            return None
        t = t.left
    if not isinstance(t, ast.Call) or not isinstance(t.func, ast.Attribute):
        return None
    mode = t.func.attr
    if mode not in ("fullmatch", "match", "search"):
        return None
    recv = q.dotted(t.func.value)
    if recv in ("re",):
        if len(t.args) < 2:
            return None
        if len(t.args) > 2 or t.keywords:
            raise AnalysisError("re.%s with flags is not modelled in %s" % (mode, fi.qualname))
        pat = resolve_pattern(repo, fi, t.args[0])
        var = _unwrap_value(t.args[1])
    else:
        if len(t.args) != 1 or t.keywords:
            return None
        pat = resolve_pattern(repo, fi, t.func.value)
        var = _unwrap_value(t.args[0])
    if var is None:
        return None
    return Guard(var, pat, mode, truthy, test)


def guards_in(repo: Repo, fi: FuncInfo) -> List[Tuple[Node, Guard]]:
    out = []
    for n in fi.cfg.stmt_nodes(lambda n: n.kind == "test"):
        g = regex_guard(repo, fi, n.ast)
        if g is not None:
            out.append((n, g))
    return out


def regex_cleaner(repo: Repo, fi: FuncInfo, forbidden: Iterable[int], extra: Optional[Callable[[Node, str, Set[str]], Iterable[str]]] = None):
    """A ``clean_on_edge`` callback: regex guards that prove absence of ``forbidden``."""
    forbidden = list(forbidden)
    cache: Dict[int, Optional[Guard]] = {}

    def cb(n: Node, kind: str, tainted: Set[str]):
        out = []
        if n.kind == "test":
            if n.id not in cache:
                cache[n.id] = regex_guard(repo, fi, n.ast)
            g = cache[n.id]
            if g is not None and g.clean_for(kind, forbidden):
                out.append(g.var)
        if extra is not None:
            out.extend(extra(n, kind, tainted) or ())
        return out

    return cb
