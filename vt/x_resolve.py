"""Recognisers shared by the g2 checkers (C06 C27 C30 C43 C47): look *through*
routine refactorings instead of at the syntactic position of a statement.

* ``unique_def(fi, name)``  — the defining expression of a local bound exactly
  once (plain / annotated assignment, walrus, element of a tuple assignment
  whose right side is a tuple or ``m.group(i, j, ..)``); None otherwise
  (parameters, loop variables, augmented or repeated bindings).
* ``expand(fi, e, depth)``  — copy of ``e`` with such locals replaced by their
  definitions, recursively ("what the value *is*", not what it is called).
* ``resolve(fi, e)``        — follow a chain of pure aliases at the top only.
* ``normalise(fi)``         — a FuncInfo over a rewritten copy of the function:
  N1 loops over a literal table of constants are unrolled (loop variables
  substituted), N2 single-definition aliases of an attribute path / name that
  is not re-assigned in the function are substituted.  Both are syntactic and
  behaviour preserving; rules that talk about dictionary keys, header names
  etc. run on the normalised body.
* ``callee(repo, fi, call)`` / ``arg_map(callee_fi, call)`` — same-module /
  same-class helper resolution for ``h(..)``, ``self.h(..)``, ``cls.h(..)``,
  ``Class.h(..)`` and the parameter -> argument mapping.
* ``short_circuit_facts(pm, node)`` — (text, polarity) facts that hold when
  ``node`` is evaluated because of an enclosing ``and`` / ``or`` / conditional
  expression in *value* position (the CFG only splits statement tests).
* ``in_annotation(pm, node)`` — node is part of a type annotation (not code).
"""
from __future__ import annotations

import ast
import copy
from typing import Dict, List, Optional, Set, Tuple

from . import q
from .cfg import canon_fact
from .model import FuncInfo, Repo


def _bindings(fi: FuncInfo, name: str) -> List[Optional[ast.AST]]:
    """One entry per binding of local ``name``: the defining expression, or None when not expressible."""
    out: List[Optional[ast.AST]] = []
    if name in fi.params():
        out.append(None)
    for n in q.walk_body(fi.node):
        if isinstance(n, ast.Assign):
            for t in n.targets:
                if isinstance(t, ast.Name) and t.id == name:
                    out.append(n.value)
                elif isinstance(t, (ast.Tuple, ast.List)) and name in q.names_in(t):
                    v = n.value
                    idx = [i for i, e in enumerate(t.elts) if isinstance(e, ast.Name) and e.id == name]
                    if len(idx) != 1:
                        out.append(None)
                    elif isinstance(v, (ast.Tuple, ast.List)) and len(v.elts) == len(t.elts):
                        out.append(v.elts[idx[0]])
                    elif isinstance(v, ast.Call) and isinstance(v.func, ast.Attribute) and v.func.attr == "group" and len(v.args) == len(t.elts) and len(v.args) > 1:
                        out.append(ast.Call(func=v.func, args=[v.args[idx[0]]], keywords=[]))
                    elif isinstance(v, (ast.Name, ast.Attribute)) and q.dotted(v) is not None and not any(isinstance(e, ast.Starred) for e in t.elts):
                        # a, b, c = seq : element i is seq[i]
                        out.append(ast.Subscript(value=copy.deepcopy(v), slice=ast.Constant(value=idx[0]), ctx=ast.Load()))
                    elif isinstance(v, ast.Call) and isinstance(v.func, ast.Attribute) and v.func.attr == "groups" and not v.args and not v.keywords:
                        # m.groups() unpacked into n names: element i is m.group(i + 1) (arity is the caller's obligation)
                        out.append(ast.Call(func=ast.Attribute(value=v.func.value, attr="group", ctx=ast.Load()), args=[ast.Constant(value=idx[0] + 1)], keywords=[]))
                    else:
                        out.append(None)
                elif name in q.names_in(t) and not isinstance(t, (ast.Attribute, ast.Subscript)):
                    out.append(None)
        elif isinstance(n, ast.AnnAssign) and isinstance(n.target, ast.Name) and n.target.id == name:
            if n.value is not None:
                out.append(n.value)
        elif isinstance(n, ast.AugAssign) and isinstance(n.target, ast.Name) and n.target.id == name:
            out.append(None)
        elif isinstance(n, ast.NamedExpr) and n.target.id == name:
            out.append(n.value)
        elif isinstance(n, (ast.For, ast.AsyncFor, ast.comprehension)) and name in q.names_in(n.target):
            out.append(None)
        elif isinstance(n, (ast.With, ast.AsyncWith)):
            for it in n.items:
                if it.optional_vars is not None and name in q.names_in(it.optional_vars):
                    out.append(None)
        elif isinstance(n, ast.ExceptHandler) and n.name == name:
            out.append(None)
        elif isinstance(n, (ast.Import, ast.ImportFrom)):
            for a in n.names:
                if (a.asname or a.name).split(".")[0] == name:
                    out.append(None)
    return out


def _is_plain_const(v: ast.AST) -> bool:
    if isinstance(v, ast.Constant) and isinstance(v.value, (str, bytes, int, float, bool, type(None))):
        return True
    if isinstance(v, (ast.Tuple, ast.List, ast.Set)) and v.elts:
        return all(_is_plain_const(x) for x in v.elts)
    if isinstance(v, ast.Call) and q.dotted(v.func) == "frozenset" and len(v.args) == 1:
        return _is_plain_const(v.args[0])
    if isinstance(v, ast.BinOp) and isinstance(v.op, (ast.Add, ast.Sub, ast.Mult, ast.FloorDiv, ast.LShift, ast.Pow)):
        return _is_plain_const(v.left) and _is_plain_const(v.right)   # 10 * 1024, 1 << 20, "a" + "b"
    if isinstance(v, ast.UnaryOp) and isinstance(v.op, ast.USub):
        return _is_plain_const(v.operand)
    return False


def module_const(fi: FuncInfo, name: str) -> Optional[ast.AST]:
    """The literal a module-level (or, for ``self.X``/``cls.X``/``Class.X``, class-level) name is bound to, provided it
    is bound exactly once at that level to a plain literal and no function of the module rebinds it (``global``)."""
    mod = fi.module
    if "." in name:
        base, _, attr = name.rpartition(".")
        cls = fi.cls if base in ("self", "cls") else mod.classes.get(base)
        if cls is None:
            return None
        vals = [st.value for st in cls.body if isinstance(st, ast.Assign) and any(isinstance(t, ast.Name) and t.id == attr for t in st.targets)]
        vals += [st.value for st in cls.body if isinstance(st, ast.AnnAssign) and isinstance(st.target, ast.Name) and st.target.id == attr and st.value is not None]
        return vals[0] if len(vals) == 1 and _is_plain_const(vals[0]) else None
    tops = [st for st in mod.tree.body if (isinstance(st, ast.Assign) and any(isinstance(t, ast.Name) and t.id == name for t in st.targets)) or (isinstance(st, ast.AnnAssign) and isinstance(st.target, ast.Name) and st.target.id == name and st.value is not None)]
    if len(tops) != 1 or not _is_plain_const(tops[0].value):
        return None
    cache = getattr(mod, "_g2_globals", None)
    if cache is None:
        cache = {nm for n in ast.walk(mod.tree) if isinstance(n, ast.Global) for nm in n.names}
        try:
            mod._g2_globals = cache
        except Exception:
            pass
    if name in cache:
        return None
    return tops[0].value


def unique_def(fi: FuncInfo, name: str) -> Optional[ast.AST]:
    bs = _bindings(fi, name)
    if len(bs) == 1 and bs[0] is not None and not q.has_suspension(bs[0]):
        return bs[0]
    return None


def expand(fi: FuncInfo, e: ast.AST, depth: int = 5, keep=()) -> ast.AST:
    """``keep``: names that must stay names (e.g. match objects whose ``.group(k)`` the rule wants to see)."""
    cache: Dict[str, Optional[ast.AST]] = {k: None for k in keep}
    locs = q.local_names(fi.node) | set(fi.params())

    class T(ast.NodeTransformer):
        def __init__(self, d, seen):
            self.d = d
            self.seen = seen

        def visit_Name(self, node):
            if not isinstance(node.ctx, ast.Load) or self.d <= 0 or node.id in self.seen:
                return node
            if node.id not in cache:
                d_ = unique_def(fi, node.id)
                if d_ is None and node.id not in locs:
                    d_ = module_const(fi, node.id)
                cache[node.id] = d_
            v = cache[node.id]
            if v is None:
                return node
            return T(self.d - 1, self.seen | {node.id}).visit(copy.deepcopy(v))

        def visit_Lambda(self, node):
            return node

    return T(depth, frozenset()).visit(copy.deepcopy(e))


def resolve(fi: FuncInfo, e: ast.AST, depth: int = 5) -> ast.AST:
    while depth > 0 and isinstance(e, ast.Name):
        v = unique_def(fi, e.id)
        if v is None:
            break
        e = v
        depth -= 1
    return e


# ---------------------------------------------------------------------------
# normalisation


def _is_const_table(e: ast.AST) -> Optional[List[ast.AST]]:
    if isinstance(e, (ast.Tuple, ast.List)) and 1 <= len(e.elts) <= 8:
        def const(x):
            return isinstance(x, ast.Constant) or (isinstance(x, (ast.Tuple, ast.List)) and all(const(y) for y in x.elts))
        if all(const(x) for x in e.elts):
            return list(e.elts)
    return None


class _SubstNames(ast.NodeTransformer):
    def __init__(self, mapping: Dict[str, ast.AST]):
        self.mapping = mapping

    def visit_Name(self, node):
        if isinstance(node.ctx, ast.Load) and node.id in self.mapping:
            return copy.deepcopy(self.mapping[node.id])
        return node


def _unroll(body: List[ast.stmt], consts=None) -> List[ast.stmt]:
    out: List[ast.stmt] = []
    for st in body:
        for fld in ("body", "orelse", "finalbody"):
            sub = getattr(st, fld, None)
            if isinstance(sub, list) and sub and isinstance(sub[0], ast.stmt):
                setattr(st, fld, _unroll(sub, consts))
        if isinstance(st, ast.Try):
            for h in st.handlers:
                h.body = _unroll(h.body, consts)
        if isinstance(st, ast.For) and not st.orelse:
            it = st.iter
            if isinstance(it, ast.Name) and consts is not None and consts(it.id) is not None:
                it = consts(it.id)     # a module-level constant table
            rows = _is_const_table(it)
            names = [n for n in ast.walk(st.target) if isinstance(n, ast.Name)]
            simple = isinstance(st.target, ast.Name) or (isinstance(st.target, (ast.Tuple, ast.List)) and all(isinstance(x, ast.Name) for x in st.target.elts))
            jumps = any(isinstance(x, (ast.Break, ast.Continue)) for s in st.body for x in q.walk_local(s))
            rebinds = any(isinstance(x, ast.Name) and isinstance(x.ctx, (ast.Store, ast.Del)) and x.id in {n.id for n in names} for s in st.body for x in q.walk_local(s))
            if rows is not None and simple and not jumps and not rebinds:
                ok = True
                chunks: List[ast.stmt] = []
                for row in rows:
                    if isinstance(st.target, ast.Name):
                        mp = {st.target.id: row}
                    else:
                        if not isinstance(row, (ast.Tuple, ast.List)) or len(row.elts) != len(st.target.elts):
                            ok = False
                            break
                        mp = {t.id: v for t, v in zip(st.target.elts, row.elts)}
                    for s in st.body:
                        chunks.append(ast.copy_location(_SubstNames(mp).visit(copy.deepcopy(s)), s))
                if ok:
                    out.extend(chunks)
                    continue
        out.append(st)
    return out


def normalise(fi: FuncInfo) -> FuncInfo:
    node = copy.deepcopy(fi.node)
    locs = q.local_names(node)
    node.body = _unroll(node.body, lambda nm: fi.module.assigns.get(nm) if nm not in locs else None)
    # N3: `a, b = (f(p) for p in (x, y))` / list comprehension over a literal of the same arity -> `a, b = (f(x), f(y))`
    for st in ast.walk(node):
        if isinstance(st, ast.Assign) and len(st.targets) == 1 and isinstance(st.targets[0], (ast.Tuple, ast.List)) and isinstance(st.value, (ast.GeneratorExp, ast.ListComp)):
            g = st.value
            if len(g.generators) == 1 and not g.generators[0].ifs and isinstance(g.generators[0].target, ast.Name) and isinstance(g.generators[0].iter, (ast.Tuple, ast.List)) and len(g.generators[0].iter.elts) == len(st.targets[0].elts):
                v = g.generators[0].target.id
                st.value = ast.copy_location(ast.Tuple(elts=[_SubstNames({v: e}).visit(copy.deepcopy(g.elt)) for e in g.generators[0].iter.elts], ctx=ast.Load()), g)
    # N6: `x = A if C else B` (statement level, single name target) is `if C: x = A else: x = B`
    def split_ifexp(stmts: List[ast.stmt]) -> List[ast.stmt]:
        out2: List[ast.stmt] = []
        for st in stmts:
            if isinstance(st, (ast.FunctionDef, ast.AsyncFunctionDef, ast.ClassDef)):
                out2.append(st)
                continue
            for fld in ("body", "orelse", "finalbody"):
                sub = getattr(st, fld, None)
                if isinstance(sub, list) and sub and isinstance(sub[0], ast.stmt):
                    setattr(st, fld, split_ifexp(sub))
            if isinstance(st, ast.Try):
                for h_ in st.handlers:
                    h_.body = split_ifexp(h_.body)
            tgt = st.targets[0] if isinstance(st, ast.Assign) and len(st.targets) == 1 else (st.target if isinstance(st, ast.AnnAssign) else None)
            if tgt is not None and isinstance(tgt, ast.Name) and isinstance(getattr(st, "value", None), ast.IfExp):
                ie = st.value
                a_ = copy.copy(st)
                b_ = ast.Assign(targets=[ast.Name(id=tgt.id, ctx=ast.Store())], value=ie.orelse)
                a_.value = ie.body
                new_if = ast.If(test=ie.test, body=[a_], orelse=[b_])
                ast.copy_location(new_if, st)
                ast.copy_location(b_, st)
                out2.extend(split_ifexp([new_if]))
                continue
            out2.append(st)
        return out2

    node.body = split_ifexp(node.body)
    # N5: `d.update({K: V for T in IT})` is the loop `for T in IT: d[K] = V`
    class Upd(ast.NodeTransformer):
        def visit_Expr(self, st):
            c = st.value
            # N7: a comprehension evaluated only for its side effects, `[f(x) for T in IT if C]`, is the loop it abbreviates
            if isinstance(c, ast.ListComp) and len(c.generators) == 1 and not c.generators[0].is_async and isinstance(c.elt, ast.Call):
                g = c.generators[0]
                body: List[ast.stmt] = [ast.Expr(value=c.elt)]
                for cond in reversed(g.ifs):
                    body = [ast.If(test=cond, body=body, orelse=[])]
                return ast.copy_location(ast.For(target=_as_store(g.target), iter=g.iter, body=body, orelse=[]), st)
            if isinstance(c, ast.Call) and isinstance(c.func, ast.Attribute) and c.func.attr == "update" and len(c.args) == 1 and not c.keywords and isinstance(c.args[0], ast.DictComp) and q.dotted(c.func.value) is not None:
                dc = c.args[0]
                if len(dc.generators) == 1 and not dc.generators[0].is_async:
                    g = dc.generators[0]
                    body: List[ast.stmt] = [ast.Assign(targets=[ast.Subscript(value=copy.deepcopy(c.func.value), slice=dc.key, ctx=ast.Store())], value=dc.value)]
                    for cond in reversed(g.ifs):
                        body = [ast.If(test=cond, body=body, orelse=[])]
                    loop = ast.For(target=_as_store(g.target), iter=g.iter, body=body, orelse=[])
                    return ast.copy_location(loop, st)
            return st

        def visit_FunctionDef(self, n):
            return n

        visit_AsyncFunctionDef = visit_FunctionDef
        visit_Lambda = visit_FunctionDef

    node.body = [Upd().visit(st) for st in node.body]
    ast.fix_missing_locations(node)
    tmp = FuncInfo(fi.module, fi.qualname, node, fi.cls, fi.parent)
    # N2: aliases of a path that is never (re)assigned in the function
    mapping: Dict[str, ast.AST] = {}
    assigned: Set[str] = set()
    for st in q.walk_body(node):
        if isinstance(st, ast.stmt):
            assigned |= {p[:-2] if p.endswith("[]") else p for p in q.assigned_paths(st) if not p.endswith("[]")}
    outer_scope = {nm for st in q.walk_body(node) if isinstance(st, (ast.Global, ast.Nonlocal)) for nm in st.names}
    for st in q.walk_body(node):
        if isinstance(st, ast.Assign) and len(st.targets) == 1 and isinstance(st.targets[0], ast.Name):
            name = st.targets[0].id
            if name in outer_scope:
                continue   # a write to a global / closure variable is an effect, not an alias
            d = q.dotted(st.value) if isinstance(st.value, (ast.Attribute, ast.Name)) else None
            if d is None or unique_def(tmp, name) is None:
                continue
            parts = d.split(".")
            prefixes = {".".join(parts[:i]) for i in range(1, len(parts) + 1)}
            if prefixes & (assigned - {name}):
                continue
            mapping[name] = st.value
    if mapping:
        class Drop(ast.NodeTransformer):
            def visit_Assign(self, st):
                if len(st.targets) == 1 and isinstance(st.targets[0], ast.Name) and st.targets[0].id in mapping and st.value is mapping[st.targets[0].id]:
                    return ast.copy_location(ast.Pass(), st)
                return self.generic_visit(st)

            def visit_FunctionDef(self, n):
                return n

            visit_AsyncFunctionDef = visit_FunctionDef
            visit_Lambda = visit_FunctionDef

        new_body = []
        for st in node.body:
            st = Drop().visit(st)
            st = _SubstNames(mapping).visit(st)
            new_body.append(st)
        node.body = new_body
    # N4: names of module-level literals (constants hoisted out of the function) are replaced by the literal
    locs2 = q.local_names(node) | set(fi.params())

    class Consts(ast.NodeTransformer):
        def visit_Name(self, n):
            if isinstance(n.ctx, ast.Load) and n.id not in locs2:
                c = module_const(fi, n.id)
                if c is not None:
                    return ast.copy_location(copy.deepcopy(c), n)
            return n

        def visit_Attribute(self, n):
            d = q.dotted(n)
            if d is not None and isinstance(n.ctx, ast.Load) and d.count(".") == 1 and d.split(".")[0] in ("self", "cls"):
                c = module_const(fi, d)
                if c is not None and not q.stores_to(node, d):
                    return ast.copy_location(copy.deepcopy(c), n)
            return self.generic_visit(n)

    node.body = [Consts().visit(st) for st in node.body]
    ast.fix_missing_locations(node)
    return FuncInfo(fi.module, fi.qualname, node, fi.cls, fi.parent)


def concat_pieces(e: ast.AST) -> Optional[List[ast.AST]]:
    """Pieces of a string built by concatenation, in order: ``a + b + c``, ``"".join([a, b, c])`` (empty separator),
    an f-string (constant parts and ``{expr}`` holes without format spec).  None when ``e`` is not of that kind."""
    if isinstance(e, ast.BinOp) and isinstance(e.op, ast.Add):
        l, r = concat_pieces(e.left) or [e.left], concat_pieces(e.right) or [e.right]
        return l + r
    if isinstance(e, ast.Call) and isinstance(e.func, ast.Attribute) and e.func.attr == "join" and isinstance(e.func.value, ast.Constant) and e.func.value.value in ("", b"") and len(e.args) == 1 and isinstance(e.args[0], (ast.List, ast.Tuple)):
        out: List[ast.AST] = []
        for x in e.args[0].elts:
            out += concat_pieces(x) or [x]
        return out
    if isinstance(e, ast.BinOp) and isinstance(e.op, ast.Mod) and isinstance(e.left, ast.Constant) and isinstance(e.left.value, str):
        import re as _re
        fmt = e.left.value
        args = list(e.right.elts) if isinstance(e.right, ast.Tuple) else [e.right]
        parts = _re.split(r"(%[sdi])", fmt)
        holes_ = [p_ for p_ in parts if p_ in ("%s", "%d", "%i")]
        if "%" in "".join(p_ for p_ in parts if p_ not in ("%s", "%d", "%i")) or len(holes_) != len(args):
            return None
        out = []
        it = iter(args)
        for p_ in parts:
            if p_ in ("%s", "%d", "%i"):
                out.append(next(it))
            elif p_:
                out.append(ast.Constant(value=p_))
        return out
    if isinstance(e, ast.JoinedStr):
        out = []
        for v in e.values:
            if isinstance(v, ast.Constant):
                out.append(v)
            elif isinstance(v, ast.FormattedValue) and v.format_spec is None and v.conversion == -1:
                out.append(v.value)
            else:
                return None
        return out
    return None


# ---------------------------------------------------------------------------
# helpers


def callee(repo: Repo, fi: FuncInfo, call: ast.Call) -> Optional[FuncInfo]:
    f = call.func
    mod = fi.module
    clsname = fi.cls.name if fi.cls is not None else None
    if isinstance(f, ast.Name):
        return mod.funcs.get(f.id)
    if isinstance(f, ast.Attribute) and isinstance(f.value, ast.Name):
        if f.value.id in ("self", "cls") and clsname:
            return mod.funcs.get("%s.%s" % (clsname, f.attr))
        if f.value.id in mod.classes:
            return mod.funcs.get("%s.%s" % (f.value.id, f.attr))
        for rel, m in repo.modules.items():   # othermodule.func(..)
            if rel.endswith("/" + f.value.id + ".py") and f.attr in m.funcs:
                return m.funcs[f.attr]
    return None


def arg_map(cfi: FuncInfo, call: ast.Call) -> Optional[Dict[str, ast.AST]]:
    a = cfi.node.args
    params = [x.arg for x in a.posonlyargs + a.args]
    is_static = any(q.dotted(d) == "staticmethod" for d in cfi.node.decorator_list)
    if cfi.cls is not None and not is_static and params and params[0] in ("self", "cls"):
        params = params[1:]
    if any(isinstance(x, ast.Starred) for x in call.args) or len(call.args) > len(params):
        return None
    mp: Dict[str, ast.AST] = dict(zip(params, call.args))
    for k in call.keywords:
        if k.arg is None:
            return None
        mp[k.arg] = k.value
    return mp


def short_circuit_facts(pm, node: ast.AST) -> List[Tuple[str, bool]]:
    out: List[Tuple[str, bool]] = []
    child = node
    for a in q.ancestors(pm, node):
        if isinstance(a, ast.BoolOp):
            idx = next((i for i, v in enumerate(a.values) if v is child), None)
            if idx:
                for v in a.values[:idx]:
                    for atom, pol in _atoms(v, isinstance(a.op, ast.And)):
                        out.append(canon_fact(atom, pol))
        elif isinstance(a, ast.IfExp):
            if child is a.body:
                for atom, pol in _atoms(a.test, True):
                    out.append(canon_fact(atom, pol))
            elif child is a.orelse:
                for atom, pol in _atoms(a.test, False):
                    out.append(canon_fact(atom, pol))
        elif isinstance(a, (ast.stmt, ast.Lambda)):
            break
        child = a
    return out


def _atoms(e: ast.AST, pol: bool) -> List[Tuple[ast.AST, bool]]:
    """Atomic facts implied by ``e`` being truthy (pol=True) / falsy (pol=False)."""
    if isinstance(e, ast.UnaryOp) and isinstance(e.op, ast.Not):
        return _atoms(e.operand, not pol)
    if isinstance(e, ast.BoolOp):
        if (isinstance(e.op, ast.And) and pol) or (isinstance(e.op, ast.Or) and not pol):
            out = []
            for v in e.values:
                out += _atoms(v, pol)
            return out
        return []
    return [(e, pol)]


def in_annotation(pm, node: ast.AST) -> bool:
    child = node
    for a in q.ancestors(pm, node):
        if isinstance(a, ast.AnnAssign) and child is a.annotation:
            return True
        if isinstance(a, ast.arg):
            return True
        if isinstance(a, ast.stmt):
            return False
        child = a
    return False


def named_bool_facts(fi: FuncInfo, facts) -> List[Tuple[str, bool]]:
    """Facts implied by a *named boolean*: when ``flag`` (bound once to a pure boolean expression) is known true,
    the atoms of its definition hold as well (``is_quoted = len(v) >= 2 and ...; if is_quoted:``)."""
    out: List[Tuple[str, bool]] = []
    for t, pol in facts:
        if t.isidentifier():
            d = unique_def(fi, t)
            if d is not None and isinstance(d, (ast.BoolOp, ast.Compare, ast.UnaryOp, ast.Call)):
                for atom, p in _atoms(d, pol):
                    out.append(canon_fact(atom, p))
    return out


def widen_facts(fi: FuncInfo, facts, max_variants: int = 24) -> Set[Tuple[str, bool]]:
    """``facts`` plus (a) the atoms of named booleans that are known true/false and (b) every fact rewritten with
    single-definition locals replaced by their definition, one name at a time (``limit = config.max_parts; if n > limit``
    also yields the fact ``n > config.max_parts``).  Sound as long as the operands are not re-assigned between the
    definition and the test (single-definition locals)."""
    out: Set[Tuple[str, bool]] = strip_walrus(facts) if any(":=" in f[0] for f in facts) else set(facts)
    out |= set(named_bool_facts(fi, out))
    for t, pol in list(out):   # len(x) > 0 / != 0 / == 0  <=>  truthiness of x
        if t.startswith("len("):
            try:
                e = ast.parse(t, mode="eval").body
            except SyntaxError:
                continue
            if isinstance(e, ast.Compare) and len(e.ops) == 1 and q.is_call(e.left, "len") and len(e.left.args) == 1 and q.is_const(e.comparators[0], 0):
                x = q.unparse(e.left.args[0])
                if isinstance(e.ops[0], ast.Eq):
                    out.add((x, not pol))
                elif isinstance(e.ops[0], ast.Gt):
                    out.add((x, pol))
    work = [f for f in out if not f[0].startswith("@")]
    seen = set(work)
    produced = 0
    while work and produced < max_variants * max(1, len(facts)):
        t, pol = work.pop()
        try:
            e = ast.parse(t, mode="eval").body
        except SyntaxError:
            continue
        names = sorted({n.id for n in ast.walk(e) if isinstance(n, ast.Name) and isinstance(n.ctx, ast.Load)})
        for nm in names:
            d = unique_def(fi, nm)
            if d is None or isinstance(d, (ast.Lambda, ast.Await)):
                continue
            e2 = _SubstNames({nm: d}).visit(copy.deepcopy(e))
            f2 = canon_fact(e2, pol)
            cands = [f2] + [canon_fact(a, p) for a, p in _atoms(e2, pol)]
            for c in cands:
                if c not in seen:
                    seen.add(c)
                    out.add(c)
                    work.append(c)
                    produced += 1
    return out


# ---------------------------------------------------------------------------
# function splitting: inline private helpers


def _own_returns(fn) -> List[ast.Return]:
    return [n for n in q.walk_body(fn) if isinstance(n, ast.Return)]


def _is_generator(fn) -> bool:
    return any(isinstance(n, (ast.Yield, ast.YieldFrom)) for n in q.walk_body(fn))


class _ReplaceNode(ast.NodeTransformer):
    def __init__(self, target, new):
        self.target = target
        self.new = new

    def visit(self, node):
        if node is self.target:
            return self.new
        return super().visit(node)


def inline_private(repo: Repo, fi: FuncInfo, keep=(), depth: int = 3) -> FuncInfo:
    """Undo *function splitting*: a copy of ``fi`` in which calls of private helpers (underscore-named, same module or
    class, not recursive, not generators, not named in ``keep``) are replaced by the helper's body with the parameters
    substituted.  Supported positions: a call statement (helper without value-returning ``return`` except as its last
    statement) and a call inside the expressions of a simple statement / ``if`` test / ``for`` iterable / ``return``
    (helper whose only ``return`` is its last statement).  ``await helper(..)`` of an async helper is handled alike.
    Everything else is left untouched (the rules then see a call they may or may not model)."""
    keep = set(keep)
    node = copy.deepcopy(fi.node)
    cur = FuncInfo(fi.module, fi.qualname, node, fi.cls, fi.parent)
    counter = [0]

    def candidate(call: ast.Call, awaited: bool):
        if not isinstance(call, ast.Call):
            return None
        h = callee(repo, cur, call)
        if h is None or h.node is fi.node or h.name == fi.name:
            return None
        nm = h.name
        if not nm.startswith("_") or (nm.startswith("__") and nm.endswith("__")) or nm in keep:
            return None
        if _is_generator(h.node):
            return None
        if isinstance(h.node, ast.AsyncFunctionDef) != awaited:
            return None
        decs = [q.dotted(d) for d in h.node.decorator_list]
        if any(d not in ("staticmethod", "classmethod") for d in decs):
            return None
        a = h.node.args
        if a.vararg or a.kwarg:
            return None
        mp = arg_map(h, call)
        if mp is None:
            return None
        params = [x.arg for x in a.posonlyargs + a.args + a.kwonlyargs]
        if h.cls is not None and "staticmethod" not in decs and params and params[0] in ("self", "cls"):
            params = params[1:]
        defaults = dict(zip(reversed([x.arg for x in a.posonlyargs + a.args]), reversed(a.defaults)))
        for p_, d_ in zip(a.kwonlyargs, a.kw_defaults):
            if d_ is not None:
                defaults[p_.arg] = d_
        for p_ in params:
            if p_ not in mp:
                if p_ in defaults:
                    mp[p_] = defaults[p_]
                else:
                    return None
        if set(mp) - set(params):
            return None
        # the helper must not call itself
        if any(isinstance(c, ast.Call) and q.call_attr(c) == nm for c in ast.walk(h.node)):
            return None
        return h, mp

    def instantiate(h: FuncInfo, mp: Dict[str, ast.AST], caller_locals: Set[str], keep_returns: bool = False):
        """(prelude+body statements without the trailing return, returned expression or None); with ``keep_returns``
        the body is returned whole (its ``return`` statements become the caller's)."""
        body = [copy.deepcopy(st) for st in h.node.body]
        if body and isinstance(body[0], ast.Expr) and isinstance(body[0].value, ast.Constant) and isinstance(body[0].value.value, str):
            body = body[1:]
        ret_expr = None
        if not keep_returns and body and isinstance(body[-1], ast.Return):
            ret_expr = body[-1].value
            body = body[:-1]
        hl = q.local_names(h.node)
        assigned = set()
        for st in q.walk_body(h.node):
            if isinstance(st, ast.Name) and isinstance(st.ctx, (ast.Store, ast.Del)):
                assigned.add(st.id)
        counter[0] += 1
        subst: Dict[str, ast.AST] = {}
        prelude: List[ast.stmt] = []
        rename: Dict[str, str] = {}
        for p_, arg in mp.items():
            simple = isinstance(arg, (ast.Name, ast.Constant)) or (isinstance(arg, ast.Attribute) and q.dotted(arg) is not None)
            if simple and p_ not in assigned:
                subst[p_] = arg
            else:
                new = p_ if p_ not in caller_locals else "%s__%d" % (p_, counter[0])
                rename[p_] = new
                prelude.append(ast.Assign(targets=[ast.Name(id=new, ctx=ast.Store())], value=copy.deepcopy(arg)))
        for l in hl:
            if l in mp or l in ("self", "cls"):
                continue
            if l in caller_locals:
                rename[l] = "%s__%d" % (l, counter[0])

        class R(ast.NodeTransformer):
            def visit_Name(self, n):
                if n.id in subst and isinstance(n.ctx, ast.Load):
                    return copy.deepcopy(subst[n.id])
                if n.id in rename:
                    return ast.copy_location(ast.Name(id=rename[n.id], ctx=n.ctx), n)
                return n

            def visit_ExceptHandler(self, n):
                if n.name in rename:
                    n.name = rename[n.name]
                return self.generic_visit(n)

        body = [R().visit(st) for st in body]
        if ret_expr is not None:
            ret_expr = R().visit(ret_expr)
        if h.cls is not None and isinstance(mp, dict):
            pass
        return prelude + body, ret_expr

    def own_exprs(st: ast.stmt) -> List[ast.AST]:
        """Expression roots evaluated once, before/at the statement (not its nested blocks)."""
        if isinstance(st, (ast.Assign, ast.AnnAssign, ast.AugAssign, ast.Return, ast.Expr)):
            return [st.value] if st.value is not None else []
        if isinstance(st, ast.If):
            return [st.test]
        if isinstance(st, (ast.For, ast.AsyncFor)):
            return [st.iter]
        if isinstance(st, ast.Raise):
            return [x for x in (st.exc, st.cause) if x is not None]
        if isinstance(st, ast.Assert):
            return [st.test]
        return []

    def first_candidate(st: ast.stmt):
        for root in own_exprs(st):
            for n in q.walk_local(root):
                if isinstance(n, ast.Await) and isinstance(n.value, ast.Call):
                    c = candidate(n.value, True)
                    if c:
                        return n, c
                if isinstance(n, ast.Call):
                    c = candidate(n, False)
                    if c:
                        return n, c
                if isinstance(n, (ast.BoolOp, ast.IfExp, ast.Lambda, ast.ListComp, ast.SetComp, ast.DictComp, ast.GeneratorExp)) and n is not root:
                    # conditional evaluation: hoisting a call out of it would change when it runs
                    pass
        return None

    def conditional_position(st: ast.stmt, target: ast.AST) -> bool:
        pm = q.parent_map(st)
        child = target
        for a in q.ancestors(pm, target):
            if isinstance(a, ast.BoolOp) and a.values and a.values[0] is not child:
                return True
            if isinstance(a, ast.IfExp) and child is not a.test:
                return True
            if isinstance(a, (ast.Lambda, ast.ListComp, ast.SetComp, ast.DictComp, ast.GeneratorExp)):
                return True
            child = a
        return False

    def process(stmts: List[ast.stmt], budget: int, tail: bool = False) -> List[ast.stmt]:
        out: List[ast.stmt] = []
        for si, st in enumerate(stmts):
            is_tail = tail and si == len(stmts) - 1
            for fld in ("body", "orelse", "finalbody"):
                sub = getattr(st, fld, None)
                if isinstance(sub, list) and sub and isinstance(sub[0], ast.stmt) and not isinstance(st, (ast.FunctionDef, ast.AsyncFunctionDef, ast.ClassDef)):
                    setattr(st, fld, process(sub, budget, is_tail and isinstance(st, ast.If) and fld in ("body", "orelse")))
            if isinstance(st, ast.Try):
                for h_ in st.handlers:
                    h_.body = process(h_.body, budget)
            done = False
            if budget > 0 and not isinstance(st, (ast.FunctionDef, ast.AsyncFunctionDef, ast.ClassDef)):
                fc = first_candidate(st)
                if fc is not None and not conditional_position(st, fc[0]):
                    target, (h, mp) = fc
                    rets = _own_returns(h.node)
                    last = h.node.body[-1] if h.node.body else None
                    caller_locals = q.local_names(node) | set(fi.params())
                    # names that exist in the caller only as the targets of this very statement may be shared with the helper
                    own_targets = {x.id for x in ast.walk(st) if isinstance(x, ast.Name) and isinstance(x.ctx, ast.Store)} if isinstance(st, (ast.Assign, ast.AnnAssign)) else set()
                    for nm_ in own_targets:
                        stores = [x for x in ast.walk(node) if isinstance(x, ast.Name) and x.id == nm_ and isinstance(x.ctx, (ast.Store, ast.Del))]
                        inside = [x for x in ast.walk(st) if isinstance(x, ast.Name) and x.id == nm_ and isinstance(x.ctx, ast.Store)]
                        if len(stores) == len(inside) and nm_ not in fi.params():
                            caller_locals = caller_locals - {nm_}
                    stmt_pos = isinstance(st, ast.Expr) and st.value is target
                    ret_pos = isinstance(st, ast.Return) and st.value is target
                    if ret_pos or (stmt_pos and is_tail and rets and all(r.value is None or q.is_const(r.value, None) for r in rets)):
                        # `return h(..)` / a call that ends the function: the helper's returns are the caller's returns
                        body, _ret = instantiate(h, mp, caller_locals, keep_returns=True)
                        if ret_pos and not _always_leaves(body):
                            body.append(ast.Return(value=ast.Constant(value=None)))
                        new = body or [ast.Pass()]
                        for x in new:
                            ast.copy_location(x, st)
                            ast.fix_missing_locations(x)
                        out.extend(process(new, budget - 1, is_tail))
                        done = True
                    elif stmt_pos and (not rets or (len(rets) == 1 and rets[0] is last)):
                        body, _ret = instantiate(h, mp, caller_locals)
                        new = body or [ast.Pass()]
                        for x in new:
                            ast.copy_location(x, st)
                            ast.fix_missing_locations(x)
                        out.extend(process(new, budget - 1))
                        done = True
                    elif not stmt_pos and len(rets) == 1 and rets[0] is last and rets[0].value is not None:
                        body, ret = instantiate(h, mp, caller_locals)
                        simple_ret = isinstance(ret, (ast.Name, ast.Constant)) or (isinstance(ret, ast.Attribute) and q.dotted(ret) is not None) or (isinstance(ret, ast.Tuple) and all(isinstance(x, (ast.Name, ast.Constant)) for x in ret.elts))
                        if simple_ret:
                            st2 = _ReplaceNode(target, ret).visit(st)
                            new = body
                        else:
                            tmp = "_%s_result__%d" % (h.name.strip("_"), counter[0])
                            bind = ast.Assign(targets=[ast.Name(id=tmp, ctx=ast.Store())], value=ret)
                            st2 = _ReplaceNode(target, ast.Name(id=tmp, ctx=ast.Load())).visit(st)
                            new = body + [bind]
                        for x in new:
                            ast.copy_location(x, st)
                            ast.fix_missing_locations(x)
                        ast.fix_missing_locations(st2)
                        out.extend(process(new, budget - 1))
                        self_assign = isinstance(st2, ast.Assign) and len(st2.targets) == 1 and isinstance(st2.targets[0], ast.Name) and isinstance(st2.value, ast.Name) and st2.value.id == st2.targets[0].id
                        if not self_assign:   # `parts = parts` after the helper's own `parts = ...`: nothing left to do
                            out.extend(process([st2], budget - 1))
                        done = True
            if not done:
                out.append(st)
        return out

    node.body = process(node.body, depth, True)
    ast.fix_missing_locations(node)
    return FuncInfo(fi.module, fi.qualname, node, fi.cls, fi.parent)


def prepared(repo: Repo, fi: FuncInfo, keep=(), depth: int = 3) -> FuncInfo:
    """inline_private + normalise: the form on which the g2 rules run."""
    return normalise(inline_private(repo, fi, keep, depth))


def source_tokens(module_file: str) -> Set[str]:
    """Identifiers that occur anywhere in a checker's own source: helpers the rules know by name are not inlined."""
    import re

    with open(module_file) as f:
        return set(re.findall(r"[A-Za-z_][A-Za-z0-9_]*", f.read()))


def install_prepared(ck, module_file: str, depth: int = 3):
    """Make ``ck.func`` return the prepared (helpers inlined, aliases/table loops normalised) form of every anchored
    function.  Helpers whose name occurs in the checker's own source are known to its rules and stay calls."""
    keep = source_tokens(module_file)
    orig = ck.func
    cache: Dict[Tuple[str, str], FuncInfo] = {}

    def func(relpath: str, qualname: str) -> FuncInfo:
        k = (relpath, qualname)
        if k not in cache:
            cache[k] = prepared(ck.repo, orig(relpath, qualname), keep, depth)
        return cache[k]

    ck.func = func
    ck.prepare = lambda fi: prepared(ck.repo, fi, keep, depth)
    return keep


def lazy_widened(fi: FuncInfo, base=None):
    """dict-like: node id -> widen_facts(must_facts) computed on demand."""
    from .cfg import must_facts

    mf = base if base is not None else must_facts(fi.cfg)

    class _Lazy(dict):
        def __missing__(self, k):
            self[k] = widen_facts(fi, mf[k])
            return self[k]

    return _Lazy()


def call_arg(repo: Repo, fi: FuncInfo, call: ast.Call, index: int, name: str) -> Optional[ast.AST]:
    """Argument of ``call`` for the parameter at ``index`` / called ``name`` (positional or keyword form)."""
    if index < len(call.args) and not any(isinstance(a, ast.Starred) for a in call.args[:index + 1]):
        return call.args[index]
    for k in call.keywords:
        if k.arg == name:
            return k.value
    return None


def fold_with_module(module, e: ast.AST, depth: int = 4):
    """q.fold of ``e`` where unknown plain names are looked up among the module-level assignments (folded in turn).
    Raises q.NotFoldable when that does not help."""
    env: Dict[str, object] = {}
    for _ in range(depth + 1):
        try:
            return q.fold(e, env)
        except q.NotFoldable as ex:
            nm = str(ex)
            if nm in env or nm not in module.assigns or depth <= 0:
                raise
            env[nm] = fold_with_module(module, module.assigns[nm], depth - 1)
    raise q.NotFoldable(q.unparse(e))


def strip_walrus(facts) -> Set[Tuple[str, bool]]:
    """``facts`` plus, for every fact that contains ``(name := expr)``, the same fact about ``name``
    (``(m := RX.fullmatch(s)) is None`` false  =>  ``m is None`` false)."""
    out = set(facts)
    for t, pol in list(facts):
        if ":=" not in t:
            continue
        try:
            e = ast.parse(t, mode="eval").body
        except SyntaxError:
            continue

        class W(ast.NodeTransformer):
            def visit_NamedExpr(self, n):
                return ast.Name(id=n.target.id, ctx=ast.Load())

        out.add(canon_fact(W().visit(e), pol))
    return out


def _as_store(t: ast.AST) -> ast.AST:
    t = copy.deepcopy(t)
    for n in ast.walk(t):
        if hasattr(n, "ctx"):
            n.ctx = ast.Store()
    return t


def _always_leaves(stmts: List[ast.stmt]) -> bool:
    """The block cannot complete normally: it ends in return/raise, or in an if/else (or `if <true constant>`) whose
    branches all do."""
    if not stmts:
        return False
    last = stmts[-1]
    if isinstance(last, (ast.Return, ast.Raise)):
        return True
    if isinstance(last, ast.If):
        if isinstance(last.test, ast.Constant) and last.test.value and _always_leaves(last.body):
            return True
        return bool(last.orelse) and _always_leaves(last.body) and _always_leaves(last.orelse)
    if isinstance(last, (ast.With, ast.AsyncWith)):
        return _always_leaves(last.body)
    return False
