"""E0 — source model.

Parses every ``tornado/**/*.py`` (except ``tornado/test``) of the tree under
analysis with :mod:`ast`.  Nothing is imported or executed.  Functions are
addressed by *qualified name* (``HTTP1Connection._read_message``,
``Semaphore.acquire.<locals>.on_timeout``); a missing anchor raises
:class:`AnchorMissing`, which the driver maps to ``ANALYSIS-ERROR`` / exit 2.
"""
from __future__ import annotations

import ast
import hashlib
import os
from typing import Dict, Iterator, List, Optional, Tuple


class AnalysisError(Exception):
    """The analysis cannot decide (unknown idiom, missing anchor, floor not met)."""


class AnchorMissing(AnalysisError):
    pass


FuncNode = (ast.FunctionDef, ast.AsyncFunctionDef)


class FuncInfo:
    def __init__(self, module: "ModuleInfo", qualname: str, node, cls: Optional[ast.ClassDef], parent: Optional["FuncInfo"]):
        self.module = module
        self.qualname = qualname
        self.node = node
        self.cls = cls
        self.parent = parent
        self._cfg = None

    @property
    def name(self) -> str:
        return self.node.name

    @property
    def file(self) -> str:
        return self.module.relpath

    def loc(self, node=None) -> str:
        n = node if node is not None else self.node
        return "%s:%s" % (self.module.relpath, getattr(n, "lineno", "?"))

    def site(self, node=None) -> str:
        return "%s %s" % (self.loc(node), self.qualname)

    @property
    def cfg(self):
        if self._cfg is None:
            from . import cfg as _cfg

            self._cfg = _cfg.build(self.node)
        return self._cfg

    def params(self) -> List[str]:
        a = self.node.args
        names = [x.arg for x in a.posonlyargs + a.args + a.kwonlyargs]
        if a.vararg:
            names.append(a.vararg.arg)
        if a.kwarg:
            names.append(a.kwarg.arg)
        return names

    def __repr__(self):
        return "<Func %s:%s>" % (self.module.relpath, self.qualname)


class ModuleInfo:
    def __init__(self, root: str, relpath: str, tree: Optional[ast.Module] = None, source: Optional[str] = None):
        self.relpath = relpath
        self.path = os.path.join(root, relpath)
        if tree is None:
            if source is None:
                with open(self.path, "rb") as f:
                    data = f.read()
            else:
                data = source.encode("utf-8")
            self.digest = hashlib.sha256(data).hexdigest()
            self.source = data.decode("utf-8")
            self.tree = ast.parse(self.source, filename=self.path)
        else:
            self.tree = tree
            self.source = ast.unparse(tree)
            self.digest = hashlib.sha256(self.source.encode()).hexdigest()
        self.funcs: Dict[str, FuncInfo] = {}
        self.classes: Dict[str, ast.ClassDef] = {}
        self.assigns: Dict[str, ast.AST] = {}  # module-level NAME = value
        self._index(self.tree.body, "", None, None)
        for st in self.tree.body:
            if isinstance(st, ast.Assign):
                for t in st.targets:
                    if isinstance(t, ast.Name):
                        self.assigns[t.id] = st.value
            elif isinstance(st, ast.AnnAssign) and isinstance(st.target, ast.Name) and st.value is not None:
                self.assigns[st.target.id] = st.value

    def _index(self, body, prefix: str, cls, parent):
        for st in self._walk_defs(body):
            if isinstance(st, FuncNode):
                qn = prefix + st.name
                # later definitions (e.g. under if/else) do not overwrite the first
                fi = FuncInfo(self, qn, st, cls, parent)
                if qn in self.funcs:
                    k = 2
                    while "%s#%d" % (qn, k) in self.funcs:
                        k += 1
                    self.funcs["%s#%d" % (qn, k)] = fi
                else:
                    self.funcs[qn] = fi
                self._index(st.body, qn + ".<locals>.", None, fi)
            elif isinstance(st, ast.ClassDef):
                qn = prefix + st.name
                self.classes.setdefault(qn, st)
                self._index(st.body, qn + ".", st, parent)

    def _walk_defs(self, body) -> Iterator[ast.AST]:
        """Yield function/class definitions in ``body`` including those nested in
        compound statements (if/try/with/for/while), but not inside other defs."""
        for st in body:
            if isinstance(st, FuncNode + (ast.ClassDef,)):
                yield st
            else:
                for fld in ("body", "orelse", "finalbody", "handlers"):
                    sub = getattr(st, fld, None)
                    if isinstance(sub, list):
                        for x in sub:
                            if isinstance(x, ast.ExceptHandler):
                                yield from self._walk_defs(x.body)
                        yield from self._walk_defs([x for x in sub if isinstance(x, ast.stmt)])


class Repo:
    EXCLUDE_DIRS = ("test",)

    def __init__(self, root: str = "/repo"):
        self.root = root
        self.modules: Dict[str, ModuleInfo] = {}
        base = os.path.join(root, "tornado")
        if not os.path.isdir(base):
            raise AnchorMissing("no tornado package under %s" % root)
        for dirpath, dirnames, filenames in os.walk(base):
            dirnames[:] = sorted(d for d in dirnames if d not in self.EXCLUDE_DIRS and d != "__pycache__")
            for fn in sorted(filenames):
                if fn.endswith(".py"):
                    rel = os.path.relpath(os.path.join(dirpath, fn), root)
                    try:
                        self.modules[rel] = ModuleInfo(root, rel)
                    except SyntaxError as e:
                        raise AnalysisError("cannot parse %s: %s" % (rel, e))
        if len(self.modules) < 25:
            raise AnalysisError("only %d modules parsed under %s (expected >= 25)" % (len(self.modules), base))

    # -- anchors -----------------------------------------------------------
    def module(self, relpath: str) -> ModuleInfo:
        if not relpath.startswith("tornado/"):
            relpath = "tornado/" + relpath
        try:
            return self.modules[relpath]
        except KeyError:
            raise AnchorMissing("module %s not found" % relpath)

    def func(self, relpath: str, qualname: str) -> FuncInfo:
        m = self.module(relpath)
        try:
            return m.funcs[qualname]
        except KeyError:
            raise AnchorMissing("function %s not found in %s" % (qualname, m.relpath))

    def has_func(self, relpath: str, qualname: str) -> bool:
        try:
            self.func(relpath, qualname)
            return True
        except AnchorMissing:
            return False

    def cls(self, relpath: str, name: str) -> ast.ClassDef:
        m = self.module(relpath)
        try:
            return m.classes[name]
        except KeyError:
            raise AnchorMissing("class %s not found in %s" % (name, m.relpath))

    def methods(self, relpath: str, clsname: str) -> List[FuncInfo]:
        m = self.module(relpath)
        self.cls(relpath, clsname)
        pre = clsname + "."
        return [f for q, f in m.funcs.items() if q.startswith(pre)]

    def direct_methods(self, relpath: str, clsname: str) -> List[FuncInfo]:
        pre = clsname + "."
        return [f for f in self.methods(relpath, clsname) if "." not in f.qualname[len(pre):]]

    def nested(self, fi: FuncInfo) -> List[FuncInfo]:
        pre = fi.qualname + ".<locals>."
        return [f for q, f in fi.module.funcs.items() if q.startswith(pre)]

    def all_funcs(self) -> Iterator[FuncInfo]:
        for m in self.modules.values():
            yield from m.funcs.values()

    def const(self, relpath: str, name: str) -> ast.AST:
        m = self.module(relpath)
        if name not in m.assigns:
            raise AnchorMissing("module-level name %s not found in %s" % (name, m.relpath))
        return m.assigns[name]

    def class_attr(self, relpath: str, clsname: str, attr: str) -> ast.AST:
        c = self.cls(relpath, clsname)
        for st in c.body:
            if isinstance(st, ast.Assign):
                for t in st.targets:
                    if isinstance(t, ast.Name) and t.id == attr:
                        return st.value
            elif isinstance(st, ast.AnnAssign) and isinstance(st.target, ast.Name) and st.target.id == attr and st.value is not None:
                return st.value
        raise AnchorMissing("class attribute %s.%s not found in %s" % (clsname, attr, relpath))

    def class_bases(self, relpath: str, clsname: str) -> List[str]:
        from .q import dotted

        return [dotted(b) or "?" for b in self.cls(relpath, clsname).bases]

    def with_module(self, relpath: str, tree: Optional[ast.Module] = None, source: Optional[str] = None) -> "Repo":
        """A copy of this model with one module replaced (used for in-memory mutants)."""
        import copy

        r = copy.copy(self)
        r.modules = dict(self.modules)
        r.modules[relpath] = ModuleInfo(self.root, relpath, tree=tree, source=source)
        return r

    def digest(self) -> str:
        h = hashlib.sha256()
        for rel in sorted(self.modules):
            h.update(rel.encode())
            h.update(self.modules[rel].digest.encode())
        return h.hexdigest()
