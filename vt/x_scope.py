"""Own-scope walking that really stays in the function's own scope.

``q.walk_body`` yields the nodes of nested ``def``/``class`` statements that are *direct*
statements of the body (``walk_local`` treats its root as already entered).  ``own_nodes``
skips them: nested definitions are yielded as a single node and never entered.
"""
from __future__ import annotations

import ast
from typing import Iterator

from . import q


def own_nodes(fn: ast.AST) -> Iterator[ast.AST]:
    for st in fn.body:
        if isinstance(st, q.ScopeNode):
            yield st
            continue
        yield from q.walk_local(st)
