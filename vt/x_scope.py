"""Own-scope walking that really stays in the function's own scope.

``q.walk_body`` yields the nodes of nested ``def``/``class`` statements that are *direct*
statements of the body (``walk_local`` treats its root as already entered).  ``own_nodes``
skips them: nested definitions are yielded as a single node and never entered.
"""
from __future__ import annotations

import ast
from typing import Iterator

from . import q


def own_nodes(fn: ast.AST) -> Iterator[ast.AST]:
    for st in fn.body:
        if isinstance(st, q.ScopeNode):
            yield st
            continue
        yield from q.walk_local(st)


def _literal(v):
    """immutable literal: constants, +/- numbers, tuples / sets / frozenset(...) of such"""
    import ast as _ast
    if isinstance(v, _ast.Constant):
        return True
    if isinstance(v, _ast.UnaryOp) and isinstance(v.op, (_ast.USub, _ast.UAdd)) and isinstance(v.operand, _ast.Constant):
        return True
    if isinstance(v, (_ast.Tuple, _ast.Set)):
        return all(_literal(x) for x in v.elts)
    if isinstance(v, _ast.Call) and isinstance(v.func, _ast.Name) and v.func.id == "frozenset" and len(v.args) == 1 and isinstance(v.args[0], (_ast.Tuple, _ast.Set, _ast.List)) and not v.keywords:
        return all(_literal(x) for x in v.args[0].elts)
    return False


def strip_annotations(repo, *relpaths):
    """Repo copy with three behaviour-preserving normalisations applied to the given modules, so that rules need only one
    spelling:
    N1  annotated assignments with a value (`x: T = v`, `self.a: T = v`) become plain assignments;
    N2  `x = x <op> y` on a plain name becomes `x <op>= y`;
    N3  loads of a module-level constant (a name bound exactly once at module level to an immutable literal, never declared
        `global` in a function, not shadowed in the function) and of a class-level constant read as self.X / cls.X / Class.X
        (bound once in the class body to an immutable literal, never assigned through an instance) are replaced by the literal;
    N4  `A if not c else B` becomes `B if c else A`;
    N6  `a, b = x, y` (no calls, no target read on the right) becomes `a = x; b = y`;
    N5  `if (x := E) ...:` becomes `x = E` followed by `if x ...:` when the walrus is the first thing the test evaluates.
    """
    import ast as _ast
    import copy as _copy

    def binds(fn):
        out = set()
        a = fn.args
        for x in a.posonlyargs + a.args + a.kwonlyargs:
            out.add(x.arg)
        if a.vararg:
            out.add(a.vararg.arg)
        if a.kwarg:
            out.add(a.kwarg.arg)
        for n in _ast.walk(fn):
            if isinstance(n, _ast.Name) and isinstance(n.ctx, (_ast.Store, _ast.Del)):
                out.add(n.id)
            elif isinstance(n, _ast.ExceptHandler) and n.name:
                out.add(n.name)
            elif isinstance(n, (_ast.Import, _ast.ImportFrom)):
                for al in n.names:
                    out.add((al.asname or al.name).split(".")[0])
            elif isinstance(n, (_ast.FunctionDef, _ast.AsyncFunctionDef, _ast.ClassDef)) and n is not fn:
                out.add(n.name)
        return out

    out = repo
    for rel in relpaths:
        if not rel.startswith("tornado/"):
            rel = "tornado/" + rel
        m = out.module(rel)
        tree = _copy.deepcopy(m.tree)
        # module-level constants
        counts, vals = {}, {}
        for st in tree.body:
            tg = st.targets if isinstance(st, _ast.Assign) else ([st.target] if isinstance(st, (_ast.AnnAssign, _ast.AugAssign)) else [])
            for t in tg:
                for nm in [x.id for x in _ast.walk(t) if isinstance(x, _ast.Name)]:
                    counts[nm] = counts.get(nm, 0) + 1
            if isinstance(st, (_ast.Assign, _ast.AnnAssign)) and getattr(st, "value", None) is not None and len(tg) == 1 and isinstance(tg[0], _ast.Name) and _literal(st.value):
                vals[tg[0].id] = st.value
        globs = {nm for n in _ast.walk(tree) if isinstance(n, _ast.Global) for nm in n.names}
        imported = set()
        for st in tree.body:
            if isinstance(st, _ast.Import):
                imported |= {(al.asname or al.name).split(".")[0] for al in st.names}
        for st in tree.body:
            # NAME = module.attr.path  (an alias of a constant of an imported module, e.g. datetime.timezone.utc)
            if isinstance(st, _ast.Assign) and len(st.targets) == 1 and isinstance(st.targets[0], _ast.Name) and isinstance(st.value, _ast.Attribute):
                root = st.value
                while isinstance(root, _ast.Attribute):
                    root = root.value
                if isinstance(root, _ast.Name) and root.id in imported and st.targets[0].id.lstrip("_").isupper():
                    vals[st.targets[0].id] = st.value
        mconst = {k: v for k, v in vals.items() if counts.get(k) == 1 and k not in globs}
        # class-level constants
        cconst = {}
        for cls in [n for n in _ast.walk(tree) if isinstance(n, _ast.ClassDef)]:
            cc, cv = {}, {}
            for st in cls.body:
                tg = st.targets if isinstance(st, _ast.Assign) else ([st.target] if isinstance(st, _ast.AnnAssign) else [])
                for t in tg:
                    if isinstance(t, _ast.Name):
                        cc[t.id] = cc.get(t.id, 0) + 1
                        if getattr(st, "value", None) is not None and _literal(st.value):
                            cv[t.id] = st.value
            stored = {n.attr for n in _ast.walk(cls) if isinstance(n, _ast.Attribute) and isinstance(n.ctx, (_ast.Store, _ast.Del))}
            cconst[cls.name] = {k: v for k, v in cv.items() if cc.get(k) == 1 and k not in stored}

        class Body(_ast.NodeTransformer):
            def __init__(self, shadow, clsname):
                self.shadow = shadow
                self.clsname = clsname

            def visit_FunctionDef(self, node):
                return node  # nested functions are processed on their own

            visit_AsyncFunctionDef = visit_FunctionDef

            def visit_Lambda(self, node):
                return node

            def visit_AnnAssign(self, node):
                node = self.generic_visit(node)
                if node.value is not None and isinstance(node.target, (_ast.Name, _ast.Attribute)):
                    return _ast.copy_location(_ast.Assign(targets=[node.target], value=node.value, type_comment=None), node)
                return node

            def visit_Assign(self, node):
                node = self.generic_visit(node)
                # N6: `a, b = x, y` -> `a = x; b = y` when no target name is read by any of the values
                if len(node.targets) == 1 and isinstance(node.targets[0], _ast.Tuple) and isinstance(node.value, _ast.Tuple) and len(node.targets[0].elts) == len(node.value.elts) \
                        and all(isinstance(t, _ast.Name) for t in node.targets[0].elts):
                    tn = {t.id for t in node.targets[0].elts}
                    read = {x.id for v_ in node.value.elts for x in _ast.walk(v_) if isinstance(x, _ast.Name)}
                    if not (tn & read) and len(tn) == len(node.targets[0].elts) and not any(isinstance(x, (_ast.Call, _ast.Await, _ast.Yield, _ast.NamedExpr)) for v_ in node.value.elts for x in _ast.walk(v_)):
                        return [_ast.copy_location(_ast.Assign(targets=[t], value=v_, type_comment=None), node) for t, v_ in zip(node.targets[0].elts, node.value.elts)]
                if len(node.targets) == 1 and isinstance(node.targets[0], _ast.Name) and isinstance(node.value, _ast.BinOp) and isinstance(node.value.left, _ast.Name) \
                        and node.value.left.id == node.targets[0].id and isinstance(node.value.op, (_ast.Add, _ast.Sub, _ast.Mult, _ast.BitOr, _ast.BitAnd)):
                    return _ast.copy_location(_ast.AugAssign(target=node.targets[0], op=node.value.op, value=node.value.right), node)
                return node

            def visit_If(self, node):
                node = self.generic_visit(node)

                def leftmost(e):
                    if isinstance(e, _ast.NamedExpr):
                        return e
                    if isinstance(e, _ast.Compare):
                        return leftmost(e.left)
                    if isinstance(e, _ast.BoolOp):
                        return leftmost(e.values[0])
                    if isinstance(e, _ast.UnaryOp):
                        return leftmost(e.operand)
                    return None

                w = leftmost(node.test)
                if w is not None and isinstance(w.target, _ast.Name):
                    # N5: `if (x := E) ...:` -> `x = E; if x ...:` (the walrus is the first thing the test evaluates)
                    class R(_ast.NodeTransformer):
                        def visit_NamedExpr(self, ne):
                            if ne is w:
                                return _ast.copy_location(_ast.Name(id=w.target.id, ctx=_ast.Load()), ne)
                            return self.generic_visit(ne)

                    assign = _ast.copy_location(_ast.Assign(targets=[_ast.Name(id=w.target.id, ctx=_ast.Store())], value=w.value, type_comment=None), node)
                    node.test = R().visit(node.test)
                    return [assign, node]
                return node

            def visit_IfExp(self, node):
                node = self.generic_visit(node)
                if isinstance(node.test, _ast.UnaryOp) and isinstance(node.test.op, _ast.Not):
                    return _ast.copy_location(_ast.IfExp(test=node.test.operand, body=node.orelse, orelse=node.body), node)
                return node

            def visit_Name(self, node):
                if isinstance(node.ctx, _ast.Load) and node.id in mconst and node.id not in self.shadow:
                    return _ast.copy_location(_copy.deepcopy(mconst[node.id]), node)
                return node

            def visit_Attribute(self, node):
                node = self.generic_visit(node)
                if isinstance(node.ctx, _ast.Load) and isinstance(node.value, _ast.Name):
                    owner = self.clsname if node.value.id in ("self", "cls") else node.value.id
                    if owner in cconst and node.attr in cconst[owner] and (node.value.id in ("self", "cls") or node.value.id not in self.shadow):
                        return _ast.copy_location(_copy.deepcopy(cconst[owner][node.attr]), node)
                return node

        def process(fn, clsname):
            sh = binds(fn)
            tr = Body(sh, clsname)
            newbody = []
            for st in fn.body:
                if isinstance(st, (_ast.FunctionDef, _ast.AsyncFunctionDef)):
                    process(st, clsname)
                    newbody.append(st)
                else:
                    r = tr.visit(st)
                    rs_ = r if isinstance(r, list) else [r]
                    newbody.extend(rs_)
                    for r_ in rs_:
                        for sub in _ast.walk(r_):
                            if isinstance(sub, (_ast.FunctionDef, _ast.AsyncFunctionDef)) and sub is not r_:
                                process(sub, clsname)
            fn.body = newbody

        def walk_defs(body, clsname):
            for st in body:
                if isinstance(st, (_ast.FunctionDef, _ast.AsyncFunctionDef)):
                    process(st, clsname)
                elif isinstance(st, _ast.ClassDef):
                    walk_defs(st.body, st.name)
                else:
                    for fld in ("body", "orelse", "finalbody"):
                        sub = getattr(st, fld, None)
                        if isinstance(sub, list):
                            walk_defs([x for x in sub if isinstance(x, _ast.stmt)], clsname)
                    for h in getattr(st, "handlers", []) or []:
                        walk_defs(h.body, clsname)

        walk_defs(tree.body, None)
        _ast.fix_missing_locations(tree)
        try:
            compile(tree, rel, "exec")
        except Exception:
            continue
        out = out.with_module(rel, tree=tree)
    return out
