"""Own-scope walking that really stays in the function's own scope.

``q.walk_body`` yields the nodes of nested ``def``/``class`` statements that are *direct*
statements of the body (``walk_local`` treats its root as already entered).  ``own_nodes``
skips them: nested definitions are yielded as a single node and never entered.
"""
from __future__ import annotations

import ast
from typing import Iterator

from . import q


def own_nodes(fn: ast.AST) -> Iterator[ast.AST]:
    for st in fn.body:
        if isinstance(st, q.ScopeNode):
            yield st
            continue
        yield from q.walk_local(st)


def strip_annotations(repo, *relpaths):
    """Repo copy in which annotated assignments with a value (`x: T = v`, `self.a: T = v`) are plain assignments in the
    given modules.  Inside functions this is behaviour-identical; rules then need only one spelling of a binding."""
    import ast as _ast
    import copy as _copy

    class T(_ast.NodeTransformer):
        def visit_AnnAssign(self, node):
            if node.value is not None and isinstance(node.target, (_ast.Name, _ast.Attribute)):
                return _ast.copy_location(_ast.Assign(targets=[node.target], value=node.value, type_comment=None), node)
            return node

    out = repo
    for rel in relpaths:
        if not rel.startswith("tornado/"):
            rel = "tornado/" + rel
        m = out.module(rel)
        if not any(isinstance(n, _ast.AnnAssign) and n.value is not None for n in _ast.walk(m.tree)):
            continue
        tree = T().visit(_copy.deepcopy(m.tree))
        _ast.fix_missing_locations(tree)
        out = out.with_module(rel, tree=tree)
    return out
