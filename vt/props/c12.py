"""C12 - IOStream writes deliver every byte once, in order, and resolve in order.

Thin but semantic clause set (DESIGN.md section 4, C12) on ``tornado/iostream.py``:

* refuse before mutate: the ``StreamBufferFullError`` raise is unreachable from
  any mutation of the write state; every append is preceded by the overflow
  test on every path; the overflow predicate is ``len(buffer) + len(data) >
  max`` (folded over a grid); memoryviews are cast to bytes first;
* pairing: ``_write_buffer.append(data)`` with ``_total_write_index +=
  len(data)``; ``_write_buffer.advance(n)`` with ``_total_write_done_index +=
  n`` where ``n`` is what ``write_to_fd(peek(..))`` returned;
* futures: appended with the post-write index, resolved from the head while
  ``index <= done`` (folded), by ``popleft`` and ``*_unless_cancelled``, after
  the send loop;
* ``_StreamBuffer``: FIFO use of the deque, ``_size`` updated by ``len(data)``
  / ``size`` exactly once per call, data stored exactly once per non-empty
  append, ``advance`` asserts ``0 < size <= _size``, ``peek`` honours
  ``_first_pos``, ``advance`` stores the final position.

Not decided: byte concatenation equality under partial sends; coalescing
offsets inside ``advance`` (needs execution).
"""
from __future__ import annotations

import ast
from typing import Dict, List, Optional, Set, Tuple

from .. import q
from ..cfg import explore
from ..rules import node_calls, event_facts, settle_sites
from ..mutate import mutate, remove_stmts, replace_expr, replace_stmt, parse_stmt, parse_expr
from ..model import AnalysisError
from ..x_guardflow import ClassEffects, guard_facts, has, expand_expr, missing_effect, edge_facts, as_aug

TECHNIQUE = "reachability/dominance on the CFG, paired-update lint, finite-domain folding of the overflow and resolve predicates, FIFO-operation table"
EXPLANATION = (
    "BaseIOStream.write / _handle_write and _StreamBuffer: the refusal precedes every mutation (CFG reachability + path-sensitive guard "
    "tracking), index/byte updates are paired on the same quantity, write futures carry the post-write index and are resolved from the "
    "head under index <= done (predicate folded over a grid), the deque of chunks is used first-in first-out, _size bookkeeping is "
    "exact per call."
)
NOT_DECIDED = "that the bytes handed to the transport equal the concatenation of the written data for every partial-send schedule (coalescing offsets inside _StreamBuffer.advance/peek need execution); error paths of write_to_fd"
LEVEL_NOTE = "thin clause set: necessary structural conditions only"

IO = "tornado/iostream.py"
B = "BaseIOStream"
SB = "_StreamBuffer"
FAMILY = [(IO, "BaseIOStream"), (IO, "IOStream"), (IO, "SSLIOStream"), (IO, "PipeIOStream")]


def _params(fi) -> List[str]:
    return [p for p in fi.params() if p != "self"]


def _reach(cfg, starts: Set[int]) -> Set[int]:
    seen = set()
    work = list(starts)
    while work:
        x = work.pop()
        for y, _k in cfg.succ[x]:
            if y not in seen:
                seen.add(y)
                work.append(y)
    return seen


def _not_followed(fi, start, end, cfg=None) -> Set[int]:
    cfg = cfg or fi.cfg

    def transfer(n, val):
        if n.kind in ("exit", "rexit"):
            return val
        if val and end(n):
            val = frozenset()
        if start(n):
            val = val | {n.id}
        return val

    seen = explore(cfg, frozenset(), transfer, lambda t: False)
    bad: Set[int] = set()
    for _f, val in seen.get(cfg.exit.id, ()):
        bad |= set(val)
    return bad


def _is_aug(n, path, op=ast.Add):
    return n.kind == "stmt" and isinstance(as_aug(n.ast), ast.AugAssign) and isinstance(as_aug(n.ast).op, op) and q.dotted(as_aug(n.ast).target) == path


# ---------------------------------------------------------------------------


def write(ck):
    fi = ck.func(IO, B + ".write")
    cfg = fi.cfg
    data = _params(fi)[0]
    raises = cfg.stmt_nodes(lambda n: n.kind == "stmt" and isinstance(n.ast, ast.Raise) and n.ast.exc is not None and "StreamBufferFullError" in q.unparse(n.ast.exc))
    ck.floor("C12.refuse-before-mutate", len(raises), 1, "StreamBufferFullError raises in write")
    appends = cfg.stmt_nodes(lambda n: n.kind == "stmt" and any(q.is_call(c, "self._write_buffer.append") for c in q.calls(n.ast)))
    idx = cfg.stmt_nodes(lambda n: _is_aug(n, "self._total_write_index"))
    futs = cfg.stmt_nodes(lambda n: n.kind == "stmt" and any(q.is_call(c, "self._write_futures.append") for c in q.calls(n.ast)))
    mk = cfg.stmt_nodes(lambda n: n.kind == "stmt" and isinstance(n.ast, (ast.Assign, ast.AnnAssign)) and isinstance(n.ast.value, ast.Call) and q.call_attr(n.ast.value) in ("Future", "_create_future"))
    ck.floor("C12.index-pair", len(appends), 1, "_write_buffer.append in write")
    ck.floor("C12.future-fifo", len(futs), 1, "_write_futures.append in write")
    # creating the (local) Future object is not a side effect on the stream; queueing it is
    muts = appends + idx + futs + cfg.stmt_nodes(lambda n: n.kind == "stmt" and any(q.is_call(c, "self._handle_write", "self._add_io_state") for c in q.calls(n.ast)))
    reach = _reach(cfg, {m.id for m in muts})
    for r in raises:
        ck.ob("C12.refuse-before-mutate", fi, r.ast, r.id not in reach, "the refusal cannot be reached after the write buffer, the indices or the future queue were touched (refused without side effects)")
    # the overflow test: the If that contains the raise
    pm = q.parent_map(fi.node)
    tests = []
    for r in raises:
        chain = []
        child = r.ast
        for a in q.ancestors(pm, r.ast):
            if isinstance(a, ast.If):
                if any(child is s for s in a.body):
                    if q.dotted(a.test) != data:  # `if data:` only skips empty writes
                        chain.append(a.test)
                else:
                    chain.append(ast.UnaryOp(op=ast.Not(), operand=a.test))
            child = a
        if chain:
            chain.reverse()
            tests.append(chain[0] if len(chain) == 1 else ast.BoolOp(op=ast.And(), values=chain))
    ck.need(len(tests) == len(raises), "the refusal is not the body of an if")
    for t0 in tests:
        t = expand_expr(ck.repo, fi, t0)
        bad = []
        for m in (None, 0, 1, 2, 3, 4):
            for w in range(0, 4):
                for d in range(1, 5):
                    env = {"self.max_write_buffer_size": m, "self._write_buffer": tuple(range(w)), data: b"x" * d}
                    try:
                        got = bool(q.fold(t, env))
                    except q.NotFoldable as e:
                        raise AnalysisError("cannot evaluate the overflow test: %s" % e)
                    want = m is not None and w + d > m
                    if got != want:
                        bad.append("max=%s buffered=%d new=%d -> %s" % (m, w, d, got))
        ck.ob("C12.refuse-before-mutate", fi, t0, not bad, "a write is refused exactly when len(write buffer) + len(data) > max_write_buffer_size (96 cases folded%s)" % ((": " + "; ".join(bad[:3])) if bad else ""))
    # every append passed the test: path-sensitive on the test's atoms
    atoms = set()
    for t in tests:
        for c in q.split_conj(t):
            from ..cfg import canon_fact

            atoms.add(canon_fact(c, True)[0])
    gfw0 = guard_facts(fi, ClassEffects(ck.repo, FAMILY))

    def edge_atoms(n, kind, val):
        for t_, _p in edge_facts(n, kind, gfw0):
            if t_ in atoms:
                return True
        return val

    seen = explore(cfg, False, lambda n, v: v, lambda text: False, edge_transfer=edge_atoms)
    for a in appends:
        states = seen.get(a.id, set())
        ck.need(states, "append node unreachable in write")
        ok = all(v for _f, v in states)
        ck.ob("C12.refuse-before-mutate", fi, a.ast, ok, "on every path the overflow test was evaluated (and failed) before data is appended to the write buffer")
    # memoryview: cast to bytes before any length is taken
    casts = cfg.stmt_nodes(lambda n: n.kind == "stmt" and isinstance(n.ast, ast.Assign) and q.assigned_paths(n.ast) == {data} and any(q.call_attr(c) == "cast" and c.args and q.is_const(c.args[0], "B") for c in q.calls(n.ast)))
    ck.ob("C12.bytes-units", fi, fi.node, len(casts) >= 1, "memoryview data is cast to format 'B' (len() == nbytes)", construct="memoryview cast in write")
    cid = {c.id for c in casts}
    mv = "isinstance(%s, memoryview)" % data

    from ..cfg import canon_fact as _cf

    def tr(n, val):
        tested, ismv, casted = val
        return (tested, ismv, True) if n.id in cid else val

    def edge(n, kind, val):
        for t, pol in edge_facts(n, kind, gfw0):
            if t == mv:
                return (True, pol, val[2])
        return val

    seen2 = explore(cfg, (False, False, False), tr, lambda text: False, edge_transfer=edge)
    def _len_uses(n):
        """len(data) used as a quantity (an emptiness test `len(data) > 0 / == 0 / != 0` is unit-free)"""
        if n.kind not in ("stmt", "test") or n.ast is None:
            return False
        pm_ = q.parent_map(n.ast)
        for c in q.calls(n.ast):
            if q.is_call(c, "len") and c.args and q.dotted(c.args[0]) == data:
                par = pm_.get(c)
                if isinstance(par, ast.Compare) and len(par.ops) == 1 and isinstance(par.ops[0], (ast.Gt, ast.NotEq, ast.Eq, ast.GtE, ast.Lt, ast.LtE)) and ((par.left is c and q.is_const(par.comparators[0], 0)) or (par.comparators[0] is c and q.is_const(par.left, 0))):
                    continue
                if n.kind == "test" and n.ast is c:
                    continue
                return True
        return False

    lens = cfg.stmt_nodes(_len_uses) + appends
    for n in lens:
        states = seen2.get(n.id, set())
        ok = bool(states) and all(tested and (casted or not ismv) for _f, (tested, ismv, casted) in states)
        ck.ob("C12.bytes-units", fi, n.ast, ok, "len(data) is taken / data is queued only after the memoryview test (and cast) on every path")

    # pairing append / index
    for a in appends:
        c = [c for c in q.calls(a.ast) if q.is_call(c, "self._write_buffer.append")][0]
        ck.ob("C12.index-pair", fi, a.ast, len(c.args) == 1 and q.dotted(c.args[0]) == data, "the written data itself is appended to the write buffer")
    weff = ClassEffects(ck.repo, FAMILY)
    if idx:
        ck.ob("C12.index-pair", fi, fi.node, True, "write advances _total_write_index")
    else:
        missing_effect(ck, "C12.index-pair", fi, weff, {"self._total_write_index"}, "write advances _total_write_index", "_total_write_index update in write")
    for i in idx:
        v = expand_expr(ck.repo, fi, as_aug(i.ast).value)
        ck.ob("C12.index-pair", fi, i.ast, q.is_call(v, "len") and q.dotted(v.args[0]) == data, "_total_write_index grows by len(data)")
    aid = {a.id for a in appends}
    iid = {i.id for i in idx}

    def tr2(n, val):
        a, b = val
        if n.id in aid:
            a = min(a + 1, 2)
        if n.id in iid:
            b = min(b + 1, 2)
        return (a, b)

    seen3 = explore(cfg, (0, 0), tr2, lambda t: False, follow_exc=False)
    st = {v for _f, v in seen3.get(cfg.exit.id, ())}
    ck.ob("C12.index-pair", fi, fi.node, st <= {(0, 0), (1, 1)} and (1, 1) in st, "append and index update happen together, once (path states %s)" % sorted(st), construct="(appends, index updates) per path = %s" % sorted(st))
    # data is not re-bound between the cast and its uses
    for n in cfg.stmt_nodes(lambda n: n.kind == "stmt" and isinstance(n.ast, ast.stmt) and data in q.assigned_paths(n.ast)):
        ck.ob("C12.index-pair", fi, n.ast, n.id in cid, "data is only re-bound by the memoryview cast")

    # futures
    for f in futs:
        c = [c for c in q.calls(f.ast) if q.is_call(c, "self._write_futures.append")][0]
        tup = c.args[0] if c.args else None
        ok = isinstance(tup, ast.Tuple) and len(tup.elts) == 2 and q.dotted(tup.elts[0]) == "self._total_write_index"
        ck.ob("C12.future-fifo", fi, f.ast, ok, "the write future is queued with the value of _total_write_index")
        after = _reach(cfg, {f.id})
        ck.ob("C12.future-fifo", fi, f.ast, not (after & (iid | aid)), "the index stored with the future is the post-write index (no append / index update after it was queued)")
        fut = q.dotted(tup.elts[1]) if ok else None
        made = [m for m in mk if fut in q.assigned_paths(m.ast)]
        ck.ob("C12.future-fifo", fi, f.ast, bool(made), "a fresh Future per write is queued")
        rets = [n for n in cfg.stmt_nodes(lambda n: n.kind == "stmt" and isinstance(n.ast, ast.Return))]
        ck.ob("C12.future-fifo", fi, f.ast, bool(rets) and all(q.dotted(r.ast.value) == fut for r in rets), "write returns the future it queued")
    ef = event_facts(fi, {"queued": lambda n: n in futs}, cond_facts=False)
    for n in cfg.stmt_nodes(node_calls("self._handle_write")):
        ck.ob("C12.future-fifo", fi, n.ast, ("@queued", True) in ef[n.id], "the future is queued before the send loop may resolve futures")
    ck.ob("C12.future-fifo", fi, fi.node, ("@queued", True) in ef[cfg.exit.id], "every successful write queues its future", construct="future queued on every normal path of write")


def handle_write(ck):
    fi = ck.func(IO, B + "._handle_write")
    cfg = fi.cfg
    sends = cfg.stmt_nodes(lambda n: n.kind == "stmt" and isinstance(n.ast, ast.Assign) and q.is_call(n.ast.value, "self.write_to_fd"))
    ck.floor("C12.send-pair", len(sends), 1, "write_to_fd calls in _handle_write")
    nvar = q.dotted(sends[0].ast.targets[0])
    ck.need(nvar, "write_to_fd result is not bound to a name")
    for s in sends:
        a = s.ast.value.args[0] if s.ast.value.args else None
        ck.ob("C12.send-pair", fi, s.ast, q.is_call(a, "self._write_buffer.peek"), "the transport is given the head of the write buffer (peek)")
    adv = cfg.stmt_nodes(lambda n: n.kind == "stmt" and any(q.is_call(c, "self._write_buffer.advance") for c in q.calls(n.ast)))
    done = cfg.stmt_nodes(lambda n: _is_aug(n, "self._total_write_done_index"))
    heff = ClassEffects(ck.repo, FAMILY)
    if adv:
        ck.ob("C12.send-pair", fi, fi.node, True, "sent bytes are removed from the write buffer (advance)")
    else:
        missing_effect(ck, "C12.send-pair", fi, heff, {"self._write_buffer"}, "sent bytes are removed from the write buffer (advance)", "advance in _handle_write")
    if done:
        ck.ob("C12.send-pair", fi, fi.node, True, "_total_write_done_index is advanced")
    else:
        missing_effect(ck, "C12.send-pair", fi, heff, {"self._total_write_done_index"}, "_total_write_done_index is advanced", "done-index update in _handle_write")
    for a in adv:
        c = [c for c in q.calls(a.ast) if q.is_call(c, "self._write_buffer.advance")][0]
        ck.ob("C12.send-pair", fi, a.ast, len(c.args) == 1 and q.dotted(c.args[0]) == nvar, "the buffer advances by exactly the count write_to_fd returned (%s)" % nvar)
    for d in done:
        ck.ob("C12.send-pair", fi, d.ast, q.dotted(as_aug(d.ast).value) == nvar, "_total_write_done_index grows by exactly the count write_to_fd returned (%s)" % nvar)
    ef = event_facts(
        fi,
        {"sent": lambda n: n in sends, "adv": lambda n: n in adv},
        {"sent": lambda n: n in done or n in adv and False, "adv": lambda n: n in done},
        cond_facts=False,
    )
    for a in adv:
        ck.ob("C12.send-pair", fi, a.ast, ("@sent", True) in ef[a.id], "each advance follows its own write_to_fd")
    for d in done:
        ck.ob("C12.send-pair", fi, d.ast, ("@adv", True) in ef[d.id], "the done index is updated only after the buffer advanced (once per send)")
    # `self._total_write_done_index += n` (int += int on a plain attribute) cannot raise: drop its coarse exception edge
    from ..rules import fresh_cfg

    pcfg = fresh_cfg(fi)
    pcfg.drop_exc_edges(lambda n: _is_aug(n, "self._total_write_done_index") and isinstance(as_aug(n.ast).value, ast.Name))
    by_line = {(n.kind, getattr(n.ast, "lineno", None), getattr(n.ast, "col_offset", None)) for n in adv}
    padv = [n for n in pcfg.stmt_nodes() if n.kind == "stmt" and any(n.ast is a.ast for a in adv)]
    pdone = [n for n in pcfg.stmt_nodes() if n.kind == "stmt" and any(n.ast is d.ast for d in done)]
    pa = {n.id for n in padv}
    pd = {n.id for n in pdone}
    pbad = _not_followed(fi, lambda n: n.id in pa, lambda n: n.id in pd, cfg=pcfg)
    bad = {a.id for a in adv if any(p.ast is a.ast and p.id in pbad for p in padv)}
    aid = {a.id for a in adv}
    for a in adv:
        ck.ob("C12.send-pair", fi, a.ast, a.id not in bad, "every advance is followed by the done-index update on every normal path")

    # resolve loop
    ss = settle_sites(fi)
    ck.floor("C12.future-fifo", len(ss), 1, "future resolutions in _handle_write")
    gf = guard_facts(fi, ClassEffects(ck.repo, FAMILY))
    heads = cfg.stmt_nodes(lambda n: n.kind == "stmt" and isinstance(n.ast, ast.Assign) and isinstance(n.ast.value, ast.Subscript) and q.dotted(n.ast.value.value) == "self._write_futures")
    pops = cfg.stmt_nodes(lambda n: n.kind == "stmt" and any(q.receiver(c) == "self._write_futures" and q.call_attr(c) in ("popleft", "pop") for c in q.calls(n.ast)))
    for node, c, p, kind in ss:
        ck.ob("C12.future-fifo", fi, c, kind == "safe", "write futures are resolved with future_set_result_unless_cancelled")
        # which (index, future) pair
        src = [h for h in heads if isinstance(h.ast.targets[0], ast.Tuple) and len(h.ast.targets[0].elts) == 2 and q.dotted(h.ast.targets[0].elts[1]) == p]
        if not src:
            src = [h for h in pops if isinstance(h.ast, ast.Assign) and isinstance(h.ast.targets[0], ast.Tuple) and len(h.ast.targets[0].elts) == 2 and q.dotted(h.ast.targets[0].elts[1]) == p]
        ck.need(src, "resolved future is not unpacked from the write-future queue")
        h = src[0]
        ivar = q.dotted(h.ast.targets[0].elts[0])
        if isinstance(h.ast.value, ast.Subscript):
            ck.ob("C12.future-fifo", fi, h.ast, q.is_const(h.ast.value.slice, 0), "the oldest queued write (head of the queue) is examined")
        # predicate: resolve iff index <= done
        # facts at the resolution, plus - when the pair is popped from the head - the facts that held about the
        # head's index (`self._write_futures[0][0]`) just before the pop (the pop itself invalidates them)
        HEAD_INDEX = "self._write_futures[0][0]"
        cand = [(t, pol) for t, pol in gf[node.id]]
        if h in pops and not any(c_.args for c_ in q.calls(h.ast) if q.receiver(c_) == "self._write_futures") and any(q.call_attr(c_) == "popleft" for c_ in q.calls(h.ast)):
            cand += [(t.replace(HEAD_INDEX, ivar), pol) for t, pol in gf[h.id] if HEAD_INDEX in t]
        rel = [(t, pol) for t, pol in cand if not t.startswith("@") and "self._total_write_done_index" in t and ivar in t]
        if not rel and any(q.call_attr(c_) in ("popleft", "pop", "__getitem__") for c_ in q.calls(h.ast)) and not any("self._total_write_done_index" in t for t, _p in cand):
            # no comparison with the done index is known at all on the way to the resolution
            pass
        bad = []
        for i in range(0, 4):
            for d in range(0, 4):
                try:
                    hold = all(bool(q.fold(ast.parse(t, mode="eval").body, {ivar: i, "self._total_write_done_index": d})) == pol for t, pol in rel)
                except q.NotFoldable as e:
                    raise AnalysisError("cannot evaluate the resolve guard: %s" % e)
                if (hold and bool(rel)) != (i <= d):
                    bad.append("index=%d done=%d" % (i, d))
        ck.ob("C12.future-fifo", fi, c, bool(rel) and not bad, "a write future is resolved exactly when its index <= _total_write_done_index (all its bytes and all earlier bytes were sent)%s" % ((" - differs at " + ", ".join(bad[:4])) if bad else ""))
        # removed from the head before/when resolved
        ef2 = event_facts(fi, {"popped": lambda n: n in pops}, {"popped": lambda n: n in heads}, cond_facts=False)
        ck.ob("C12.future-fifo", fi, c, ("@popped", True) in ef2[node.id], "the resolved future was removed from the queue (resolved once)")
        # resolve after the send loop
        after = _reach(cfg, {node.id})
        ck.ob("C12.future-fifo", fi, c, not (after & {s.id for s in sends}), "futures are resolved after the send loop (the done index is final for this call)")
    for pnode in pops:
        c = [c for c in q.calls(pnode.ast) if q.receiver(c) == "self._write_futures"][0]
        ck.ob("C12.future-fifo", fi, pnode.ast, q.call_attr(c) == "popleft" and not c.args, "futures leave the queue from the head (popleft)")
    # queue operations elsewhere
    for rel_, cls in FAMILY:
        for f in ck.repo.direct_methods(rel_, cls):
            for c in q.calls(f.node):
                if q.receiver(c) == "self._write_futures" and q.call_attr(c) in ("appendleft", "insert", "pop", "rotate", "reverse", "extendleft", "remove"):
                    ck.ob("C12.future-fifo", f, c, False, "the write-future queue is only appended to, popped from the head, or cleared on close")


# ---------------------------------------------------------------------------


def stream_buffer(ck):
    app = ck.func(IO, SB + ".append")
    pk = ck.func(IO, SB + ".peek")
    adv = ck.func(IO, SB + ".advance")
    # deque operations
    ALLOWED = {"append": {"append"}, "advance": {"popleft"}}
    n_ops = 0
    for fi in ck.repo.direct_methods(IO, SB):
        aliases = {"self._buffers"}
        for st in q.walk_body(fi.node):
            if isinstance(st, ast.Assign) and q.dotted(st.value) == "self._buffers":
                aliases |= q.assigned_paths(st)
        for c in q.calls(fi.node):
            if q.receiver(c) in aliases and q.call_attr(c) in ("append", "appendleft", "pop", "popleft", "insert", "rotate", "reverse", "extendleft", "remove", "clear", "extend"):
                n_ops += 1
                ok = q.call_attr(c) in ALLOWED.get(fi.name, set())
                ck.ob("C12.buffer-fifo", fi, c, ok, "chunks enter at the tail (append) and leave from the head (popleft in advance)")
        for x in q.walk_body(fi.node):
            if isinstance(x, ast.Subscript) and q.dotted(x.value) in aliases:
                n_ops += 1
                want = -1 if fi.name == "append" else 0
                try:
                    idxv = q.fold(x.slice, {})
                except q.NotFoldable:
                    idxv = None
                ck.ob("C12.buffer-fifo", fi, x, idxv == want, "%s looks at the %s chunk only" % (fi.name, "newest (tail, for coalescing)" if want == -1 else "oldest (head)"))
    ck.floor("C12.buffer-fifo", n_ops, 5, "deque operations in _StreamBuffer")

    # who owns _first_pos: it is an offset into the HEAD chunk and may only be applied to / reset for that chunk
    n_pos = 0
    for fi in ck.repo.direct_methods(IO, SB):
        if fi.name == "__init__":
            continue
        aliases = {"self._buffers"}
        for st in q.walk_body(fi.node):
            if isinstance(st, ast.Assign) and q.dotted(st.value) == "self._buffers":
                aliases |= q.assigned_paths(st)
        pos_names = {"self._first_pos"}
        for st in q.walk_body(fi.node):
            if isinstance(st, (ast.Assign, ast.AnnAssign)) and q.dotted(getattr(st, "value", None)) == "self._first_pos":
                pos_names |= {p_ for p_ in q.assigned_paths(st) if "." not in p_}
        gfb = guard_facts(fi)

        def chunk_index(name: str):
            """index K when local ``name`` is (only) bound from <deque>[K] (tuple unpack or plain); None if unknown"""
            ks = set()
            for st in q.walk_body(fi.node):
                if isinstance(st, ast.Assign) and name in {x.id for t_ in st.targets for x in ast.walk(t_) if isinstance(x, ast.Name)}:
                    v = st.value
                    if isinstance(v, ast.Subscript) and q.dotted(v.value) in aliases:
                        try:
                            ks.add(q.fold(v.slice, {}))
                        except q.NotFoldable:
                            return None
                    elif isinstance(v, ast.Call) and q.receiver(v) in aliases and q.call_attr(v) == "popleft":
                        ks.add(0)
                    else:
                        return None
            return ks or None

        def single_chunk(node) -> bool:
            for t_, p_ in gfb[node.id]:
                if t_.startswith("@") or not any(("len(%s)" % a_) in t_ for a_ in aliases):
                    continue
                try:
                    vals = {k for k in range(0, 4) if bool(q.fold(ast.parse(t_, mode="eval").body, {a_: tuple(range(k)) for a_ in aliases})) == p_}
                except q.NotFoldable:
                    continue
                if vals == {1}:
                    return True
            return False

        def base_name(e):
            while True:
                if isinstance(e, ast.Call) and e.args and (q.dotted(e.func) in ("memoryview", "typing.cast", "cast", "bytes", "bytearray")):
                    e = e.args[-1]
                    continue
                break
            return e.id if isinstance(e, ast.Name) else None

        for node, x in fi.cfg.find(lambda x: isinstance(x, ast.Subscript) and isinstance(x.slice, ast.Slice)):
            bounds = [b_ for b_ in (x.slice.lower, x.slice.upper) if b_ is not None]
            if not any(q.dotted(y) in pos_names for b_ in bounds for y in ast.walk(b_)):
                continue
            n_pos += 1
            bn = base_name(x.value)
            ks = chunk_index(bn) if bn else None
            if ks is None:
                raise AnalysisError("%s: cannot tell which chunk %s is sliced with the head offset" % (fi.qualname, q.unparse(x.value)))
            ok = ks == {0} or (ks <= {0, -1} and single_chunk(node))
            ck.ob("C12.buffer-pos", fi, x, ok, "_first_pos is the offset into the HEAD chunk: it is only applied to the chunk taken from index 0 (applied here to index %s; the last chunk is the head only when exactly one chunk is queued)" % sorted(ks))
        if fi.name != "advance":
            for node in fi.cfg.stmt_nodes(lambda n: n.kind == "stmt" and isinstance(n.ast, (ast.Assign, ast.AugAssign)) and "self._first_pos" in q.assigned_paths(n.ast)):
                n_pos += 1
                touched = {k for st in q.walk_body(fi.node) if isinstance(st, ast.Assign) and isinstance(st.value, ast.Subscript) and q.dotted(st.value.value) in aliases for k in [q.fold(st.value.slice, {}) if isinstance(st.value.slice, (ast.Constant, ast.UnaryOp)) else None]}
                ok = single_chunk(node) or (touched and touched <= {0})
                ck.ob("C12.buffer-pos", fi, node.ast, bool(ok), "_first_pos is changed only together with the head chunk (advance), never while working on another chunk")
    if not any(v.rule == "C12.buffer-pos" for v in ck.violations):
        ck.floor("C12.buffer-pos", n_pos, 1, "uses of the head offset")

    # units: len(buffer) is the number of buffered *bytes*
    ln = ck.func(IO, SB + ".__len__")
    lr = [x for x in q.walk_body(ln.node) if isinstance(x, ast.Return)]
    ck.ob("C12.buffer-size", ln, ln.node, len(lr) == 1 and q.dotted(lr[0].value) == "self._size", "len(_StreamBuffer) is the byte count _size (write()'s overflow test and _handle_write's loop rely on bytes, not chunks)", construct="_StreamBuffer.__len__ returns self._size")
    init_sb = ck.func(IO, SB + ".__init__")
    z = [st for st in q.stores_to(init_sb.node, "self._size")]
    ck.ob("C12.buffer-size", init_sb, z[0] if z else init_sb.node, len(z) == 1 and q.is_const(getattr(z[0], "value", None), 0), "_size starts at 0")
    # append: size bookkeeping and single store
    data = _params(app)[0]
    szs = [st for st in q.walk_body(app.node) if isinstance(st, ast.Assign) and q.is_call(st.value, "len") and q.dotted(st.value.args[0]) == data and isinstance(st.targets[0], ast.Name)]
    ck.need(len(szs) <= 1, "append names len(data) more than once")
    sz = szs[0].targets[0].id if szs else "len(%s)" % data
    incs = app.cfg.stmt_nodes(lambda n: _is_aug(n, "self._size"))
    sbeff = ClassEffects(ck.repo, [(IO, SB)])
    if incs:
        ck.ob("C12.buffer-size", app, app.node, True, "append adds to _size")
    else:
        missing_effect(ck, "C12.buffer-size", app, sbeff, {"self._size"}, "append adds to _size", "_size update in append")
    for i in incs:
        ck.ob("C12.buffer-size", app, i.ast, q.dotted(as_aug(i.ast).value) == sz or (q.is_call(as_aug(i.ast).value, "len") and q.dotted(as_aug(i.ast).value.args[0]) == data), "_size grows by len(data)")
    iid = {i.id for i in incs}

    def is_store(n):
        if n.kind != "stmt":
            return False
        if any(q.call_attr(c) == "append" and (q.receiver(c) or "").endswith("_buffers") and any(isinstance(x, ast.Name) and x.id == data for x in ast.walk(c)) for c in q.calls(n.ast)):
            return True
        return isinstance(n.ast, ast.AugAssign) and isinstance(n.ast.op, ast.Add) and q.dotted(n.ast.value) == data

    def tr(n, val):
        a, b, fs = val
        if n.id in iid:
            a = min(a + 1, 2)
        if is_store(n):
            b = min(b + 1, 2)
        return (a, b, fs)

    gfapp = guard_facts(app)

    def edge_sz(n, kind, val):
        a, b, fs = val
        for t_, p_ in edge_facts(n, kind, gfapp):
            try:
                e_ = ast.parse(t_, mode="eval").body
            except SyntaxError:
                continue
            names_ = {x.id for x in ast.walk(e_) if isinstance(x, ast.Name)} | {q.unparse(x) for x in ast.walk(e_) if isinstance(x, ast.Call)}
            if sz in names_ and isinstance(e_, (ast.Compare, ast.Name)):
                fs = fs | {(t_, p_)}
        return (a, b, fs)

    seen0 = explore(app.cfg, (0, 0, frozenset()), tr, lambda t: False, edge_transfer=edge_sz, follow_exc=False)
    states = {(fs, (a, b)) for _f, (a, b, fs) in seen0.get(app.cfg.exit.id, set())}
    ck.need(states, "append has no normal exit")
    def _sizes(f):
        """sizes 0..6 consistent with the tracked branch facts (threshold folded as 4)"""
        out = set()
        for k in range(0, 7):
            try:
                env_ = {sz: k}
                for t_, _p in f:
                    for pth in q.paths_in(ast.parse(t_, mode="eval").body):
                        if pth != sz and pth not in ("self",) and not pth.startswith(sz + "."):
                            env_.setdefault(pth, 4)  # whatever the large-chunk threshold is called
                if all(bool(q.fold(ast.parse(t, mode="eval").body, env_)) == p for t, p in f):
                    out.add(k)
            except q.NotFoldable as ex:
                raise AnalysisError("cannot evaluate the size test in _StreamBuffer.append: %s" % ex)
        return out

    for f, (a, b) in sorted(states, key=repr):
        nonempty = bool(_sizes(f) - {0}) if sz.isidentifier() else any(p for (t, p) in f)
        ck.ob("C12.buffer-size", app, app.node, a == 1, "_size is updated exactly once on every path of append (count %d)" % a, construct="append path: size updates=%d" % a)
        ck.ob("C12.buffer-size", app, app.node, b == (1 if nonempty else 0), "non-empty data is stored exactly once, empty data not at all (stores=%d, non-empty=%s)" % (b, nonempty), construct="append path: stores=%d nonempty=%s" % (b, nonempty))
    # the size is measured before data is re-wrapped; re-wrapping keeps the bytes
    for st in q.stores_to(app.node, data):
        v = getattr(st, "value", None)
        ck.ob("C12.buffer-size", app, st, q.is_call(v, "memoryview") and q.dotted(v.args[0]) == data, "data is only re-bound to a memoryview of itself")

    # chunk kinds: (True, memoryview) is never extended in place, (False, bytearray) owns a private copy
    from ..cfg import canon_fact as _cf

    tuples = []
    for node, c in app.cfg.find(lambda x: isinstance(x, ast.Call) and q.call_attr(x) == "append" and (q.receiver(x) or "").endswith("_buffers")):
        t = c.args[0] if c.args else None
        ck.need(isinstance(t, ast.Tuple) and len(t.elts) == 2 and isinstance(t.elts[0], ast.Constant) and isinstance(t.elts[0].value, bool), "chunk is not appended as a (flag, buffer) pair")
        tuples.append((node, c, t))
    ck.floor("C12.buffer-kinds", len(tuples), 2, "chunk appends in _StreamBuffer.append")
    mvtest = "isinstance(%s, memoryview)" % data

    def tr_mv(n, val):
        if n.kind == "stmt" and isinstance(n.ast, ast.Assign) and q.assigned_paths(n.ast) == {data}:
            return q.is_call(n.ast.value, "memoryview")
        return val

    def edge_mv(n, kind, val):
        if n.kind == "test" and kind in ("true", "false"):
            t, pol = _cf(n.ast, kind == "true")
            if t == mvtest or (mvtest, pol) in edge_facts(n, kind, gfapp):
                return pol
        return val

    seen_mv = explore(app.cfg, "?", tr_mv, lambda t: False, edge_transfer=edge_mv, follow_exc=False)
    for node, c, t in tuples:
        if t.elts[0].value is True:
            ok = q.dotted(t.elts[1]) == data and all(v is True for _f, v in seen_mv.get(node.id, ())) and bool(seen_mv.get(node.id))
            ck.ob("C12.buffer-kinds", app, c, ok, "a chunk flagged as memoryview really is one on every path (peek/advance slice it without copying)")
        else:
            e = t.elts[1]
            ok = q.is_call(e, "bytearray") and len(e.args) == 1 and q.dotted(e.args[0]) == data
            ck.ob("C12.buffer-kinds", app, c, ok, "a small chunk is stored as a private bytearray copy (later writes are coalesced into it in place)")
    gfa = guard_facts(app)
    exts = app.cfg.stmt_nodes(lambda n: n.kind == "stmt" and isinstance(n.ast, ast.AugAssign) and isinstance(n.ast.op, ast.Add) and q.dotted(n.ast.value) == data)
    for n in exts:
        tgt = q.dotted(n.ast.target)
        flagged = [(t_, p_) for t_, p_ in gfa[n.id] if not t_.startswith("@") and p_ is False and t_.isidentifier()]
        ok = False
        for fl, _p in flagged:
            # fl is a local flag known False here; its definition must be true whenever the tail chunk is a memoryview
            for st in q.stores_to(app.node, fl):
                v = getattr(st, "value", None)
                if v is None or isinstance(v, ast.Constant):
                    continue
                unp = [x for x in q.walk_body(app.node) if isinstance(x, ast.Assign) and isinstance(x.targets[0], ast.Tuple) and isinstance(x.value, ast.Subscript) and (q.dotted(x.value.value) or "").endswith("_buffers")]
                if len(unp) == 1 and len(unp[0].targets[0].elts) == 2:
                    fv, bv = (q.dotted(z) for z in unp[0].targets[0].elts)
                    try:
                        if bv == tgt and q.fold(v, {fv: True, bv: b"", "self._large_buf_threshold": 2048}) and not q.fold(v, {fv: False, bv: b"", "self._large_buf_threshold": 2048}):
                            ok = True
                    except q.NotFoldable:
                        pass
        ck.ob("C12.buffer-kinds", app, n.ast, ok, "data is coalesced in place only into the tail chunk, and only when that chunk is a (small) bytearray, never a memoryview")

    # advance
    size = _params(adv)[0]
    asserts = [a for a in q.walk_body(adv.node) if isinstance(a, ast.Assert) and size in {x.id for x in ast.walk(a.test) if isinstance(x, ast.Name)} and "self._size" in {q.dotted(x) for x in ast.walk(a.test)}]
    ok = False
    for a in asserts:
        good = True
        for s in range(-1, 5):
            for t in range(0, 4):
                try:
                    v = bool(q.fold(a.test, {size: s, "self._size": t}))
                except q.NotFoldable:
                    good = False
                    break
                if v != (0 < s <= t):
                    good = False
        ok = ok or good
    ck.ob("C12.buffer-size", adv, adv.node, ok, "advance asserts 0 < size <= _size (never advances past the buffered bytes)", construct="advance precondition")
    decs = adv.cfg.stmt_nodes(lambda n: _is_aug(n, "self._size", ast.Sub))
    if decs:
        ck.ob("C12.buffer-size", adv, adv.node, True, "advance subtracts from _size")
    else:
        missing_effect(ck, "C12.buffer-size", adv, sbeff, {"self._size"}, "advance subtracts from _size", "_size update in advance")
    ef = event_facts(adv, {"touched": lambda n: n.kind == "stmt" and isinstance(n.ast, ast.stmt) and size in q.assigned_paths(n.ast), "checked": lambda n: n.kind == "stmt" and n.ast in asserts}, cond_facts=False)
    for d in decs:
        ck.ob("C12.buffer-size", adv, d.ast, q.dotted(as_aug(d.ast).value) == size and not _touched_before(adv, d), "_size shrinks by the requested size (before the loop consumes the variable)")
        ck.ob("C12.buffer-size", adv, d.ast, ("@checked", True) in ef[d.id], "the precondition is asserted before _size is changed")
    did = {d.id for d in decs}
    cnt = {v for _f, v in explore(adv.cfg, 0, lambda n, v: min(v + (1 if n.id in did else 0), 2), lambda t: False, follow_exc=False).get(adv.cfg.exit.id, ())}
    ck.ob("C12.buffer-size", adv, adv.node, cnt == {1}, "_size is updated exactly once per advance (counts %s)" % sorted(cnt), construct="advance: size updates per path = %s" % sorted(cnt))
    # final position stored
    posv = None
    for st in q.walk_body(adv.node):
        if isinstance(st, ast.Assign) and q.dotted(st.value) == "self._first_pos" and isinstance(st.targets[0], ast.Name):
            posv = st.targets[0].id
    ck.need(posv, "advance does not read _first_pos into a local")
    stores = adv.cfg.stmt_nodes(lambda n: n.kind == "stmt" and isinstance(n.ast, ast.Assign) and "self._first_pos" in q.assigned_paths(n.ast))
    ef2 = event_facts(adv, {"stored": lambda n: n in stores and q.dotted(n.ast.value) == posv}, {"stored": lambda n: n.kind == "stmt" and isinstance(n.ast, ast.stmt) and posv in q.assigned_paths(n.ast)}, cond_facts=False)
    ck.ob("C12.buffer-pos", adv, adv.node, ("@stored", True) in ef2[adv.cfg.exit.id], "advance stores the final position of the head chunk in _first_pos on every normal path", construct="_first_pos stored at the end of advance")
    # dropping a whole chunk: size reduced by what was left of it, computed before the position is reset
    for p in adv.cfg.stmt_nodes(lambda n: n.kind == "stmt" and any(q.call_attr(c) == "popleft" for c in q.calls(n.ast))):
        pm = q.parent_map(adv.node)
        blk = None
        for a in q.ancestors(pm, p.ast):
            if isinstance(a, ast.If):
                blk = a.body if any(p.ast is s for s in a.body) else a.orelse
                break
        ck.need(blk, "popleft in advance is not inside a branch")
        red = [s for s in blk if isinstance(as_aug(s), ast.AugAssign) and isinstance(as_aug(s).op, ast.Sub) and q.dotted(as_aug(s).target) == size]
        rst = [s for s in blk if isinstance(s, ast.Assign) and q.assigned_paths(s) == {posv} and q.is_const(s.value, 0)]
        ok = len(red) == 1 and len(rst) == 1 and blk.index(red[0]) < blk.index(rst[0]) and posv in {x.id for x in ast.walk(as_aug(red[0]).value) if isinstance(x, ast.Name)}
        ck.ob("C12.buffer-pos", adv, p.ast, ok, "when the head chunk is used up: size -= len(chunk) - pos is computed before pos is reset to 0")

    # peek honours the position
    pv = None
    for st in q.walk_body(pk.node):
        if isinstance(st, ast.Assign) and q.dotted(st.value) == "self._first_pos" and isinstance(st.targets[0], ast.Name):
            pv = st.targets[0].id
    if not pv:
        if any(q.dotted(x) == "self._first_pos" for x in q.walk_body(pk.node)):
            pv = "self._first_pos"  # read directly in the slices
        elif any(isinstance(c_, ast.Call) and q.receiver(c_) == "self" for c_ in q.calls(pk.node)):
            raise AnalysisError("peek does not read _first_pos itself but calls a helper that may")
        else:
            ck.ob("C12.buffer-pos", pk, pk.node, False, "peek starts at _first_pos (bytes already sent are not offered again)", construct="peek reads _first_pos")
            return
    psize = _params(pk)[0]
    n_r = 0
    for r in [x for x in q.walk_body(pk.node) if isinstance(x, ast.Return)]:
        sl = [x for x in ast.walk(r.value) if isinstance(x, ast.Subscript) and isinstance(x.slice, ast.Slice)]
        if not sl:
            ck.ob("C12.buffer-pos", pk, r, q.is_call(r.value, "memoryview") and isinstance(r.value.args[0], ast.Constant) and r.value.args[0].value == b"", "peek returns an empty view only when nothing is buffered")
            continue
        n_r += 1
        s = sl[0].slice
        if s.lower is None or s.upper is None:
            ok = False  # a view from 0 / to the end: bytes already sent are offered again / more than asked
        else:
            lo = expand_expr(ck.repo, pk, s.lower)
            up = expand_expr(ck.repo, pk, s.upper)
            ok = True
            for p0 in range(0, 4):
                for z in range(1, 4):
                    env_ = {pv: p0, "self._first_pos": p0, psize: z}
                    try:
                        ok = ok and q.fold(lo, env_) == p0 and q.fold(up, env_) == p0 + z
                    except q.NotFoldable as ex:
                        raise AnalysisError("cannot evaluate the slice returned by peek: %s" % ex)
        ck.ob("C12.buffer-pos", pk, r, ok, "peek returns head[pos : pos + size] with pos = _first_pos (bytes already sent are not offered again)")
    ck.floor("C12.buffer-pos", n_r, 2, "slicing returns in peek")


def _touched_before(fi, node) -> bool:
    size = _params(fi)[0]
    ts = {n.id for n in fi.cfg.stmt_nodes(lambda n: n.kind == "stmt" and isinstance(n.ast, ast.stmt) and size in q.assigned_paths(n.ast))}
    return node.id in _reach(fi.cfg, ts)


def run(ck):
    ck.rule("C12.refuse-before-mutate", "write(): the StreamBufferFullError refusal is unreachable after any mutation, precedes every append on every path, and its predicate is len(buffer) + len(data) > max")
    ck.rule("C12.bytes-units", "write(): memoryviews are cast to bytes ('B') before their length is used or they are queued")
    ck.rule("C12.index-pair", "write(): _write_buffer.append(data) and _total_write_index += len(data) happen together, once, on the same data")
    ck.rule("C12.send-pair", "_handle_write(): advance(n) and _total_write_done_index += n happen together with n = write_to_fd(peek(..))")
    ck.rule("C12.future-fifo", "write futures carry the post-write index, are queued on every successful write, and are resolved from the head exactly while index <= done, once, after the send loop")
    ck.rule("C12.buffer-fifo", "_StreamBuffer uses its deque first-in first-out (append/[-1] at the tail, [0]/popleft at the head)")
    ck.rule("C12.buffer-kinds", "_StreamBuffer.append: (True, x) chunks are memoryviews, (False, x) chunks are private bytearrays, in-place coalescing only into a bytearray tail")
    ck.rule("C12.buffer-size", "_StreamBuffer._size is adjusted by len(data)/size exactly once per call; non-empty data is stored exactly once; advance asserts 0 < size <= _size")
    ck.rule("C12.buffer-pos", "_StreamBuffer keeps the head position: advance stores it, accounts for it when dropping a chunk, peek starts at it")
    from ..x_iostream import normalised

    normalised(ck)
    write(ck)
    handle_write(ck)
    stream_buffer(ck)


# ---------------------------------------------------------------------------
# mutants


def _in(qn, edit):
    return lambda repo: mutate(repo, IO, qn, edit)


def _src(n):
    return ast.unparse(n)


def _append_before_check(root):
    for n in ast.walk(root):
        b = getattr(n, "body", None)
        if isinstance(b, list):
            i = [k for k, s in enumerate(b) if isinstance(s, ast.If) and "StreamBufferFullError" in _src(s)]
            j = [k for k, s in enumerate(b) if isinstance(s, ast.Expr) and "self._write_buffer.append" in _src(s)]
            if i and j and i[0] < j[0]:
                st = b.pop(j[0])
                b.insert(i[0], st)
                return True
    return False


def _swap_stmts(pa, pb):
    def edit(root):
        for n in ast.walk(root):
            for fld in ("body", "orelse"):
                b = getattr(n, fld, None)
                if isinstance(b, list):
                    ia = [k for k, s in enumerate(b) if pa(s)]
                    ib = [k for k, s in enumerate(b) if pb(s)]
                    if ia and ib:
                        b[ia[0]], b[ib[0]] = b[ib[0]], b[ia[0]]
                        return True
        return False

    return edit


def _future_before_index(root):
    # queue the future (with the index) before the data is appended / index advanced
    b = root.body
    fi = [k for k, s in enumerate(b) if isinstance(s, ast.Expr) and "self._write_futures.append" in _src(s)]
    mk = [k for k, s in enumerate(b) if isinstance(s, ast.AnnAssign) and "Future" in _src(s)]
    cb = [k for k, s in enumerate(b) if isinstance(s, ast.Expr) and "add_done_callback" in _src(s)]
    di = [k for k, s in enumerate(b) if isinstance(s, ast.If) and _src(s.test) == "data"]
    if fi and mk and cb and di:
        sts = [b[mk[0]], b[cb[0]], b[fi[0]]]
        for s in sts:
            b.remove(s)
        k = b.index([s for s in b if isinstance(s, ast.If) and _src(s.test) == "data"][0])
        b[k:k] = sts
        return True
    return False


def _size_only_large(root):
    b = root.body
    i = [k for k, s in enumerate(b) if isinstance(s, ast.AugAssign) and "_size" in _src(s.target)]
    j = [k for k, s in enumerate(b) if isinstance(s, ast.If)]
    if i and j:
        st = b.pop(i[0])
        b[j[0]].body.append(st)
        return True
    return False


def _hoist_index_update(root):
    # seeded C12-adv1: `size = len(data); self._total_write_index += size` above the refusal
    for n in ast.walk(root):
        b = getattr(n, "body", None)
        if isinstance(b, list):
            i = [k for k, s in enumerate(b) if isinstance(s, ast.If) and "StreamBufferFullError" in _src(s)]
            j = [k for k, s in enumerate(b) if isinstance(s, ast.AugAssign) and "_total_write_index" in _src(s.target)]
            if i and j and i[0] < j[0]:
                b.pop(j[0])
                b[i[0]:i[0]] = [parse_stmt("size = len(data)"), parse_stmt("self._total_write_index += size")]
                return True
    return False


def _future_queued_before_refusal(root):
    b = root.body
    fi_ = [k for k, s in enumerate(b) if isinstance(s, ast.Expr) and "self._write_futures.append" in _src(s)]
    mk = [k for k, s in enumerate(b) if isinstance(s, ast.AnnAssign) and "Future" in _src(s)]
    if fi_ and mk:
        sts = [b[mk[0]], b[fi_[0]]]
        for st in sts:
            b.remove(st)
        k = [k for k, s in enumerate(b) if isinstance(s, ast.Expr) and "_check_closed" in _src(s)][0]
        b[k + 1:k + 1] = sts
        return True
    return False


MUTANTS = [
    ("seeded C12-adv1: index update hoisted above the refusal (through a local)", _in(B + ".write", _hoist_index_update), "C12.refuse-before-mutate"),
    ("future created and queued before the refusal", _in(B + ".write", _future_queued_before_refusal), "C12.refuse-before-mutate"),
    ("data appended before the overflow check", _in(B + ".write", _append_before_check), "C12.refuse-before-mutate"),
    ("overflow check ignores what is already buffered", _in(B + ".write", replace_expr(lambda n: isinstance(n, ast.BinOp) and isinstance(n.op, ast.Add) and "len(self._write_buffer)" in _src(n.left), lambda n: n.right)), "C12.refuse-before-mutate"),
    ("memoryview not cast to bytes", _in(B + ".write", replace_stmt(lambda st: isinstance(st, ast.If) and "isinstance(data, memoryview)" in _src(st.test), lambda st: [ast.Pass()])), "C12.bytes-units"),
    ("_total_write_index not advanced", _in(B + ".write", remove_stmts(lambda st: isinstance(st, ast.AugAssign) and "_total_write_index" in _src(st.target))), "C12.index-pair"),
    ("future queued with the pre-write index", _in(B + ".write", _future_before_index), "C12.future-fifo"),
    ("buffer advanced by the offered size, not the sent count", _in(B + "._handle_write", replace_expr(lambda n: isinstance(n, ast.Call) and _src(n.func) == "self._write_buffer.advance", lambda n: ast.Call(func=n.func, args=[ast.Name(id="size", ctx=ast.Load())], keywords=[]))), "C12.send-pair"),
    ("done index not advanced", _in(B + "._handle_write", remove_stmts(lambda st: isinstance(st, ast.AugAssign) and "_total_write_done_index" in _src(st.target))), "C12.send-pair"),
    ("futures resolved without comparing the index", _in(B + "._handle_write", remove_stmts(lambda st: isinstance(st, ast.If) and "_total_write_done_index" in _src(st.test))), "C12.future-fifo"),
    ("futures resolved one byte early (index > done + 1)", _in(B + "._handle_write", replace_expr(lambda n: isinstance(n, ast.Compare) and "_total_write_done_index" in _src(n) and isinstance(n.ops[0], ast.Gt), lambda n: ast.Compare(left=n.left, ops=[ast.Gt()], comparators=[ast.BinOp(left=n.comparators[0], op=ast.Add(), right=ast.Constant(value=1))]))), "C12.future-fifo"),
    ("futures popped from the tail", _in(B + "._handle_write", replace_expr(lambda n: isinstance(n, ast.Attribute) and n.attr == "popleft", lambda n: ast.Attribute(value=n.value, attr="pop", ctx=ast.Load()))), "C12.future-fifo"),
    ("resolve loop examines the newest future", _in(B + "._handle_write", replace_expr(lambda n: isinstance(n, ast.Subscript) and _src(n.value) == "self._write_futures", lambda n: ast.Subscript(value=n.value, slice=ast.UnaryOp(op=ast.USub(), operand=ast.Constant(value=1)), ctx=ast.Load()))), "C12.future-fifo"),
    ("_StreamBuffer.advance pops the newest chunk", _in(SB + ".advance", replace_expr(lambda n: isinstance(n, ast.Attribute) and n.attr == "popleft", lambda n: ast.Attribute(value=n.value, attr="pop", ctx=ast.Load()))), "C12.buffer-fifo"),
    ("_StreamBuffer.append coalesces into the oldest chunk", _in(SB + ".append", replace_expr(lambda n: isinstance(n, ast.Subscript) and _src(n.value) == "self._buffers", lambda n: ast.Subscript(value=n.value, slice=ast.Constant(value=0), ctx=ast.Load()))), "C12.buffer-fifo"),
    ("small chunks stored by reference (coalescing rebinds a local, data lost)", _in(SB + ".append", replace_expr(lambda n: isinstance(n, ast.Call) and _src(n.func) == "bytearray", lambda n: n.args[0])), "C12.buffer-kinds"),
    ("coalescing into a memoryview chunk", _in(SB + ".append", replace_expr(lambda n: isinstance(n, ast.BoolOp) and isinstance(n.op, ast.Or) and "is_memview" in _src(n), lambda n: n.values[1])), "C12.buffer-kinds"),
    ("len(_StreamBuffer) counts chunks instead of bytes", _in(SB + ".__len__", replace_stmt(lambda st: isinstance(st, ast.Return), lambda st: [parse_stmt("return len(self._buffers)")])), "C12.buffer-size"),
    ("one-byte writes are dropped (elif size > 1)", _in(SB + ".append", replace_expr(lambda n: isinstance(n, ast.Compare) and _src(n) == "size > 0", lambda n: parse_expr("size > 1"))), "C12.buffer-size"),
    ("seeded C12-adv4: append() compacts the LAST chunk with the head offset _first_pos", _in(SB + ".append", replace_stmt(lambda st: isinstance(st, ast.AugAssign) and _src(st) == "b += data", lambda st: ast.parse("if self._first_pos:\n    del b[:self._first_pos]\n    self._first_pos = 0").body + [st])), "C12.buffer-pos"),
    ("_size only updated for large chunks", _in(SB + ".append", _size_only_large), "C12.buffer-size"),
    ("advance accepts size 0 / beyond the buffer", _in(SB + ".advance", replace_expr(lambda n: isinstance(n, ast.Compare) and len(n.ops) == 2, lambda n: ast.Compare(left=n.left, ops=[ast.LtE()], comparators=[n.comparators[0]]))), "C12.buffer-size"),
    ("peek ignores the head position", _in(SB + ".peek", replace_stmt(lambda st: isinstance(st, ast.Assign) and _src(st.value) == "self._first_pos", lambda st: [parse_stmt("pos = 0")])), "C12.buffer-pos"),
    ("advance resets pos before using it", _in(SB + ".advance", _swap_stmts(lambda s: isinstance(s, ast.AugAssign) and _src(s.target) == "size" and "len(b)" in _src(s.value), lambda s: isinstance(s, ast.Assign) and _src(s) == "pos = 0")), "C12.buffer-pos"),
    ("advance forgets to store the position", _in(SB + ".advance", remove_stmts(lambda st: isinstance(st, ast.Assign) and _src(st.targets[0]) == "self._first_pos")), "C12.buffer-pos"),
]
