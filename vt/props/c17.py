"""C17 — WebSocket handshakes accept exactly the valid, permitted upgrades.

Decided statically (DESIGN.md §4 C17):

* *gate* (must-pass-through by edge removal on the CFG of ``WebSocketHandler.get``):
  ``accept_connection`` is reachable only through the passing edge of the Upgrade
  test (equality with "websocket" after lower()), the Connection token test
  (comma-split, stripped, lower-cased tokens), the origin test (origin absent or
  ``check_origin(origin)`` true, origin taken from the Origin header) and a
  supported protocol version; ``_accept_connection`` only after
  ``_handle_websocket_headers`` (Host, key, version present) returned normally;
* *accept value*: SHA-1 over key then the RFC 6455 GUID, base64; the server answers
  101 with it; the client compares the received value with
  ``compute_accept_value(its own key)`` by equality and rejects otherwise;
* *default origin check*: lower-cased netloc of the Origin URL equals the Host
  header (equality, netloc = host and port);
* *extensions*: the server answers permessage-deflate only inside the branch
  "offered and compression enabled"; the client accepts only that extension and
  only when it offered it; unknown parameters are refused on both sides;
* *client-side validation is real*: no ``assert`` decides on response headers and
  the selected subprotocol is checked against the offered ones.

Not decided: header combinatorics at run time (HTTPHeaders semantics, urlparse),
the application's select_subprotocol/check_origin overrides.
"""
from __future__ import annotations

import ast

from .. import q
from ..cfg import must_facts, canon_fact, holds
from .. import x_ws as X
from ..model import AnalysisError
from .. import x_wsnorm as NORM
from ..rules import require_before, node_calls, event_facts
from ..mutate import mutate, remove_stmts, replace_expr, replace_stmt, parse_stmt, parse_expr

TECHNIQUE = "must-pass-through by edge removal on the CFG, constant/table agreement for the accept computation, expression provenance for the origin comparison, assert-on-peer-data lint"
EXPLANATION = (
    "Each handshake precondition is located by what it tests (header name constant, comparison constant, callee) and the accepting call must become "
    "unreachable once the passing edge of that test is removed from the CFG. The accept computation is read as a sequence of hash updates; server "
    "use and client comparison are tied to the same function. The default origin check is inlined to one comparison expression. Extension branches "
    "are checked by the same edge-removal argument; client-side validation statements are classified (assert vs raise)."
)
NOT_DECIDED = "run-time header combinatorics (multi-valued headers, urlparse corner cases, userinfo in Origin), application overrides of check_origin/select_subprotocol, HTTP-level status line formatting"

W = "tornado/websocket.py"
P13 = "WebSocketProtocol13"
GUID = b"258EAFA5-E914-47DA-95CA-C5AB0DC85B11"


def _reachable_without(cfg, removed):
    """Node ids reachable from entry when the (node id, edge kind) pairs in ``removed`` are cut."""
    seen = {cfg.entry.id}
    st = [cfg.entry.id]
    while st:
        x = st.pop()
        for y, k in cfg.succ[x]:
            if (x, k) in removed:
                continue
            if y not in seen:
                seen.add(y)
                st.append(y)
    return seen


def _only_via(cfg, target, edges) -> bool:
    return target.id not in _reachable_without(cfg, set(edges))


def _edges_where(tests, text, pol):
    """(test id, edge kind) pairs on which the canonical condition ``text`` has truth value ``pol``."""
    out = []
    for t in tests:
        ct, cp = canon_fact(t.ast, True)
        if ct == text:
            out.append((t.id, "true" if cp == pol else "false"))
    return out


def _hdr_get(e, name):
    """``e`` is ``<x>.get("<name>"[, default])`` (header names compare case-insensitively)."""
    return isinstance(e, ast.Call) and isinstance(e.func, ast.Attribute) and e.func.attr == "get" and e.args and isinstance(e.args[0], ast.Constant) and isinstance(e.args[0].value, str) and e.args[0].value.lower() == name.lower()


def _hdr_read(e, name):
    """``<x>.get("<name>"...)`` or ``<x>["<name>"]``"""
    if _hdr_get(e, name):
        return True
    return isinstance(e, ast.Subscript) and isinstance(e.slice, ast.Constant) and isinstance(e.slice.value, str) and e.slice.value.lower() == name.lower()


def _mentions_hdr(e, name):
    return any(isinstance(x, ast.Constant) and isinstance(x.value, str) and x.value.lower() == name.lower() for x in ast.walk(e))


def rule_gate(ck):
    R = "C17.gate"
    g = ck.func(W, "WebSocketHandler.get")
    cfg = g.cfg
    acc = cfg.find(lambda x: isinstance(x, ast.Call) and isinstance(x.func, ast.Attribute) and x.func.attr == "accept_connection")
    ck.floor(R, len(acc), 1, "accept_connection call in WebSocketHandler.get")
    tests = cfg.stmt_nodes(lambda n: n.kind == "test")
    for anode, acall in acc:
        # --- Upgrade
        up_names = {t_.id for st_ in q.walk_body(g.node) if isinstance(st_, ast.Assign) and any(_hdr_get(x, "Upgrade") for x in ast.walk(st_.value)) for t_ in st_.targets if isinstance(t_, ast.Name)}

        def about_upgrade(e):
            return any(_hdr_get(x, "Upgrade") or (isinstance(x, ast.Name) and x.id in up_names) for x in ast.walk(e))

        ups = [t for t in tests if isinstance(t.ast, ast.Compare) and about_upgrade(t.ast)]
        if not ups:
            ck.ob(R, g, acall, False, "accept_connection is reached only after the Upgrade header was tested")
        for t in ups:
            cp = q.compare_parts(t.ast)
            if cp is None or not isinstance(cp[1], (ast.Eq, ast.NotEq)):
                ck.ob(R, g, t.ast, False, "the Upgrade header is compared with 'websocket' by (in)equality, not containment/prefix")
                continue
            l, op, r = cp
            if isinstance(l, ast.Constant):
                l, r = r, l
            # the compared value: <header value>.lower(), possibly through single-assignment locals
            for _ in range(4):
                if isinstance(l, ast.Name) and len(q.stores_to(g.node, l.id)) == 1:
                    l = q.stores_to(g.node, l.id)[0].value
            lowered = isinstance(l, ast.Call) and isinstance(l.func, ast.Attribute) and l.func.attr in ("lower", "casefold")
            base = l.func.value if lowered else None
            for _ in range(4):
                if isinstance(base, ast.Name) and len(q.stores_to(g.node, base.id)) == 1:
                    base = q.stores_to(g.node, base.id)[0].value
            if not (isinstance(r, ast.Constant) and lowered and _hdr_get(base, "Upgrade")):
                raise AnalysisError("WebSocketHandler.get: unrecognised Upgrade test %s" % q.unparse(t.ast))
            ck.ob(R, g, t.ast, r.value == "websocket", "the lower-cased Upgrade header is compared with the constant 'websocket'")
            good = "true" if isinstance(op, ast.Eq) else "false"
            ck.ob(R, g, t.ast, _only_via(cfg, anode, [(t.id, good)]), "accept_connection is reachable only through the passing edge of the Upgrade test")
        # --- Connection
        cons = [t for t in tests if isinstance(t.ast, ast.Compare) and len(t.ast.ops) == 1 and isinstance(t.ast.ops[0], (ast.In, ast.NotIn)) and isinstance(t.ast.left, ast.Constant) and isinstance(t.ast.left.value, str) and t.ast.left.value.lower() == "upgrade"]
        if not cons:
            ck.ob(R, g, acall, False, "accept_connection is reached only after the Connection header tokens were tested for 'upgrade'")
        for t in cons:
            cont = t.ast.comparators[0]
            src = cont
            if isinstance(cont, ast.Name):
                st = q.stores_to(g.node, cont.id)
                if len(st) != 1:
                    raise AnalysisError("WebSocketHandler.get: token container %s assigned %d times" % (cont.id, len(st)))
                src = st[0].value
            src = _resolve_names(g, src)
            ck.ob(R, g, t.ast, t.ast.left.value == "upgrade" and _token_list(src, "Connection"), "'upgrade' is looked up among the comma-separated, stripped, lower-cased tokens of the Connection header")
            good = "true" if isinstance(t.ast.ops[0], ast.In) else "false"
            ck.ob(R, g, t.ast, _only_via(cfg, anode, [(t.id, good)]), "accept_connection is reachable only through the passing edge of the Connection test")
        # --- Origin (path-sensitive: the verdict may travel through a local)
        co_calls = cfg.find(lambda x: q.is_call(x, "self.check_origin"))
        if not co_calls:
            ck.ob(R, g, acall, False, "accept_connection is reached only after check_origin() was consulted")
        for t, cocall in co_calls[:1]:
            arg = q.dotted(cocall.args[0]) if cocall.args else None

            def ut(n, u, env):
                none, co, tagged = u
                if n.kind == "stmt" and isinstance(n.ast, (ast.Assign, ast.AnnAssign)) and n.ast.value is not None:
                    tg = [q.dotted(x) for x in (n.ast.targets if isinstance(n.ast, ast.Assign) else [n.ast.target])]
                    if q.is_call(n.ast.value, "self.check_origin"):
                        tagged = tuple(sorted(set(tagged) | {x for x in tg if x}))
                    else:
                        tagged = tuple(x for x in tagged if x not in tg)
                        if arg in tg:
                            none = None
                return (none, co, tagged)

            def ue(n, kind, u, env):
                none, co, tagged = u
                if n.kind == "test" and kind in ("true", "false"):
                    txt, pol = canon_fact(n.ast, kind == "true")
                    if txt == "%s is None" % arg:
                        none = pol
                    elif txt == arg:
                        none = False if pol else none
                    elif q.is_call(n.ast, "self.check_origin") or txt in tagged:
                        co = pol
                return (none, co, tagged)

            seen = X.explore_consts(cfg, {}, uinit=(None, None, ()), utransfer=ut, uedge=ue, track=lambda tx: tx.isidentifier() or tx.endswith(" is None"))
            sts = [u for _e, u in X.states_at(seen, anode)]
            bad = [u for u in sts if not (u[0] is True or u[1] is True)]
            ck.ob(R, g, cocall, bool(sts) and not bad, "accept_connection is reachable only when no origin was sent or check_origin(origin) returned true")
            # which value reaches check_origin: decided by abstract interpretation of get() for each header situation
            from ..x_absint import Evaluator, HeaderMap, Obj, UNK

            situations = [
                ("Origin present", {"Origin": "http://a.example"}, "http://a.example"),
                ("Origin present but empty", {"Origin": ""}, ""),
                ("Origin and legacy header present", {"Origin": "http://a.example", "Sec-Websocket-Origin": "http://b.example"}, "http://a.example"),
                ("only Sec-Websocket-Origin present", {"Sec-Websocket-Origin": "http://b.example"}, "http://b.example"),
                ("no origin header", {}, None),
            ]
            for label, hdrs, want in situations:
                d = {"Upgrade": "websocket", "Connection": "Upgrade", "Host": "a.example", "Sec-WebSocket-Version": "13", "Sec-WebSocket-Key": "x"}
                d.update(hdrs)
                env = {"self": Obj("self", request=Obj("request", headers=HeaderMap(d))), "args": (), "kwargs": {}}
                outs = Evaluator(max_paths=400).run(g.node, env)
                verdicts = set()
                for o in outs:
                    names = [e_[0] for e_ in o.state.events]
                    acc_i = [k for k, nm in enumerate(names) if nm.endswith(".accept_connection")]
                    if not acc_i:
                        continue
                    checks = [e_[1] for e_ in o.state.events[: acc_i[0]] if e_[0] == "self.check_origin"]
                    if any(a_ and a_[0] is UNK for a_ in checks):
                        raise AnalysisError("WebSocketHandler.get: the argument of check_origin is not determined for the situation %r" % label)
                    verdicts.add(tuple(a_[0] if a_ else None for a_ in checks))
                if not verdicts:
                    raise AnalysisError("WebSocketHandler.get: accept_connection is not reached in the abstract interpretation (%s)" % label)
                if want is None:
                    ok = all(len(v) == 0 or all(x is None for x in v) for v in verdicts)
                else:
                    ok = all(len(v) >= 1 and all(x == want for x in v) for v in verdicts)
                ck.ob(R, g, cocall, ok, "%s: every path that accepts has consulted check_origin with %r first (seen %s)" % (label, want, sorted(map(repr, verdicts))), construct="origin provenance [%s]: %s" % (label, "ok" if ok else sorted(map(repr, verdicts))))
        # --- version / protocol object
        recv = q.dotted(acall.func.value)
        vedges = _edges_where(tests, recv, True) + _edges_where(tests, "%s is None" % recv, False)
        ck.ob(R, g, acall, bool(vedges) and _only_via(cfg, anode, vedges), "accept_connection is reachable only when get_websocket_protocol() returned a protocol object (supported version)")
        sts = q.stores_to(g.node, recv)
        ck.ob(R, g, acall, len(sts) >= 1 and all(q.is_call(s.value, "self.get_websocket_protocol") for s in sts), "the protocol object comes from get_websocket_protocol() (version check)")
    # version table: get_websocket_protocol evaluated for concrete Sec-WebSocket-Version values
    from ..x_absint import Evaluator, HeaderMap, Obj, UNK

    gp = ck.func(W, "WebSocketHandler.get_websocket_protocol")
    supported, bad = [], []
    for ver in ("13", "8", "7", "0", "6", "9", "12", "14", "1", "3", "", "13.0", " 13", "+13", "1_3", "713", None):
        d = {"Upgrade": "websocket"}
        if ver is not None:
            d["Sec-WebSocket-Version"] = ver
        def _int(st_, *a):
            # int() of a header text: modelled exactly (it accepts surrounding blanks, a sign, underscores)
            from ..x_absint import Raised
            if len(a) == 1 and isinstance(a[0], str):
                try:
                    return int(a[0])
                except ValueError:
                    raise Raised("ValueError")
            return UNK

        outs = Evaluator(funcs={"int": _int}, max_paths=200).run(gp.node, {"self": Obj("self", request=Obj("request", headers=HeaderMap(d)))})
        kinds = set()
        for o in outs:
            if o.kind == "raise":
                kinds.add("raise")
            else:
                kinds.add("none" if o.value is None else "protocol")
        if len(kinds) != 1 or "raise" in kinds:
            raise AnalysisError("get_websocket_protocol: the result for Sec-WebSocket-Version %r is not determined by the abstract interpretation (%s)" % (ver, sorted(kinds)))
        if kinds == {"protocol"}:
            supported.append(ver)
    ok = "13" in supported and set(supported) <= {"7", "8", "13"}
    ck.ob(R, gp, gp.node, ok, "a protocol object is returned for Sec-WebSocket-Version 13 and for nothing beyond 7/8/13 (17 header values tried; supported: %s)" % supported, construct="supported versions %s" % supported)


def _resolve_names(fi, e, depth=4):
    """``e`` with local names that are bound exactly once in ``fi`` replaced by their defining expression."""
    import copy

    class T(ast.NodeTransformer):
        def visit_Name(self, node):
            if isinstance(node.ctx, ast.Load):
                sts = q.stores_to(fi.node, node.id)
                if len(sts) == 1 and getattr(sts[0], "value", None) is not None and isinstance(sts[0], (ast.Assign, ast.AnnAssign)) and node.id not in fi.params():
                    return copy.deepcopy(sts[0].value)
            return node

    e = copy.deepcopy(e)
    for _ in range(depth):
        new = T().visit(copy.deepcopy(e))
        if ast.dump(new) == ast.dump(e):
            break
        e = new
    return e


def _token_list(e, header) -> bool:
    """``e`` builds the element-wise stripped+lowered tokens of ``<h>.get(header).split(",")``."""
    split = [c for c in ast.walk(e) if isinstance(c, ast.Call) and isinstance(c.func, ast.Attribute) and c.func.attr == "split" and c.args and q.is_const(c.args[0], ",") and _hdr_get(c.func.value, header)]
    if len(split) != 1:
        return False
    elementwise = None
    if q.is_call(e, "map") and len(e.args) == 2 and isinstance(e.args[0], ast.Lambda) and e.args[1] is split[0]:
        lam = e.args[0]
        elementwise = (lam.args.args[0].arg, lam.body)
    elif isinstance(e, (ast.ListComp, ast.SetComp, ast.GeneratorExp)) and len(e.generators) == 1 and e.generators[0].iter is split[0] and isinstance(e.generators[0].target, ast.Name) and not e.generators[0].ifs:
        elementwise = (e.generators[0].target.id, e.elt)
    elif isinstance(e, ast.Call) and q.call_name(e) in ("list", "set", "tuple", "frozenset") and len(e.args) == 1:
        return _token_list(e.args[0], header)
    if elementwise is None:
        return False
    var, body = elementwise
    # body is var with .strip() and .lower() applied (any order), nothing else
    meths = []
    x = body
    while isinstance(x, ast.Call) and isinstance(x.func, ast.Attribute) and not x.args and not x.keywords:
        meths.append(x.func.attr)
        x = x.func.value
    return isinstance(x, ast.Name) and x.id == var and sorted(meths) == ["lower", "strip"]


def rule_required(ck):
    R = "C17.required-headers"
    ac = ck.func(W, P13 + ".accept_connection")
    hp = [p for p in ac.params() if p != "self"][0]
    n = require_before(ck, R, ac, node_calls("self._accept_connection"), node_calls("self._handle_websocket_headers"), "_accept_connection runs only after _handle_websocket_headers returned normally")
    ck.floor(R, n, 1, "_accept_connection calls")
    pm = q.parent_map(ac.node)
    for c in q.find_calls(ac.node, "self._handle_websocket_headers"):
        h = q.protected_by(pm, c, "ValueError")
        ok = h is not None and any(isinstance(st, ast.Return) for st in h.body) and any(q.is_call(x, hp + ".set_status") and x.args and q.is_const(x.args[0], 400) for st in h.body for x in ast.walk(st))
        ck.ob(R, ac, c, ok, "a ValueError from the header check answers 400 and returns without accepting")
        if h is not None:
            ck.ob(R, ac, h, not any(q.is_call(x, "self._accept_connection") for st in h.body for x in ast.walk(st)), "the rejecting handler does not accept")
    hw = ck.func(W, P13 + "._handle_websocket_headers")
    # decided by abstract interpretation of the function for every presence pattern of the three headers
    from ..x_absint import Evaluator, HeaderMap, Obj
    import itertools

    hparam = [p for p in hw.params() if p != "self"][0]
    need = ("Host", "Sec-WebSocket-Key", "Sec-WebSocket-Version")
    bad = []
    n_cases = 0
    for combo in itertools.product((None, "", "v"), repeat=3):
        d = {k: v for k, v in zip(need, combo) if v is not None}
        d["Upgrade"] = "websocket"
        env = {"self": Obj("self"), hparam: Obj("handler", request=Obj("request", headers=HeaderMap(d)))}
        outs = Evaluator().run(hw.node, env)
        kinds = {(o.kind, o.value if o.kind == "raise" else None) for o in outs}
        n_cases += 1
        want_raise = any(v in (None, "") for v in combo)
        if len(kinds) != 1:
            raise AnalysisError("_handle_websocket_headers: outcome for header pattern %r is not determined by the abstract interpretation (%s)" % (combo, sorted(map(repr, kinds))))
        (kind_, val_), = kinds
        ok = (kind_ == "raise" and val_ == "ValueError") if want_raise else (kind_ in ("fall", "return"))
        if not ok:
            bad.append((combo, kind_, val_))
    ck.ob(R, hw, hw.node, not bad, "all %d presence patterns (absent / empty / set) of Host, Sec-WebSocket-Key, Sec-WebSocket-Version: ValueError exactly when one is missing or empty%s" % (n_cases, (" - e.g. %r -> %s %s" % bad[0]) if bad else ""),
          construct="required headers: %s" % ("ok" if not bad else "pattern %r -> %s" % (bad[0][0], bad[0][1])))


def rule_accept_value(ck):
    R = "C17.accept-value"
    cv = ck.func(W, P13 + ".compute_accept_value")
    kp = cv.params()[0]
    body = [st for st in cv.node.body if not (isinstance(st, ast.Expr) and isinstance(st.value, ast.Constant))]
    if any(isinstance(st, (ast.If, ast.For, ast.While, ast.Try, ast.With)) for st in body):
        raise AnalysisError("compute_accept_value is no longer straight-line code")
    mod = ck.repo.module(W)

    def res(e, depth=0):
        """follow local single assignments and module-level constants"""
        while isinstance(e, ast.Name) and depth < 6:
            depth += 1
            sts = q.stores_to(cv.node, e.id)
            if len(sts) == 1 and getattr(sts[0], "value", None) is not None and e.id != kp:
                e = sts[0].value
            elif not sts and e.id in mod.assigns:
                e = mod.assigns[e.id]
            else:
                break
        return e

    hobj = None
    sha_calls = [c for st in body for c in q.calls(st) if q.is_call(c, "hashlib.sha1")]
    fed = []
    for c in sha_calls:
        if c.args:
            fed.append(c.args[0])
    for st in body:
        if isinstance(st, (ast.Assign, ast.AnnAssign)) and getattr(st, "value", None) is not None and q.is_call(st.value, "hashlib.sha1"):
            tgt = q.assigned_paths(st)
            hobj = next(iter(tgt)) if tgt else None
    for st in body:
        for c in q.calls(st):
            if isinstance(c.func, ast.Attribute) and c.func.attr == "update" and hobj and q.dotted(c.func.value) == hobj and c.args:
                fed.append(c.args[0])
    ck.ob(R, cv, cv.node, len(sha_calls) == 1, "the accept value is a SHA-1 (hashlib.sha1)", construct="sha1 used: %s" % (len(sha_calls) == 1))
    parts = []
    for a in fed:
        for p_ in _concat_parts(res(a)):
            parts.append(res(p_))

    def is_key(e):
        if isinstance(e, ast.Name) and e.id == kp:
            return True
        return isinstance(e, ast.Call) and q.call_attr(e) in ("utf8", "bytes") and e.args and isinstance(e.args[0], ast.Name) and e.args[0].id == kp

    if not all(is_key(p_) or isinstance(p_, ast.Constant) for p_ in parts) or not parts:
        raise AnalysisError("compute_accept_value: the hash input %s is not made of the key and constants only" % [q.unparse(p_) for p_ in parts])
    ck.ob(R, cv, cv.node, len(parts) == 2 and is_key(parts[0]) and isinstance(parts[1], ast.Constant), "the hash is fed the key first and then one constant (got %s)" % [q.unparse(p) for p in parts], construct="hash input %s" % [q.unparse(p) if not isinstance(p, ast.Constant) else "<const>" for p in parts])
    consts = [p for p in parts if isinstance(p, ast.Constant)]
    for c in consts:
        v = c.value.encode("ascii") if isinstance(c.value, str) else c.value
        ck.ob(R, cv, cv.node, v == GUID, "the constant is the RFC 6455 GUID 258EAFA5-E914-47DA-95CA-C5AB0DC85B11", construct="GUID constant: %s" % (v == GUID))
    rets = [st for st in body if isinstance(st, ast.Return)]
    okr = False
    for r in rets:
        b64 = [c for c in ast.walk(res(r.value) if r.value is not None else r) if q.is_call(c, "base64.b64encode")]
        if len(b64) == 1 and len(b64[0].args) == 1:
            dg = res(b64[0].args[0])
            if isinstance(dg, ast.Call) and isinstance(dg.func, ast.Attribute) and dg.func.attr == "digest" and not dg.args:
                recv = dg.func.value
                okr = (hobj is not None and q.dotted(recv) == hobj) or (len(sha_calls) == 1 and recv is sha_calls[0])
    ck.ob(R, cv, cv.node, okr, "the result is the base64 encoding of the binary digest", construct="b64(digest): %s" % okr)
    # server side: the Sec-WebSocket-Accept header is compute_accept_value(<request's Sec-WebSocket-Key>), computed in
    # _accept_connection itself or in the helper it delegates to (_challenge_response)
    ac = ck.func(W, P13 + "._accept_connection")
    hp = [p for p in ac.params() if p != "self"][0]
    seth = [c for c in q.calls(ac.node) if q.is_call(c, hp + ".set_header") and c.args and isinstance(c.args[0], ast.Constant)]
    acc = [c for c in seth if c.args[0].value.lower() == "sec-websocket-accept"]
    ck.ob(R, ac, ac.node, len(acc) == 1 and len(acc[0].args) == 2, "the 101 response carries exactly one Sec-WebSocket-Accept header", construct="accept header set: %d" % len(acc))
    for a_ in acc:
        if len(a_.args) != 2:
            continue
        v = _resolve_names(ac, a_.args[1])
        where = ac
        if q.is_call(v, "self._challenge_response") and ck.repo.has_func(W, P13 + "._challenge_response"):
            where = ck.func(W, P13 + "._challenge_response")
            cs = [c for c in q.calls(where.node) if q.call_attr(c) == "compute_accept_value"]
        else:
            cs = [c for c in ast.walk(v) if isinstance(c, ast.Call) and q.call_attr(c) == "compute_accept_value"]
        if not cs:
            raise AnalysisError("_accept_connection: the value of the Sec-WebSocket-Accept header (%s) is not a recognised call of compute_accept_value" % q.unparse(a_.args[1])[:60])
        for c in cs:
            ck.ob(R, where, c, len(c.args) == 1 and any(_hdr_get(x, "Sec-WebSocket-Key") for x in ast.walk(c.args[0])), "the server computes the accept value from the request's Sec-WebSocket-Key")
    st101 = [c for c in q.calls(ac.node) if q.is_call(c, hp + ".set_status") and c.args and q.is_const(c.args[0], 101)]
    ck.ob(R, ac, ac.node, len(st101) == 1, "the handshake is completed with status 101", construct="status 101: %d" % len(st101))
    hv = {c.args[0].value.lower(): c.args[1] for c in seth if len(c.args) == 2}
    ck.ob(R, ac, ac.node, isinstance(hv.get("upgrade"), ast.Constant) and str(hv["upgrade"].value).lower() == "websocket" and isinstance(hv.get("connection"), ast.Constant) and str(hv["connection"].value).lower() == "upgrade", "the response carries Upgrade: websocket and Connection: Upgrade", construct="upgrade/connection headers")
    # client side
    ps = ck.func(W, P13 + "._process_server_headers")
    kparam, hparam = [p for p in ps.params() if p != "self"][:2]
    cmps = []
    for x in q.walk_body(ps.node):
        if isinstance(x, ast.Compare) and any(isinstance(y, ast.Constant) and isinstance(y.value, str) and y.value.lower() == "sec-websocket-accept" for y in ast.walk(x)):
            cmps.append(x)
    ck.ob(R, ps, ps.node, len(cmps) >= 1, "the client looks at the Sec-WebSocket-Accept response header", construct="accept compared: %d" % len(cmps))
    for x in cmps:
        other = x.comparators[0] if any(isinstance(y, ast.Constant) for y in ast.walk(x.left)) else x.left
        ok_src = False
        if q.call_attr(other) == "compute_accept_value" if isinstance(other, ast.Call) else False:
            ok_src = len(other.args) == 1 and q.dotted(other.args[0]) == kparam
        elif isinstance(other, ast.Name):
            sts = q.stores_to(ps.node, other.id)
            ok_src = len(sts) == 1 and isinstance(sts[0].value, ast.Call) and q.call_attr(sts[0].value) == "compute_accept_value" and len(sts[0].value.args) == 1 and q.dotted(sts[0].value.args[0]) == kparam
        ck.ob(R, ps, x, len(x.ops) == 1 and isinstance(x.ops[0], (ast.Eq, ast.NotEq)) and ok_src, "the received accept value is compared by (in)equality with compute_accept_value(<the client's key>)")
    hr = ck.func(W, "WebSocketClientConnection.headers_received")
    for c in [c for c in q.calls(hr.node) if q.call_attr(c) == "_process_server_headers"]:
        ck.ob(R, hr, c, len(c.args) >= 1 and q.dotted(c.args[0]) == "self.key", "the client validates the response against the key it sent (self.key)")
    # the client treats only a 101 response as a completed handshake
    hcfg = hr.cfg
    pnodes = [n for n, c in hcfg.find(lambda x: isinstance(x, ast.Call) and q.call_attr(x) == "_process_server_headers")]
    sl = [p_ for p_ in hr.params() if p_ != "self"][0]
    stests = [t for t in hcfg.stmt_nodes(lambda n: n.kind == "test") if (sl + ".code") in q.paths_in(t.ast)]
    ck.ob(R, hr, hr.node, bool(stests), "the client looks at the status code of the response before processing it as a handshake", construct="status tests: %d" % len(stests))
    for t in stests:
        codes = [100, 101, 102, 200, 204, 301, 400, 426, 500]
        try:
            passing = {c_ for c_ in codes if bool(q.fold(t.ast, {sl + ".code": c_}))}
        except q.NotFoldable:
            raise AnalysisError("headers_received: status test %s does not fold" % q.unparse(t.ast))
        for pn in pnodes:
            via_true = _only_via(hcfg, pn, [(t.id, "true")])
            via_false = _only_via(hcfg, pn, [(t.id, "false")])
            okc = (via_true and passing == {101}) or (via_false and set(codes) - passing == {101})
            ck.ob(R, hr, t.ast, okc, "the handshake response is processed only for status 101 (codes passing the test: %s)" % sorted(passing))
    ci = ck.func(W, "WebSocketClientConnection.__init__")
    keyst = q.stores_to(ci.node, "self.key")
    okk = len(keyst) == 1 and q.is_call(keyst[0].value, "base64.b64encode") and keyst[0].value.args and q.is_call(keyst[0].value.args[0], "os.urandom") and q.is_const(keyst[0].value.args[0].args[0], 16)
    ck.ob(R, ci, ci.node, bool(okk), "the client key is base64 of 16 fresh random bytes", construct="client key: %s" % bool(okk))
    sent = False
    for x in q.walk_body(ci.node):
        if isinstance(x, ast.Dict):
            for k, v in zip(x.keys, x.values):
                if isinstance(k, ast.Constant) and str(k.value).lower() == "sec-websocket-key" and any(q.dotted(y) == "self.key" for y in ast.walk(v)):
                    sent = True
    ck.ob(R, ci, ci.node, sent, "the same key is sent as Sec-WebSocket-Key", construct="key sent: %s" % sent)


def _concat_parts(e):
    if isinstance(e, ast.BinOp) and isinstance(e.op, ast.Add):
        return _concat_parts(e.left) + _concat_parts(e.right)
    return [e]


def _inline(fi, e, depth=0):
    """Replace local names in ``e`` by the expression last assigned to them (straight-line functions only)."""
    if depth > 12:
        raise AnalysisError("%s: cyclic definitions" % fi.qualname)
    body = [st for st in fi.node.body if not (isinstance(st, ast.Expr) and isinstance(st.value, ast.Constant))]
    if any(not isinstance(st, (ast.Assign, ast.AnnAssign, ast.Return, ast.Expr)) for st in body):
        raise AnalysisError("%s is no longer straight-line code (origin comparison cannot be inlined)" % fi.qualname)
    return body


def _resolve_straightline(fi):
    """Returns the function's return expression with every local name replaced by its definition at that point."""
    body = _inline(fi, None)
    env = {}

    class Sub(ast.NodeTransformer):
        def visit_Name(self, node):
            if isinstance(node.ctx, ast.Load) and node.id in env:
                return env[node.id]
            return node

    import copy

    ret = None
    for st in body:
        if isinstance(st, (ast.Assign, ast.AnnAssign)) and st.value is not None:
            v = Sub().visit(copy.deepcopy(st.value))
            tg = st.targets if isinstance(st, ast.Assign) else [st.target]
            for t in tg:
                if isinstance(t, ast.Name):
                    env[t.id] = v
                else:
                    raise AnalysisError("%s: unexpected assignment target" % fi.qualname)
        elif isinstance(st, ast.Return):
            ret = Sub().visit(copy.deepcopy(st.value)) if st.value is not None else None
            break
    if ret is None:
        raise AnalysisError("%s has no return value" % fi.qualname)
    return ret


# models of the two pure helpers the default origin check may use (written from their documentation:
# urllib.parse.urlsplit netloc extraction; httputil.split_host_and_port = rightmost ":<digits>")
def _model_urlparse(st, url, *rest):
    from ..x_absint import Obj, UNK

    if not isinstance(url, str):
        return UNK
    scheme, sep, rest_ = url.partition("://")
    if not sep:
        scheme, rest_ = "", url
        netloc = ""
    else:
        cut = len(rest_)
        for ch in "/?#":
            k = rest_.find(ch)
            if k != -1:
                cut = min(cut, k)
        netloc = rest_[:cut]
    hostport = netloc.rpartition("@")[2]
    host, _c, port = hostport.rpartition(":") if (":" in hostport and hostport.rpartition(":")[2].isdigit()) else (hostport, "", "")
    return Obj("ParseResult", scheme=scheme.lower(), netloc=netloc, hostname=(host.lower() or None), port=(int(port) if port else None))


def _model_split_host_and_port(st, netloc):
    from ..x_absint import UNK

    if not isinstance(netloc, str):
        return UNK
    h, c, p = netloc.rpartition(":")
    if c and h and p.isdigit() and p.isascii():
        return (h, int(p))
    return (netloc, None)


ORIGIN_SAMPLES = [
    ("http://example.com", "example.com", True),
    ("http://example.com:8888", "example.com:8888", True),
    ("https://EXAMPLE.com:8888", "example.com:8888", True),
    ("http://example.com/path?q=1", "example.com", True),
    ("http://example.com", "example.com:8888", False),
    ("http://example.com:8888", "example.com", False),
    ("http://example.com:8889", "example.com:8888", False),
    ("http://example.com:8888", "example.com:88", False),
    ("http://evil.com", "example.com", False),
    ("http://evil.com:8888", "example.com:8888", False),
    ("http://evilexample.com", "example.com", False),
    ("http://example.com.evil.com", "example.com", False),
    ("http://example.co", "example.com", False),
]


def rule_origin(ck):
    """Default check_origin decided by abstract interpretation over a table of (Origin, Host) pairs."""
    R = "C17.origin"
    from ..x_absint import Evaluator, HeaderMap, Obj, UNK

    co = ck.func(W, "WebSocketHandler.check_origin")
    op = [p for p in co.params() if p != "self"][0]
    funcs = {}
    for nm in ("urlparse", "urlsplit", "urllib.parse.urlparse", "urllib.parse.urlsplit"):
        funcs[nm] = _model_urlparse
    for nm in ("httputil.split_host_and_port", "split_host_and_port", "tornado.httputil.split_host_and_port"):
        funcs[nm] = _model_split_host_and_port
    bad = []
    for origin, host, want in ORIGIN_SAMPLES:
        env = {"self": Obj("self", request=Obj("request", headers=HeaderMap({"Host": host, "Origin": origin}), host=host)), op: origin}
        outs = Evaluator(funcs=funcs).run(co.node, env)
        vals = set()
        for o in outs:
            if o.kind != "return" or o.value is UNK or not isinstance(o.value, (bool, type(None), str, int)):
                raise AnalysisError("check_origin: result for Origin %r / Host %r is not determined by the abstract interpretation (%r)" % (origin, host, o))
            vals.add(bool(o.value))
        if vals != {want}:
            bad.append((origin, host, sorted(vals)))
    for origin, host, want in ORIGIN_SAMPLES:
        got = [b for b in bad if b[0] == origin and b[1] == host]
        ck.ob(R, co, co.node, not got, "default check_origin(%r) with Host %r -> %s (host and port of the Origin must equal the Host header)" % (origin, host, want), construct="origin %s vs host %s -> want %s" % (origin, host, want))


def _gate_recognised(fi, tests, name_t, comp_t):
    """No recognised gate is positive evidence only when the function does not test the thing at all; a test in a
    form the analysis cannot read is an analysis error, not a violation."""
    conds = [t.ast for t in tests] + [c for x in q.walk_body(fi.node) if isinstance(x, (ast.GeneratorExp, ast.ListComp)) for g in x.generators for c in g.ifs] \
        + [x.test for x in q.walk_body(fi.node) if isinstance(x, ast.IfExp)]
    if not name_t and any(q.is_const(y, "permessage-deflate") for c in conds for y in ast.walk(c)):
        raise AnalysisError("%s: the test on the extension name is in a form the analysis does not read" % fi.qualname)
    if not comp_t and any(isinstance(y, ast.Attribute) and y.attr == "_compression_options" for c in conds for y in ast.walk(c)):
        raise AnalysisError("%s: the test on compression being enabled/offered is in a form the analysis does not read" % fi.qualname)


def rule_extensions(ck):
    R = "C17.extensions"
    ac = ck.func(W, P13 + "._accept_connection")
    hp = [p for p in ac.params() if p != "self"][0]
    cfg = ac.cfg
    tests = cfg.stmt_nodes(lambda n: n.kind == "test")

    def gate_edges(fi_tests, fnode=None):
        name_t = []
        # `ext = next((e for e in offered if e[0] == "permessage-deflate"), None)`: `ext is not None` is the name test
        if fnode is not None:
            for x in q.walk_body(fnode):
                if isinstance(x, ast.Assign) and len(x.targets) == 1 and isinstance(x.targets[0], ast.Name) and q.is_call(x.value, "next") and len(x.value.args) == 2 \
                        and isinstance(x.value.args[0], ast.GeneratorExp) and isinstance(x.value.args[1], ast.Constant) and x.value.args[1].value is None:
                    g_ = x.value.args[0]
                    if len(g_.generators) == 1 and isinstance(g_.elt, ast.Name) and isinstance(g_.generators[0].target, ast.Name) and g_.elt.id == g_.generators[0].target.id and len(g_.generators[0].ifs) == 1:
                        c_ = g_.generators[0].ifs[0]
                        if isinstance(c_, ast.Compare) and len(c_.ops) == 1 and isinstance(c_.ops[0], ast.Eq) and any(q.is_const(y, "permessage-deflate") for y in (c_.left, c_.comparators[0])):
                            name_t += _edges_where(fi_tests, "%s is None" % x.targets[0].id, False) + _edges_where(fi_tests, x.targets[0].id, True)
        for t in fi_tests:
            ct, cp = canon_fact(t.ast, True)
            try:
                ce = ast.parse(ct, mode="eval").body
            except SyntaxError:
                continue
            if isinstance(ce, ast.Compare) and len(ce.ops) == 1 and isinstance(ce.ops[0], ast.Eq) and any(q.is_const(x, "permessage-deflate") for x in (ce.left, ce.comparators[0])):
                name_t.append((t.id, "true" if cp else "false"))  # the edge on which the name equals permessage-deflate
        comp_t = _edges_where(fi_tests, "self._compression_options is None", False) + _edges_where(fi_tests, "self._compression_options", True)
        return name_t, comp_t

    name_t, comp_t = gate_edges(tests, ac.node)
    _gate_recognised(ac, tests, name_t, comp_t)
    targets = cfg.find(lambda x: (q.is_call(x, hp + ".set_header") and x.args and isinstance(x.args[0], ast.Constant) and str(x.args[0].value).lower() == "sec-websocket-extensions") or q.is_call(x, "self._create_compressors"))
    ck.floor(R, len(targets), 2, "extension response / compressor creation sites in _accept_connection")
    for node, c in targets:
        what = "the Sec-WebSocket-Extensions response header is set" if q.is_call(c, hp + ".set_header") else "compressors are created"
        ck.ob(R, ac, c, bool(name_t) and _only_via(cfg, node, name_t), "server: %s only for an offered extension named permessage-deflate" % what)
        ck.ob(R, ac, c, bool(comp_t) and _only_via(cfg, node, comp_t), "server: %s only when compression is enabled (compression_options is not None)" % what)
        if q.is_call(c, hp + ".set_header"):
            v = c.args[1] if len(c.args) > 1 else None
            ck.ob(R, ac, c, v is not None and q.call_attr(v) == "_encode_header" and v.args and q.is_const(v.args[0], "permessage-deflate"), "server: the response names permessage-deflate")
    # what is announced is what the compressors were built from (same parameter object, server side literal)
    crc = [c for _n, c in targets if q.is_call(c, "self._create_compressors")]
    enc = [c.args[1] for _n, c in targets if q.is_call(c, hp + ".set_header") and len(c.args) > 1 and q.call_attr(c.args[1]) == "_encode_header"]
    for c in crc:
        for e in enc:
            same = len(c.args) >= 2 and len(e.args) >= 2 and q.unparse(c.args[1]) == q.unparse(e.args[1])
            ck.ob(R, ac, c, same, "server: the parameters announced in the response are the agreed parameters the compressors were created from (same object)")
    # the agreed parameter object may only lose a parameter that was offered without a value; no other mutation
    if crc and len(crc[0].args) >= 2:
        ptxt = q.unparse(crc[0].args[1])
        facts = must_facts(cfg)
        for x in q.walk_body(ac.node):
            mut = None
            if isinstance(x, ast.Delete) and any(isinstance(t, ast.Subscript) and q.unparse(t.value) == ptxt for t in x.targets):
                mut = "del"
            elif isinstance(x, (ast.Assign, ast.AugAssign)) and any(isinstance(t, ast.Subscript) and q.unparse(t.value) == ptxt for t in (x.targets if isinstance(x, ast.Assign) else [x.target])):
                mut = "store"
            elif isinstance(x, ast.Call) and isinstance(x.func, ast.Attribute) and q.unparse(x.func.value) == ptxt and x.func.attr in ("pop", "popitem", "update", "clear", "setdefault", "__delitem__", "__setitem__"):
                mut = x.func.attr
            if mut is None:
                continue
            ok = False
            if mut == "del":
                nodes = cfg.stmt_nodes(lambda n: n.ast is x)
                key = q.unparse(x.targets[0].slice)
                ok = bool(nodes) and all(any(pol and txt == "%s[%s] is None" % (ptxt, key) for (txt, pol) in facts[n.id]) for n in nodes)
            ck.ob(R, ac, x, ok, "server: the agreed parameters are not altered between configuring the compressors and announcing them, except for withholding a parameter that was offered without a value")
    # the offer comes from the request header
    offer = [c for c in q.calls(ac.node) if q.is_call(c, "self._parse_extensions_header")]
    ck.ob(R, ac, ac.node, len(offer) == 1 and len(offer[0].args) == 1 and (q.dotted(offer[0].args[0]) or "").endswith("request.headers"), "server: the extension offer is parsed from the request headers", construct="offer from request: %d" % len(offer))
    pe = ck.func(W, P13 + "._parse_extensions_header")
    ck.ob(R, pe, pe.node, any(_hdr_get(x, "Sec-WebSocket-Extensions") for x in q.walk_body(pe.node)), "extensions are read from Sec-WebSocket-Extensions", construct="header name")
    # client
    ps = ck.func(W, P13 + "._process_server_headers")
    pcfg = ps.cfg
    ptests = pcfg.stmt_nodes(lambda n: n.kind == "test")
    name_t, comp_t = gate_edges(ptests, ps.node)
    _gate_recognised(ps, ptests, name_t, comp_t)
    crs = pcfg.find(lambda x: q.is_call(x, "self._create_compressors"))
    ck.floor(R, len(crs), 1, "compressor creation in _process_server_headers")
    for node, c in crs:
        ck.ob(R, ps, c, bool(name_t) and _only_via(pcfg, node, name_t), "client: compressors are created only for an extension named permessage-deflate")
        ck.ob(R, ps, c, bool(comp_t) and _only_via(pcfg, node, comp_t), "client: permessage-deflate is accepted only if the client offered it (compression_options is not None)")
    # every other extension in the response is refused: in the loop body, a path that does not create compressors raises
    loops = [n for n in pcfg.nodes if n.kind == "for" and n.id in pcfg.reachable()]
    ck.floor(R, len(loops), 1, "loop over the response extensions")
    cr_ids = {n.id for n, _c in crs}
    for lp in loops:
        ok = True
        stack = [(s, False) for s, k in pcfg.succ[lp.id] if k == "true"]
        seen = set()
        while stack:
            nid, created = stack.pop()
            if (nid, created) in seen:
                continue
            seen.add((nid, created))
            if nid in cr_ids:
                created = True
            if nid == lp.id or nid == pcfg.exit.id:
                if not created:
                    ok = False
                continue
            for sid, kind in pcfg.succ[nid]:
                if kind != "exc":
                    stack.append((sid, created))
        ck.ob(R, ps, lp.ast, ok, "client: an extension of the response that is not the offered permessage-deflate ends in an error (never silently accepted)")
    # parameter whitelist: decided by abstract interpretation of _create_compressors for concrete parameter names
    from ..x_absint import Evaluator, Obj, UNK

    crt = ck.func(W, P13 + "._create_compressors")
    cps = [p for p in crt.params() if p != "self"]
    if len(cps) < 2:
        raise AnalysisError("_create_compressors: expected (side, agreed_parameters, ...)")
    rfc = ("server_no_context_takeover", "client_no_context_takeover", "server_max_window_bits", "client_max_window_bits")
    builders = ("_PerMessageDeflateCompressor", "_PerMessageDeflateDecompressor")
    ck.floor(R, len(crt.cfg.find(lambda x: q.is_call(x, *builders))), 2, "compressor constructions")

    def outcome(names):
        env = {"self": Obj("self", params=Obj("params"), _compression_options=Obj("opts")), cps[0]: "server", cps[1]: tuple(names)}
        for extra in cps[2:]:
            env[extra] = None
        outs = Evaluator(max_paths=400).run(crt.node, env)
        kinds = set()
        for o in outs:
            built = any((e_[0] or "").split(".")[-1] in builders for e_ in o.state.events)
            if o.kind == "raise":
                kinds.add(("raise", o.value, built))
            else:
                kinds.add(("ok", None, built))
        return kinds

    bad_names = ("bogus", "server_max_window_bit", "permessage-deflate", "", "SERVER_NO_CONTEXT_TAKEOVER")
    rejected_wrong = []
    for nm in rfc:
        ks = outcome((nm,))
        if not ks or len({k[0] for k in ks}) != 1:
            raise AnalysisError("_create_compressors: the outcome for the parameter %r is not determined by the abstract interpretation (%s)" % (nm, sorted(map(repr, ks))))
        if {k[0] for k in ks} != {"ok"}:
            rejected_wrong.append(nm)
    ck.ob(R, crt, crt.node, not rejected_wrong, "each of the four RFC 7692 parameters is accepted%s" % ((" - rejected: %s" % rejected_wrong) if rejected_wrong else ""), construct="RFC parameters accepted: %s" % (not rejected_wrong))
    leaked = []
    for nm in bad_names:
        for names in ((nm,), (rfc[0], nm)):
            ks = outcome(names)
            if not ks or len({k[0] for k in ks}) != 1:
                raise AnalysisError("_create_compressors: the outcome for the parameter names %r is not determined by the abstract interpretation (%s)" % (names, sorted(map(repr, ks))))
            if not all(k[0] == "raise" and k[1] == "ValueError" and not k[2] for k in ks):
                leaked.append(names)
    ck.ob(R, crt, crt.node, not leaked, "a parameter name outside RFC 7692 (tried %s, alone and after a valid one) raises ValueError before any compressor is built%s" % (list(bad_names), (" - accepted: %s" % leaked[:3]) if leaked else ""),
          construct="unknown parameters rejected: %s" % (not leaked))


def rule_client_validation(ck):
    ps = ck.func(W, P13 + "._process_server_headers")
    kparam, hparam = [p for p in ps.params() if p != "self"][:2]
    n = 0
    for a in q.walk_body(ps.node):
        if isinstance(a, ast.Assert) and hparam in q.names_in(a.test):
            n += 1
            hn = sorted({x.slice.value.lower() for x in ast.walk(a.test) if isinstance(x, ast.Subscript) and isinstance(x.slice, ast.Constant) and isinstance(x.slice.value, str)}
                        | {x.args[0].value.lower() for x in ast.walk(a.test) if isinstance(x, ast.Call) and isinstance(x.func, ast.Attribute) and x.func.attr == "get" and x.args and isinstance(x.args[0], ast.Constant) and isinstance(x.args[0].value, str)})
            ck.ob("C17.no-assert-validation", ps, a, False, "response headers are validated by a real test that raises, not by `assert` (stripped under -O, AssertionError otherwise)",
                  construct="assert on response header %s" % ("/".join(hn) if hn else q.normalize_construct(a, q.local_names(ps.node))))
    # positive form: the three checks exist as tests whose failing edge raises
    want = {"upgrade": "websocket", "connection": "upgrade", "sec-websocket-accept": None}
    tests = ps.cfg.stmt_nodes(lambda t: t.kind == "test" and isinstance(t.ast, ast.Compare))
    for hname in want:
        found = [t for t in tests if _mentions_hdr(t.ast, hname) and hparam in q.names_in(t.ast)]
        okk = False
        for t in found:
            if len(t.ast.ops) == 1 and isinstance(t.ast.ops[0], (ast.Eq, ast.NotEq)):
                bad = "false" if isinstance(t.ast.ops[0], ast.Eq) else "true"
                succ = [s for s, k in ps.cfg.successors(t) if k == bad]
                okk = bool(succ) and all(s.kind == "stmt" and isinstance(s.ast, ast.Raise) for s in succ)
        asserted = any(isinstance(a, ast.Assert) and _mentions_hdr(a.test, hname) for a in q.walk_body(ps.node))
        if asserted:
            continue  # reported above at the assert itself
        ck.ob("C17.no-assert-validation", ps, ps.node, okk, "the client rejects a response whose %s header is wrong by raising" % hname, construct="client check %s: %s" % (hname, okk))
        n += 1
    ck.floor("C17.no-assert-validation", n, 3, "client-side response checks")
    # subprotocol
    R = "C17.subprotocol-offered"
    hr = ck.func(W, "WebSocketClientConnection.headers_received")
    stores = [st for st in q.walk_body(ps.node) if isinstance(st, ast.Assign) and "self.selected_subprotocol" in q.assigned_paths(st)]
    ck.floor(R, len(stores), 1, "stores of selected_subprotocol from the response")
    for st in stores:
        from_hdr = any(_hdr_get(x, "Sec-WebSocket-Protocol") for x in ast.walk(st.value))
        src_names = {st.value.id} if isinstance(st.value, ast.Name) else set()
        checked = False
        for fi in (ps, hr):
            for x in q.walk_body(fi.node):
                if isinstance(x, ast.Compare) and len(x.ops) == 1 and isinstance(x.ops[0], (ast.In, ast.NotIn)):
                    ltxt = q.unparse(x.left)
                    if "selected_subprotocol" in ltxt or "Sec-WebSocket-Protocol" in ltxt or (isinstance(x.left, ast.Name) and x.left.id in src_names):
                        checked = True
        if not from_hdr and not src_names:
            raise AnalysisError("_process_server_headers: selected_subprotocol is stored from an unrecognised source")
        ck.ob(R, ps, st, checked, "the subprotocol named by the server is accepted only if it is one of those the client offered (membership test before it is exposed)",
              construct="selected_subprotocol taken from the response without a check against the offer")
    # server: header only when the application's choice is among the offered ones
    ac = ck.func(W, P13 + "._accept_connection")
    hp = [p for p in ac.params() if p != "self"][0]
    for node, c in ac.cfg.find(lambda x: q.is_call(x, hp + ".set_header") and x.args and isinstance(x.args[0], ast.Constant) and str(x.args[0].value).lower() == "sec-websocket-protocol"):
        facts = must_facts(ac.cfg)
        ck.ob(R, ac, c, holds(facts[node.id], "self.selected_subprotocol", True) and len(c.args) == 2 and q.dotted(c.args[1]) == "self.selected_subprotocol", "server: Sec-WebSocket-Protocol is sent only when the application selected one, and carries that selection")
    sel = [c for c in q.calls(ac.node) if q.is_call(c, hp + ".select_subprotocol")]
    ck.ob(R, ac, ac.node, len(sel) == 1, "server: select_subprotocol is consulted exactly once", construct="select_subprotocol calls: %d" % len(sel))
    for c in sel:
        a = c.args[0] if c.args else None
        src = q.stores_to(ac.node, a.id) if isinstance(a, ast.Name) else []
        ok = bool(src) and any(any(isinstance(x, ast.Call) and isinstance(x.func, ast.Attribute) and x.func.attr == "split" for x in ast.walk(s.value)) for s in src)
        hsrc = [s for s in q.walk_body(ac.node) if isinstance(s, ast.Assign) and _hdr_get(s.value, "Sec-WebSocket-Protocol")]
        ck.ob(R, ac, c, ok and bool(hsrc), "server: the application chooses among the subprotocols offered in the request header")


def run(ck):
    ck.repo = NORM.normalize(ck.repo, W, NORM.KEEP_WS)  # aliases, temporaries, 1-tuple unpacks, single-use private helpers (vt/x_wsnorm.py)
    ck.rule("C17.gate", "WebSocketHandler.get: accept_connection is reachable only through the passing edges of the Upgrade, Connection-token, origin and version tests (edge removal on the CFG)")
    ck.rule("C17.required-headers", "_accept_connection only after _handle_websocket_headers accepted Host/key/version; ValueError answers 400 without accepting")
    ck.rule("C17.accept-value", "accept value = base64(SHA-1(key + RFC GUID)); server sends it with 101/Upgrade/Connection; client compares by equality against its own key")
    ck.rule("C17.origin", "default check_origin, evaluated for a table of (Origin, Host) pairs: accepted exactly when host and port of the Origin equal the Host header (case-insensitive host; no defaulting of a missing port; no prefix/suffix match)")
    ck.rule("C17.extensions", "permessage-deflate is answered/accepted only when offered and enabled; other extensions and unknown parameters are refused")
    ck.rule("C17.no-assert-validation", "the client validates the handshake response with tests that raise, never with assert")
    ck.rule("C17.subprotocol-offered", "the client accepts only a subprotocol it offered; the server announces only the application's selection among the offered ones")
    rule_gate(ck)
    rule_required(ck)
    rule_accept_value(ck)
    rule_origin(ck)
    rule_extensions(ck)
    rule_client_validation(ck)


def _in(qn, edit, rel=W):
    return lambda repo: mutate(repo, rel, qn, edit)


def _src(st):
    return ast.unparse(st)


def _swap_updates(root):
    ups = [(i, st) for i, st in enumerate(root.body) if isinstance(st, ast.Expr) and ".update(" in _src(st)]
    if len(ups) != 2:
        return False
    (i, a), (j, b) = ups
    root.body[i], root.body[j] = b, a
    return True


def _drop_else_raise(root):
    for n in ast.walk(root):
        if isinstance(n, ast.If) and n.orelse and any(isinstance(x, ast.Raise) for x in n.orelse) and "permessage-deflate" in _src(n.test):
            n.orelse = []
            return True
    return False


MUTANTS = [
    ("origin test dropped", _in("WebSocketHandler.get", replace_expr(lambda n: isinstance(n, ast.BoolOp) and "check_origin" in _src(n), lambda n: ast.Constant(value=False))), "C17.gate"),
    ("origin checked but result ignored when origin present", _in("WebSocketHandler.get", replace_expr(lambda n: isinstance(n, ast.BoolOp) and "check_origin" in _src(n), lambda n: parse_expr("origin is None and not self.check_origin(origin)"))), "C17.gate"),
    ("Upgrade header tested by containment", _in("WebSocketHandler.get", replace_expr(lambda n: isinstance(n, ast.Compare) and "'Upgrade'" in _src(n), lambda n: ast.Compare(left=n.comparators[0], ops=[ast.NotIn()], comparators=[n.left]))), "C17.gate"),
    ("Upgrade compared with the wrong token", _in("WebSocketHandler.get", replace_expr(lambda n: isinstance(n, ast.Constant) and n.value == "websocket", lambda n: ast.Constant(value="websockets"))), "C17.gate"),
    ("Connection tested as a substring of the whole header", _in("WebSocketHandler.get", replace_expr(lambda n: q.is_call(n, "map"), lambda n: parse_expr("headers.get('Connection', '').lower()"))), "C17.gate"),
    ("missing Connection: upgrade only logged", _in("WebSocketHandler.get", lambda root: bool([n.body.pop() for n in ast.walk(root) if isinstance(n, ast.If) and "'upgrade' not in" in _src(n.test) and isinstance(n.body[-1], ast.Return)])), "C17.gate"),
    ("accept attempted for any version (protocol test removed)", _in("WebSocketHandler.get_websocket_protocol", replace_expr(lambda n: isinstance(n, ast.Compare) and "websocket_version" in _src(n), lambda n: ast.Constant(value=True))), "C17.gate"),
    ("version 0 accepted", _in("WebSocketHandler.get_websocket_protocol", replace_expr(lambda n: isinstance(n, ast.Tuple) and "'13'" in _src(n), lambda n: parse_expr("('0', '7', '8', '13')"))), "C17.gate"),
    ("Sec-WebSocket-Key no longer required", _in(P13 + "._handle_websocket_headers", replace_expr(lambda n: isinstance(n, ast.Tuple) and "Sec-Websocket-Key" in _src(n), lambda n: parse_expr("('Host', 'Sec-Websocket-Version')"))), "C17.required-headers"),
    ("invalid headers answered 400 but accepted anyway", _in(P13 + ".accept_connection", lambda root: bool([h.body.pop() for n in ast.walk(root) if isinstance(n, ast.Try) for h in n.handlers if "ValueError" in _src(h.type) and "400" in _src(h) and isinstance(h.body[-1], ast.Return)])), "C17.required-headers"),
    ("GUID changed", _in(P13 + ".compute_accept_value", replace_expr(lambda n: isinstance(n, ast.Constant) and isinstance(n.value, bytes) and n.value.startswith(b"258EAFA5"), lambda n: ast.Constant(value=b"258EAFA5-E914-47DA-95CA-C5AB0DC85B12"))), "C17.accept-value"),
    ("GUID hashed before the key", _in(P13 + ".compute_accept_value", _swap_updates), "C17.accept-value"),
    ("hex digest instead of binary digest", _in(P13 + ".compute_accept_value", replace_expr(lambda n: isinstance(n, ast.Call) and isinstance(n.func, ast.Attribute) and n.func.attr == "digest", lambda n: parse_expr("sha1.hexdigest().encode()"))), "C17.accept-value"),
    ("client compares the accept value with `in`", _in(P13 + "._process_server_headers", replace_expr(lambda n: isinstance(n, ast.Compare) and "Sec-Websocket-Accept" in _src(n), lambda n: ast.Compare(left=n.left, ops=[ast.In()], comparators=n.comparators))), "C17.accept-value"),
    ("server derives the accept value from the wrong header", _in(P13 + "._challenge_response", replace_expr(lambda n: isinstance(n, ast.Constant) and n.value == "Sec-Websocket-Key", lambda n: ast.Constant(value="Sec-Websocket-Version"))), "C17.accept-value"),
    ("client validates against a fresh key", _in("WebSocketClientConnection.headers_received", replace_expr(lambda n: isinstance(n, ast.Attribute) and n.attr == "key", lambda n: parse_expr("base64.b64encode(os.urandom(16))"))), "C17.accept-value"),
    ("seeded C17-adv2: an Origin without a port inherits the Host header's port", _in("WebSocketHandler.check_origin", lambda root: _origin_port_default(root)), "C17.origin"),
    ("seeded C17-adv4: `Origin or legacy` - an empty Origin header bypasses the origin check", _in("WebSocketHandler.get", lambda root: _origin_or_legacy(root)), "C17.gate"),
    ("default origin check: suffix match", _in("WebSocketHandler.check_origin", replace_stmt(lambda st: isinstance(st, ast.Return), lambda st: [parse_stmt("return origin.endswith(host)")])), "C17.origin"),
    ("default origin check ignores the port (hostname)", _in("WebSocketHandler.check_origin", replace_expr(lambda n: isinstance(n, ast.Attribute) and n.attr == "netloc", lambda n: ast.Attribute(value=n.value, attr="hostname", ctx=ast.Load()))), "C17.origin"),
    ("default origin check compares with a different header", _in("WebSocketHandler.check_origin", replace_expr(lambda n: isinstance(n, ast.Constant) and n.value == "Host", lambda n: ast.Constant(value="X-Forwarded-Host"))), "C17.origin"),
    ("server announces different parameters than it configured (empty parameter set echoed)", _in(P13 + "._accept_connection", replace_expr(lambda n: q.call_attr(n) == "_encode_header" if isinstance(n, ast.Call) else False, lambda n: parse_expr("httputil._encode_header('permessage-deflate', {})"))), "C17.extensions"),
    ("server silently drops server_no_context_takeover from the response", _in(P13 + "._accept_connection", replace_stmt(lambda st: isinstance(st, ast.If) and "client_max_window_bits" in _src(st.test), lambda st: [st, parse_stmt("ext[1].pop('server_no_context_takeover', None)")])), "C17.extensions"),
    ("empty Origin header bypasses the origin check (truthiness)", _in("WebSocketHandler.get", replace_expr(lambda n: isinstance(n, ast.Compare) and _src(n) == "origin is not None", lambda n: ast.Name(id="origin", ctx=ast.Load()))), "C17.gate"),
    ("client processes any non-2xx response as a handshake", _in("WebSocketClientConnection.headers_received", replace_expr(lambda n: isinstance(n, ast.Compare) and "start_line.code" in _src(n), lambda n: parse_expr("start_line.code >= 200"))), "C17.accept-value"),
    ("server answers permessage-deflate although compression is disabled", _in(P13 + "._accept_connection", replace_expr(lambda n: isinstance(n, ast.BoolOp) and "permessage-deflate" in _src(n), lambda n: n.values[0])), "C17.extensions"),
    ("server answers deflate for any offered extension", _in(P13 + "._accept_connection", replace_expr(lambda n: isinstance(n, ast.BoolOp) and "permessage-deflate" in _src(n), lambda n: n.values[1])), "C17.extensions"),
    ("client silently accepts unknown extensions", _in(P13 + "._process_server_headers", _drop_else_raise), "C17.extensions"),
    ("client accepts deflate it did not offer", _in(P13 + "._process_server_headers", replace_expr(lambda n: isinstance(n, ast.BoolOp) and "permessage-deflate" in _src(n), lambda n: n.values[0])), "C17.extensions"),
    ("unknown compression parameters ignored", _in(P13 + "._create_compressors", remove_stmts(lambda st: isinstance(st, ast.For) and "allowed_keys" in _src(st))), "C17.extensions"),
    ("server announces a subprotocol unconditionally", _in(P13 + "._accept_connection", lambda root: _unguard_subprotocol(root)), "C17.subprotocol-offered"),
]


def _unguard_subprotocol(root):
    for i, st in enumerate(root.body):
        if isinstance(st, ast.If) and _src(st.test) == "self.selected_subprotocol":
            root.body[i : i + 1] = [x for x in st.body if not isinstance(x, ast.Assert)]
            return True
    return False


def _origin_port_default(root):
    keep = [st for st in root.body if isinstance(st, ast.Expr) and isinstance(st.value, ast.Constant)]
    new = ast.parse(
        "parsed_origin = urlparse(origin)\n"
        "origin_host, origin_port = httputil.split_host_and_port(parsed_origin.netloc.lower())\n"
        "host, port = httputil.split_host_and_port(self.request.headers.get('Host', '').lower())\n"
        "return origin_host == host and (origin_port or port) == port\n"
    ).body
    root.body = keep + new
    return True


def _origin_or_legacy(root):
    for i, st in enumerate(root.body):
        if isinstance(st, ast.If) and "'Origin' in" in _src(st.test):
            root.body[i] = parse_stmt("origin = self.request.headers.get('Origin') or self.request.headers.get('Sec-Websocket-Origin')")
            return True
    return False
