"""C48 — OAuth 1.0 / 1.0a signature construction.

Decided statically (DESIGN.md §4 C48, families TAINT / TBL): the expression graph of ``_oauth_signature`` and
``_oauth10a_signature`` is resolved backwards from the ``hmac.new(key, message, digest)`` call: the message is the
base string = "&".join of exactly (METHOD upper-cased, normalised URL, parameter string), each passed through
``_oauth_escape``; the parameter string joins ``name=value`` pairs with "&" over a *sorted* iteration in which both
the name and the value are percent-encoded; the normalised URL lower-cases scheme and authority only and drops
query/fragment; the key is b"&".join of the percent-encoded consumer secret and token secret (or empty), in that
order; the digest is SHA-1 and the result its base64 without the trailing newline; every ``quote`` keeps only
RFC 3986 unreserved characters safe.  Both siblings are checked with the same obligations (agreement by
construction).  Call sites sign the dictionary they send and pass the token to both variants alike.
Not decided: equality with RFC 5849 on concrete values (sorting of encoded vs raw names, default ports, duplicate names).
"""
from __future__ import annotations

import ast

from .. import q
from ..rules import call_sites, event_facts, node_calls
from ..mutate import mutate, remove_stmts, replace_stmt, replace_expr, parse_stmt, parse_expr
from ..model import AnalysisError
from ..x_scope import own_nodes, strip_annotations
from ..x_flow import resolve_local, unique_def

TECHNIQUE = "backward expression resolution (def-use over single-assignment locals and list builders) + sanitizer (taint) predicate on every component of base string and key + sibling/call-site table agreement"
EXPLANATION = (
    "Starting from hmac.new(...) in each signature function, key and message are resolved through their unique local definitions; list builders "
    "(literal + append) are expanded in order; every component is classified by a sanitizer predicate (escaped = _oauth_escape / quote(safe⊆unreserved) "
    "possibly under utf8/str/encode wrappers, conditional expressions component-wise, comprehension variables by the position they are bound from). "
    "The f-string / concatenation forming `name=value` is taken apart; the iteration source is searched for sorted(). URL normalisation is read off the "
    "concatenation. quote() safe-sets are evaluated. The three call-site pairs are compared argument by argument."
)
NOT_DECIDED = "value-level equality with RFC 5849 (ordering by encoded name then value, default-port stripping, repeated names, non-str parameter values); nonce/timestamp generation"

F = "tornado/auth.py"
SIGS = ("_oauth_signature", "_oauth10a_signature")
UNRESERVED_EXTRA = set("-._~")


def _defs(fi, name):
    return [n for n in own_nodes(fi.node) if isinstance(n, (ast.Assign, ast.AnnAssign)) and name in q.assigned_paths(n) and getattr(n, "value", None) is not None]


def _resolve(fi, e, depth=0):
    """Follow a Name to its unique simple definition (`name = expr`)."""
    while isinstance(e, ast.Name) and depth < 6:
        ds = _defs(fi, e.id)
        simple = [d for d in ds if isinstance(d, ast.Assign) and len(d.targets) == 1 and isinstance(d.targets[0], ast.Name)]
        if len(ds) != 1 or len(simple) != 1:
            return e
        e = simple[0].value
        depth += 1
    return e


def _strip_wrappers(e):
    """Remove representation-only wrappers: escape.utf8(x), utf8(x), str(x), native_str(x), x.encode(...)."""
    while True:
        if isinstance(e, ast.Call) and q.call_attr(e) in ("utf8", "str", "native_str", "to_unicode", "to_basestring") and len(e.args) == 1 and not e.keywords:
            e = e.args[0]
        elif isinstance(e, ast.Call) and isinstance(e.func, ast.Attribute) and e.func.attr == "encode":
            e = e.func.value
        else:
            return e


def _safe_ok(call):
    s = q.arg(call, 1, "safe")
    if s is None:
        return False  # default safe='/' keeps a reserved character
    if not (isinstance(s, ast.Constant) and isinstance(s.value, (str, bytes))):
        return None
    v = s.value.decode("latin1") if isinstance(s.value, bytes) else s.value
    return set(v) <= UNRESERVED_EXTRA


_CK = None


def escaped(e, env, depth=0):
    """True/False: expression is percent-encoded text (sanitised) under env (names known to be encoded).
    Same-module single-return helpers are followed; any other unknown call raises AnalysisError (not 'unescaped')."""
    e = _strip_wrappers(e)
    if isinstance(e, ast.Call):
        nm = q.dotted(e.func) or ""
        if nm.split(".")[-1] == "_oauth_escape" and len(e.args) == 1:
            return True
        if nm.split(".")[-1] in ("quote", "quote_plus"):
            return nm.split(".")[-1] == "quote" and _safe_ok(e) is True
        if _CK is not None and isinstance(e.func, ast.Name) and _CK.repo.has_func(F, e.func.id) and depth < 2 and not e.keywords:
            h = _CK.repo.func(F, e.func.id)
            rets = [r for r in own_nodes(h.node) if isinstance(r, ast.Return) and r.value is not None]
            hp = h.params()
            if len(rets) == 1 and len(hp) == len(e.args):
                henv = {p for p, a in zip(hp, e.args) if escaped(a, env, depth + 1)}
                return escaped(_resolve(h, rets[0].value), henv, depth + 1)
        if nm.split(".")[-1] in ("format", "join", "lower", "upper", "strip", "get", "pop", "decode", "replace", "b2a_hex", "b64encode", "time", "int", "hexlify"):
            return False
        raise AnalysisError("cannot tell whether %s percent-encodes its argument (helper not followed)" % q.unparse(e)[:60])
    if isinstance(e, ast.Name):
        return e.id in env
    if isinstance(e, ast.Constant):
        if isinstance(e.value, (str, bytes)):
            v = e.value.decode("latin1") if isinstance(e.value, bytes) else e.value
            return all(c.isalnum() and c.isascii() or c in UNRESERVED_EXTRA for c in v)
        return False
    if isinstance(e, ast.IfExp):
        return escaped(e.body, env) and escaped(e.orelse, env)
    return False


def _list_elements(fi, name):
    """Elements of a list built as `name = [..]` followed by name.append(x) / name.extend([..]) / name += [..], in source order."""
    items = []
    events = []
    for n in own_nodes(fi.node):
        if isinstance(n, (ast.Assign, ast.AnnAssign)) and name in q.assigned_paths(n):
            events.append((n.lineno, n.col_offset, "def", n))
        elif isinstance(n, ast.AugAssign) and q.dotted(n.target) == name:
            events.append((n.lineno, n.col_offset, "aug", n))
        elif isinstance(n, ast.Call) and isinstance(n.func, ast.Attribute) and q.dotted(n.func.value) == name:
            events.append((n.lineno, n.col_offset, n.func.attr, n))
    # own_nodes yields in document order (pre-order, left to right); line numbers are not used (stale in rewritten trees)
    seen_def = False
    for _l, _c, kind, n in events:
        if kind == "def":
            if seen_def or not isinstance(n.value, (ast.List, ast.Tuple)):
                raise AnalysisError("%s: list %s is not built as literal + append (unknown idiom)" % (fi.qualname, name))
            seen_def = True
            items.extend(n.value.elts)
        elif kind == "append" and len(n.args) == 1:
            items.append(n.args[0])
        elif kind == "extend" and len(n.args) == 1 and isinstance(n.args[0], (ast.List, ast.Tuple)):
            items.extend(n.args[0].elts)
        elif kind == "aug" and isinstance(n.op, ast.Add) and isinstance(n.value, (ast.List, ast.Tuple)):
            items.extend(n.value.elts)
        elif kind in ("insert", "pop", "remove", "sort", "reverse", "clear", "aug", "extend", "append"):
            raise AnalysisError("%s: list %s is modified by %s (unknown idiom)" % (fi.qualname, name, kind))
    if not seen_def:
        raise AnalysisError("%s: no definition of list %s" % (fi.qualname, name))
    for n in own_nodes(fi.node):
        if isinstance(n, (ast.If, ast.For, ast.While, ast.Try)):
            for x in ast.walk(n):
                if isinstance(x, ast.Call) and isinstance(x.func, ast.Attribute) and q.dotted(x.func.value) == name and x.func.attr in ("append", "extend", "insert"):
                    raise AnalysisError("%s: list %s is extended conditionally (unknown idiom)" % (fi.qualname, name))
    return items


def _join_parts(fi, e):
    """For `SEP.join(X)`: (sep constant, X) else None."""
    if isinstance(e, ast.Call) and isinstance(e.func, ast.Attribute) and e.func.attr == "join" and len(e.args) == 1 and isinstance(e.func.value, ast.Constant):
        return e.func.value.value, e.args[0]
    return None


def _flatten_add(e):
    if isinstance(e, ast.BinOp) and isinstance(e.op, ast.Add):
        return _flatten_add(e.left) + _flatten_add(e.right)
    return [e]


def _pair_format(e):
    """name/value expressions of `f"{K}={V}"`, `K + "=" + V`, `"%s=%s" % (K, V)`."""
    if isinstance(e, ast.JoinedStr):
        vals = e.values
        if len(vals) == 3 and isinstance(vals[0], ast.FormattedValue) and isinstance(vals[2], ast.FormattedValue) and isinstance(vals[1], ast.Constant):
            if vals[0].format_spec is None and vals[2].format_spec is None and vals[0].conversion == -1 and vals[2].conversion == -1:
                return vals[0].value, vals[1].value, vals[2].value
        return None
    parts = _flatten_add(e)
    if len(parts) == 3 and isinstance(parts[1], ast.Constant):
        return parts[0], parts[1].value, parts[2]
    if isinstance(e, ast.BinOp) and isinstance(e.op, ast.Mod) and isinstance(e.left, ast.Constant) and isinstance(e.right, ast.Tuple) and len(e.right.elts) == 2 and e.left.value in ("%s=%s",):
        return e.right.elts[0], "=", e.right.elts[1]
    return None


def _iter_info(fi, it, depth=0):
    """(is_sorted, (name_escaped, value_escaped), source) for the iterable of the parameter comprehension."""
    is_sorted = False
    comp = (False, False)
    it = _resolve(fi, it)
    while depth < 6:
        depth += 1
        if isinstance(it, ast.Call) and q.dotted(it.func) == "sorted" and it.args:
            is_sorted = True
            it = _resolve(fi, it.args[0])
            continue
        if isinstance(it, ast.Call) and q.dotted(it.func) in ("list", "tuple") and len(it.args) == 1:
            it = _resolve(fi, it.args[0])
            continue
        if isinstance(it, (ast.GeneratorExp, ast.ListComp)) and len(it.generators) == 1 and isinstance(it.elt, ast.Tuple) and len(it.elt.elts) == 2:
            g = it.generators[0]
            inner_sorted, inner_comp, src = _iter_info(fi, g.iter, depth)
            env = _env_from_target(g.target, inner_comp)
            comp = (escaped(it.elt.elts[0], env), escaped(it.elt.elts[1], env))
            return is_sorted or False, comp, src if not inner_sorted else src
        if isinstance(it, ast.Call) and isinstance(it.func, ast.Attribute) and it.func.attr == "items" and not it.args:
            return is_sorted, comp, q.dotted(it.func.value)
        break
    raise AnalysisError("%s: parameter iteration source %s not understood (unknown idiom)" % (fi.qualname, q.unparse(it)))


def _env_from_target(target, comp):
    env = set()
    if isinstance(target, ast.Tuple) and len(target.elts) == 2 and all(isinstance(t, ast.Name) for t in target.elts):
        if comp[0]:
            env.add(target.elts[0].id)
        if comp[1]:
            env.add(target.elts[1].id)
        return env
    raise AnalysisError("parameter comprehension does not unpack (name, value)")


def _as_comp(fi, src):
    """(element expr, target, iterable) of a comprehension, or of the equivalent loop form
    `L = []` ... `for T in ITER: L.append(ELT)` when ``src`` names such a list; None otherwise."""
    if isinstance(src, (ast.GeneratorExp, ast.ListComp)) and len(src.generators) == 1 and not src.generators[0].ifs:
        g = src.generators[0]
        return src.elt, g.target, g.iter
    if isinstance(src, ast.Call) and q.dotted(src.func) == "map" and len(src.args) == 2 and not src.keywords and isinstance(src.args[0], (ast.Name, ast.Attribute)):
        # map(f, xs)  ==  (f(x) for x in xs)
        tv = ast.Name(id="_map_item", ctx=ast.Load())
        return ast.Call(func=src.args[0], args=[tv], keywords=[]), ast.Name(id="_map_item", ctx=ast.Store()), src.args[1]
    if isinstance(src, ast.Name):
        ds = _defs(fi, src.id)
        if len(ds) == 1 and isinstance(ds[0].value, ast.List) and not ds[0].value.elts:
            adds = [n for n in own_nodes(fi.node) if isinstance(n, ast.Call) and isinstance(n.func, ast.Attribute) and q.dotted(n.func.value) == src.id and n.func.attr in ("append", "extend", "insert")]
            loops = [n for n in own_nodes(fi.node) if isinstance(n, ast.For) and not n.orelse and len(n.body) == 1 and isinstance(n.body[0], ast.Expr) and n.body[0].value in adds]
            if len(adds) == 1 and len(loops) == 1 and adds[0].func.attr == "append" and len(adds[0].args) == 1:
                return adds[0].args[0], loops[0].target, loops[0].iter
    return None


def _resolve_cond(fi, e):
    """A Name bound once in each arm of one if/else -> the equivalent conditional expression."""
    e = _resolve(fi, e)
    if isinstance(e, ast.Name):
        ds = _defs(fi, e.id)
        if len(ds) == 2 and all(isinstance(d, ast.Assign) and len(d.targets) == 1 for d in ds):
            for n in own_nodes(fi.node):
                if isinstance(n, ast.If) and len(n.body) == 1 and len(n.orelse) == 1 and {id(n.body[0]), id(n.orelse[0])} == {id(ds[0]), id(ds[1])}:
                    return ast.IfExp(test=n.test, body=n.body[0].value, orelse=n.orelse[0].value)
    return e


def _expand(fi, e, depth=5):
    """Copy of ``e`` with locals replaced by what they stand for, anywhere inside the expression: a local with a unique
    simple definition by that definition, a local bound once in each arm of one if/else by the conditional expression."""
    import copy as _copy

    def go(x, d):
        class T(ast.NodeTransformer):
            def visit_Name(self, nm):
                if not isinstance(nm.ctx, ast.Load) or d <= 0 or nm.id in fi.params():
                    return nm
                r = _resolve_cond(fi, nm)
                if r is nm or (isinstance(r, ast.Name) and r.id == nm.id):
                    return nm
                return go(_copy.deepcopy(r), d - 1)

            def visit_Lambda(self, node):
                return node

            def visit_GeneratorExp(self, node):
                return node

            visit_ListComp = visit_GeneratorExp

        return T().visit(x)

    return go(_copy.deepcopy(e), depth)


def _through_helper(ck, fi, m, names):
    """If the expression is a call of a same-module function with a single return, continue the analysis inside it:
    returns (context function, returned expression, parameter names mapped into the helper)."""
    if isinstance(m, ast.Call) and isinstance(m.func, ast.Name) and ck.repo.has_func(fi.file, m.func.id) and not m.keywords:
        h = ck.repo.func(fi.file, m.func.id)
        hp = h.params()
        rets = [r for r in own_nodes(h.node) if isinstance(r, ast.Return) and r.value is not None]
        if len(rets) == 1 and len(hp) == len(m.args):
            amap = {q.dotted(a): hp[i] for i, a in enumerate(m.args) if q.dotted(a)}
            mapped = {k: amap.get(v) for k, v in names.items()}
            ck.use(h)
            return h, rets[0].value, mapped
    return fi, m, names


def check_signature_fn(ck, fi):
    params = fi.params()
    if len(params) < 5:
        raise AnalysisError("%s lost its (consumer_token, method, url, parameters, token) parameters" % fi.qualname)
    p_cons, p_method, p_url, p_params, p_token = params[:5]
    sig_fi = fi
    macs = [c for c in q.find_calls(fi.node, "hmac.new", "hmac.HMAC")]
    back = None  # maps an expression of the MAC helper back into the signature function
    if not macs:
        # the MAC computation was moved into a private module function: `return _helper(key, base_string)`
        rets0 = [n for n in own_nodes(fi.node) if isinstance(n, ast.Return) and n.value is not None]
        hv = resolve_local(fi, rets0[0].value) if len(rets0) == 1 else None
        if not (isinstance(hv, ast.Call) and isinstance(hv.func, ast.Name) and ck.repo.has_func(fi.file, hv.func.id) and not hv.keywords):
            raise AnalysisError("%s: no hmac.new call and the result is not the call of a module helper" % fi.qualname)
        H = ck.use(ck.repo.func(fi.file, hv.func.id))
        hp = H.params()
        if len(hp) != len(hv.args):
            raise AnalysisError("%s: MAC helper %s is not called positionally" % (fi.qualname, H.qualname))
        amap = dict(zip(hp, hv.args))

        def back(e, H=H, amap=amap):
            core = _strip_wrappers(_resolve(H, _strip_wrappers(e)))
            if isinstance(core, ast.Name) and core.id in amap and not _defs(H, core.id):
                return amap[core.id]
            raise AnalysisError("%s: cannot map %s of the MAC helper back to the signature function" % (sig_fi.qualname, q.unparse(e)))

        fi = H
        macs = [c for c in q.find_calls(fi.node, "hmac.new", "hmac.HMAC")]
    if len(macs) != 1:
        raise AnalysisError("%s: expected one hmac.new call" % fi.qualname)
    mac = macs[0]
    k_e, m_e, d_e = q.arg(mac, 0, "key"), q.arg(mac, 1, "msg"), q.arg(mac, 2, "digestmod")
    ck.ob("C48.hmac-sha1", sig_fi, mac, d_e is not None and (q.dotted(d_e) in ("hashlib.sha1", "sha1") or q.is_const(d_e, "sha1")), "the MAC is HMAC-SHA1")
    # result: base64 of the digest without the trailing newline
    rets = [n for n in own_nodes(fi.node) if isinstance(n, ast.Return)]
    mac_name = None
    pm = q.parent_map(fi.node)
    st = q.enclosing_stmt(pm, mac)
    if isinstance(st, ast.Assign) and len(st.targets) == 1 and isinstance(st.targets[0], ast.Name):
        mac_name = st.targets[0].id
    if len(rets) != 1 or rets[0].value is None:
        raise AnalysisError("%s: the MAC function is not a single `return <encoding of the digest>`" % fi.qualname)
    v = resolve_local(fi, rets[0].value)

    def is_digest(x):
        x = resolve_local(fi, x)
        return isinstance(x, ast.Call) and q.call_attr(x) == "digest" and not x.args and (q.receiver(x) == mac_name or x.func.value is mac)

    ok_ret = None  # None = shape not recognised
    if isinstance(v, ast.Subscript) and isinstance(v.slice, ast.Slice) and isinstance(v.value, ast.Call) and q.call_attr(v.value) == "b2a_base64" and v.value.args and is_digest(v.value.args[0]):
        ok_ret = v.slice.lower is None and v.slice.step is None and v.slice.upper is not None and q.unparse(v.slice.upper) == "-1"
    elif isinstance(v, ast.Call) and q.call_attr(v) == "b2a_base64" and v.args and is_digest(v.args[0]):
        nl = q.kwarg(v, "newline")
        ok_ret = nl is not None and q.is_const(nl, False)  # without newline=False the trailing "\n" is part of the signature
    elif isinstance(v, ast.Call) and q.call_attr(v) in ("b64encode", "standard_b64encode") and v.args and is_digest(v.args[0]):
        ok_ret = True
    elif isinstance(v, ast.Call) and q.call_attr(v) in ("hexdigest",) and (q.receiver(v) == mac_name):
        ok_ret = False
    elif isinstance(v, ast.Call) and q.call_attr(v) in ("strip", "rstrip") and isinstance(v.func.value, ast.Call) and q.call_attr(v.func.value) == "b2a_base64" and v.func.value.args and is_digest(v.func.value.args[0]):
        ok_ret = True
    if ok_ret is None:
        raise AnalysisError("%s: how the digest is encoded is not recognised (%s)" % (fi.qualname, q.unparse(v)[:80]))
    ck.ob("C48.hmac-sha1", sig_fi, rets[0], ok_ret, "the signature is the base64 encoding of the MAC digest (no trailing newline)")
    if back is not None:
        k_e, m_e = back(k_e), back(m_e)
    fi = sig_fi

    # ---- message = base string
    key_fi = fi
    ofi = fi  # obligations are attributed to the anchored signature function even when the code lives in a helper
    m = _strip_wrappers(m_e)
    m = _resolve(fi, m)
    m = _strip_wrappers(m)
    fi, m, mapped = _through_helper(ck, fi, m, {"method": p_method, "url": p_url, "params": p_params})
    if None in mapped.values():
        raise AnalysisError("%s: the base-string helper is not given method, url and parameters" % key_fi.qualname)
    p_method, p_url, p_params = mapped["method"], mapped["url"], mapped["params"]
    m = _strip_wrappers(_resolve(fi, m))
    jp = _join_parts(fi, m)
    if jp is None:
        raise AnalysisError("%s: the signed message is not `'&'.join(...)` (unknown idiom)" % fi.qualname)
    sep, src = jp
    ck.ob("C48.base-string", ofi, m, sep == "&", "base string components are joined with '&'")
    comp = _as_comp(fi, src)
    if comp is None and isinstance(src, ast.Name):
        # the raw list is joined: nothing was encoded
        ck.ob("C48.base-string", ofi, m, False, "every base string component (method, URL, parameter string) is percent-encoded by _oauth_escape")
        list_name = src.id
    else:
        if comp is None or not isinstance(comp[1], ast.Name):
            raise AnalysisError("%s: base string is not a comprehension over its elements (unknown idiom)" % fi.qualname)
        elt_, tgt_, iter_ = comp
        ck.ob("C48.base-string", ofi, elt_, escaped(elt_, set()) and tgt_.id in q.names_in(elt_), "every base string component (method, URL, parameter string) is percent-encoded by _oauth_escape")
        if not isinstance(iter_, ast.Name):
            raise AnalysisError("%s: base string elements are not a named list" % fi.qualname)
        list_name = iter_.id
    elems = _list_elements(fi, list_name)
    ck.ob("C48.base-string", ofi, m, len(elems) == 3, "the base string has exactly three components (found %d)" % len(elems), construct="components=%d" % len(elems))
    if len(elems) != 3:
        return
    e_method, e_url, e_params = elems
    e_method = _expand(fi, e_method)
    ck.ob("C48.base-string", ofi, e_method, isinstance(e_method, ast.Call) and q.call_attr(e_method) == "upper" and q.receiver(e_method) == p_method, "first component: the HTTP method, upper-cased")
    # URL: every piece is resolved to a component of urlparse(url) (tuple position or attribute), a constant, or unknown.
    # A same-module single-return helper `normalized_url = _helper(url)` is followed (analysed in the helper's own scope).
    u = _expand(fi, e_url)
    ufi, u_url = fi, p_url
    if isinstance(u, ast.Call) and isinstance(u.func, ast.Name) and ck.repo.has_func(fi.file, u.func.id) and not u.keywords:
        h_ = ck.repo.func(fi.file, u.func.id)
        hp_ = h_.params()
        rets_ = [r for r in own_nodes(h_.node) if isinstance(r, ast.Return) and r.value is not None]
        pos_ = [i for i, a_ in enumerate(u.args) if q.dotted(a_) == p_url]
        if len(rets_) != 1 or len(hp_) != len(u.args) or len(pos_) != 1:
            raise AnalysisError("%s: URL normalisation helper %s is not a single-return function of the URL" % (fi.qualname, h_.qualname))
        ufi, u_url = ck.use(h_), hp_[pos_[0]]
        u = rets_[0].value
    COMP = {"scheme": 0, "netloc": 1, "path": 2, "params": 3, "query": 4, "fragment": 5}
    DERIVED = ("hostname", "port", "username", "password")  # computed from netloc: case-folded / brackets and userinfo stripped

    def parsed_url(x):
        x = _resolve(ufi, x)
        return isinstance(x, ast.Call) and q.call_attr(x) in ("urlparse", "urlsplit") and x.args and q.dotted(x.args[0]) == u_url

    def component(x):
        """index of the urlparse component the expression denotes, else None"""
        if isinstance(x, ast.Attribute) and x.attr in COMP and parsed_url(x.value):
            return COMP[x.attr]
        if isinstance(x, ast.Subscript) and parsed_url(x.value):
            try:
                i = q.fold(x.slice, {})
                return i if isinstance(i, int) and 0 <= i < 6 else None
            except q.NotFoldable:
                return None
        if isinstance(x, ast.Name):
            for n in own_nodes(ufi.node):
                if isinstance(n, ast.Assign) and isinstance(n.targets[0], ast.Tuple) and all(isinstance(t, ast.Name) for t in n.targets[0].elts):
                    names = [t.id for t in n.targets[0].elts]
                    if x.id in names and len(_defs(ufi, x.id)) == 1:
                        v_ = n.value
                        if isinstance(v_, ast.Subscript) and isinstance(v_.slice, ast.Slice) and v_.slice.lower is None and v_.slice.step is None and parsed_url(v_.value):
                            try:
                                up = q.fold(v_.slice.upper, {}) if v_.slice.upper is not None else 6
                            except q.NotFoldable:
                                return None
                            if up == len(names):
                                return names.index(x.id)
                        elif parsed_url(v_) and len(names) == 6:
                            return names.index(x.id)
            d_ = unique_def(ufi, x.id)
            if d_ is not None:
                return component(d_)
        return None

    shape = []
    visiting = set()

    def pieces(x, lowered):
        x = x if not isinstance(x, ast.Name) or component(x) is not None else _resolve(ufi, x)
        if isinstance(x, ast.BinOp) and isinstance(x.op, ast.Add):
            pieces(x.left, lowered)
            pieces(x.right, lowered)
        elif isinstance(x, ast.BinOp) and isinstance(x.op, ast.Mod) and isinstance(x.left, ast.Constant) and isinstance(x.left.value, str):
            shape.append(("const", "<%-format>"))
            for el in (x.right.elts if isinstance(x.right, ast.Tuple) else [x.right]):
                pieces(el, lowered)
        elif isinstance(x, ast.BoolOp) and isinstance(x.op, ast.Or) and len(x.values) == 2 and isinstance(x.values[1], ast.Constant):
            pieces(x.values[0], lowered)  # `part or ""`
        elif isinstance(x, ast.JoinedStr):
            for v_ in x.values:
                if isinstance(v_, ast.FormattedValue):
                    if v_.format_spec is not None or v_.conversion != -1:
                        shape.append(("?", q.unparse(x)))
                    else:
                        pieces(v_.value, lowered)
                else:
                    pieces(v_, lowered)
        elif isinstance(x, ast.Constant) and isinstance(x.value, str):
            shape.append(("const", x.value.lower() if lowered else x.value))
        elif isinstance(x, ast.Call) and q.call_attr(x) == "lower" and not x.args and isinstance(x.func, ast.Attribute):
            pieces(x.func.value, True)
        elif isinstance(x, ast.Call) and q.dotted(x.func) == "str" and len(x.args) == 1:
            pieces(x.args[0], lowered)
        elif component(x) is not None:
            shape.append(("lower" if lowered else "raw", component(x)))
        elif isinstance(x, ast.Attribute) and x.attr in DERIVED and parsed_url(x.value):
            shape.append(("derived", x.attr))
        elif isinstance(x, ast.Name) and x.id == u_url:
            shape.append(("whole-url", 0))
        elif isinstance(x, ast.Name) and len(_defs(ufi, x.id)) > 1 and x.id not in visiting:
            # a local built up in steps (`host = ...; if ...: host = "%s:%d" % (host, port)`): the pieces of every binding
            visiting.add(x.id)
            for d_ in _defs(ufi, x.id):
                if isinstance(d_, ast.Assign) and len(d_.targets) == 1 and isinstance(d_.targets[0], ast.Name):
                    pieces(d_.value, lowered)
                else:
                    shape.append(("?", q.unparse(d_)))
            visiting.discard(x.id)
        elif isinstance(x, ast.Name) and x.id in visiting:
            pass  # self-reference inside its own re-binding
        else:
            shape.append(("?", q.unparse(x)))

    pieces(u, False)
    # adjacent constants merge
    merged = []
    for k_, v_ in shape:
        if k_ == "const" and merged and merged[-1][0] == "const":
            merged[-1] = ("const", merged[-1][1] + v_)
        else:
            merged.append((k_, v_))
    shape = merged
    derived = [v_ for k_, v_ in shape if k_ == "derived"]
    if any(k == "?" for k, _v in shape) and not derived:
        raise AnalysisError("%s: normalised URL piece %s is not recognised" % (ufi.qualname, [v_ for k, v_ in shape if k == "?"][0][:60]))
    ok_url = shape == [("lower", 0), ("const", "://"), ("lower", 1), ("raw", 2)]
    why_ = "resolved shape: %s" % shape
    if derived:
        why_ = "the authority is rebuilt from urlparse().%s instead of netloc.lower(): IPv6 brackets / userinfo are dropped and the port is re-rendered" % "/".join(sorted(set(derived)))
    ck.ob("C48.url-normalized", ofi, u, ok_url, "second component: scheme.lower() + '://' + authority.lower() + path of the request URL, query and fragment excluded (%s)" % why_, construct="url " + q.unparse(u))
    # parameters
    pj = _join_parts(fi, _resolve(fi, e_params))
    if pj is None:
        raise AnalysisError("%s: the parameter string is not `'&'.join(...)` (unknown idiom)" % fi.qualname)
    psep, pgen = pj
    sorted_strings = False
    pg = _resolve(fi, pgen)
    while isinstance(pg, ast.Call) and q.dotted(pg.func) in ("sorted", "list", "tuple") and len(pg.args) == 1:
        if q.dotted(pg.func) == "sorted":
            sorted_strings = True  # the already formatted "name=value" strings are ordered, '=' takes part in the comparison
        pg = _resolve(fi, pg.args[0])
    if sorted_strings:
        pgen = pg
    pcomp = _as_comp(fi, pgen)
    if pcomp is None:
        raise AnalysisError("%s: the parameter string is not a single comprehension / append loop (unknown idiom)" % fi.qualname)
    p_elt, p_tgt, p_iter = pcomp
    pf = _pair_format(p_elt)
    if pf is None:
        raise AnalysisError("%s: cannot take `name=value` apart in %s (unknown idiom)" % (fi.qualname, q.unparse(p_elt)))
    k_expr, eq, v_expr = pf
    ck.ob("C48.param-format", ofi, p_elt, psep == "&" and eq == "=", "pairs are `name=value` joined with '&'")
    is_sorted, comp, source = _iter_info(fi, p_iter)
    env = _env_from_target(p_tgt, comp)
    tk, tv = (t.id for t in p_tgt.elts)
    if sorted_strings:
        ck.ob("C48.params-sorted", ofi, p_elt, False, "parameters are ordered as (name, value) pairs before they are formatted; sorting the formatted 'name=value' strings lets '=' (and the value) take part in the name comparison ('a1=..' < 'a=..')",
              construct="sorted-after-formatting " + q.normalize_construct(p_elt, set(q.names_in(p_tgt))))
    ck.ob("C48.params-sorted", ofi, p_iter, is_sorted or sorted_strings, "parameters are put in sorted order before they are concatenated")
    ck.ob("C48.params-sorted", ofi, p_iter, source == p_params, "all request parameters (the dict that is sent) enter the parameter string", construct="source " + str(source))
    pair_txt = q.normalize_construct(p_elt, {tk, tv})
    ck.ob("C48.param-names-escaped", ofi, k_expr, escaped(k_expr, env) and tk in q.names_in(k_expr), "parameter NAMES are percent-encoded (RFC 5849 §3.4.1.3.2: name and value are each encoded)",
          construct="parameter name " + q.normalize_construct(k_expr, {tk, tv}))
    ck.ob("C48.param-values-escaped", ofi, v_expr, escaped(v_expr, env) and tv in q.names_in(v_expr), "parameter VALUES are percent-encoded", construct="parameter value " + q.normalize_construct(v_expr, {tk, tv}))

    # ---- key
    fi = key_fi
    k = _resolve(fi, _strip_wrappers(k_e))
    kj = _join_parts(fi, k)
    if kj is None:
        raise AnalysisError("%s: the key is not `b'&'.join(...)` (unknown idiom)" % fi.qualname)
    ksep, ksrc = kj
    ck.ob("C48.key", fi, k, ksep in (b"&", "&"), "key parts are joined with '&'")
    if isinstance(ksrc, ast.Name):
        # a key part appended in only one arm of an if: the number of key components then depends on the input
        one_armed = []
        for n_ in own_nodes(fi.node):
            if isinstance(n_, ast.If):
                adds = lambda blk: [x for st_ in blk for x in ast.walk(st_) if isinstance(x, ast.Call) and isinstance(x.func, ast.Attribute) and q.dotted(x.func.value) == ksrc.id and x.func.attr in ("append", "extend", "insert")]
                a_, b_ = adds(n_.body), adds(n_.orelse)
                if bool(a_) != bool(b_):
                    one_armed.append(n_)
        if one_armed:
            ck.ob("C48.key", fi, one_armed[0].test, False, "the key always has exactly two components, consumer secret '&' token secret: without a token the second one is empty but the '&' stays (RFC 5849 §3.4.2); here a component is added only when `%s`" % q.unparse(one_armed[0].test)[:40],
                  construct="key-part-conditional " + q.normalize_construct(one_armed[0].test, q.local_names(fi.node)))
            return
        kel = _list_elements(fi, ksrc.id)
    elif isinstance(ksrc, (ast.List, ast.Tuple)):
        kel = list(ksrc.elts)
    else:
        raise AnalysisError("%s: key parts are not a list (unknown idiom)" % fi.qualname)
    ck.ob("C48.key", fi, k, len(kel) == 2, "the key has exactly two parts: consumer secret & token secret (found %d)" % len(kel), construct="key-parts=%d" % len(kel))
    if len(kel) != 2:
        return
    kel = [_expand(fi, x) for x in kel]
    for e, owner, label in ((kel[0], p_cons, "consumer"), (kel[1], p_token, "token")):
        core = _strip_wrappers(e)
        secret_subs = [s for s in ast.walk(core) if isinstance(s, ast.Subscript) and q.dotted(s.value) == owner and q.is_const(s.slice, "secret")]
        ck.ob("C48.key", fi, e, len(secret_subs) >= 1, "%s part of the key is the %s secret" % ("first" if label == "consumer" else "second", label), construct="%s-secret-position %s" % (label, q.unparse(e)))
        ck.ob("C48.key-parts-encoded", fi, e, escaped(e, set()), "the %s secret is percent-encoded before it enters the key (RFC 5849 §3.4.2)" % label,
              construct="%s secret enters the key unencoded" % label)
    # absent token -> empty second part
    core = _strip_wrappers(kel[1])
    if isinstance(core, ast.IfExp):
        ck.ob("C48.key", fi, kel[1], q.dotted(core.test) == p_token and isinstance(_strip_wrappers(core.orelse), ast.Constant) and _strip_wrappers(core.orelse).value in ("", b""), "without a token the second key part is empty (the '&' stays)")
    elif p_token in q.names_in(core):
        raise AnalysisError("%s: second key part is not conditional on the token (unknown idiom)" % fi.qualname)


def _classify_quote(ck, fi, call, env=None, depth=0):
    """('quote'|'quote_plus', safe-set ok?) for a call that percent-encodes, resolving tornado helper functions
    (escape.url_escape -> urllib.parse.quote_plus/quote chosen by its `plus` argument).  AnalysisError if unknown."""
    env = env or {}
    f = call.func
    nm = q.dotted(f) or ""
    last = nm.split(".")[-1]
    if last in ("quote", "quote_plus") and ("parse" in nm or "urllib" in nm or (nm == last and unique_def(fi, last) is None)):
        r = _safe_ok(call)
        if r is None:
            raise AnalysisError("quote() with a non-constant safe set in %s" % fi.qualname)
        return last, r
    if isinstance(f, ast.Name):
        d = unique_def(fi, f.id)
        if isinstance(d, ast.IfExp):
            try:
                pick = d.body if q.fold(d.test, env) else d.orelse
            except q.NotFoldable as e:
                raise AnalysisError("cannot decide which quoting function %s selects (%s)" % (fi.qualname, e))
            return _classify_quote(ck, fi, ast.Call(func=pick, args=call.args, keywords=call.keywords), env, depth)
        if d is not None and isinstance(d, (ast.Attribute, ast.Name)):
            return _classify_quote(ck, fi, ast.Call(func=d, args=call.args, keywords=call.keywords), env, depth)
    # a tornado helper: module function of this module or of tornado/escape.py
    target = None
    if isinstance(f, ast.Name) and ck.repo.has_func(fi.file, f.id):
        target = ck.repo.func(fi.file, f.id)
    elif isinstance(f, ast.Attribute) and q.dotted(f.value) == "escape" and ck.repo.has_func("tornado/escape.py", f.attr):
        target = ck.repo.func("tornado/escape.py", f.attr)
    if target is None or depth >= 2:
        raise AnalysisError("%s: percent-encoding through %s is not understood" % (fi.qualname, nm or q.unparse(f)))
    ck.use(target)
    # bind constant arguments / defaults of the helper
    a = target.node.args
    pnames = [x.arg for x in a.args]
    henv = {}
    defaults = dict(zip(pnames[len(pnames) - len(a.defaults):], a.defaults))
    for pn, dv in defaults.items():
        if isinstance(dv, ast.Constant):
            henv[pn] = dv.value
    for i, av in enumerate(call.args):
        if i < len(pnames):
            henv.pop(pnames[i], None)
            if isinstance(av, ast.Constant):
                henv[pnames[i]] = av.value
    for kw in call.keywords:
        henv.pop(kw.arg, None)
        if isinstance(kw.value, ast.Constant):
            henv[kw.arg] = kw.value.value
    rets = [r for r in own_nodes(target.node) if isinstance(r, ast.Return) and r.value is not None]
    if len(rets) != 1 or not isinstance(rets[0].value, ast.Call):
        raise AnalysisError("%s: helper %s is not a single `return <call>`" % (fi.qualname, target.qualname))
    return _classify_quote(ck, target, rets[0].value, henv, depth + 1)


def rule_escape_fn(ck):
    fi = ck.func(F, "_oauth_escape")
    rets = [r for r in own_nodes(fi.node) if isinstance(r, ast.Return) and r.value is not None]
    if len(rets) != 1:
        raise AnalysisError("_oauth_escape is not a single-return function")
    rv = resolve_local(fi, rets[0].value)
    if not isinstance(rv, ast.Call):
        raise AnalysisError("_oauth_escape does not return the result of an encoding call")
    kind, safe = _classify_quote(ck, fi, rv)
    ck.ob("C48.escape-unreserved", fi, rv, kind == "quote" and safe, "_oauth_escape percent-encodes with urllib.parse.quote leaving only RFC 3986 unreserved characters unescaped (resolved: %s, safe set ok: %s; quote_plus turns ' ' into '+', the default safe='/' keeps '/')" % (kind, safe))
    n = 1
    for rel_fn in SIGS:
        f = ck.func(F, rel_fn)
        for c in q.calls(f.node):
            nm = (q.dotted(c.func) or "").split(".")[-1]
            if nm in ("quote", "quote_plus"):
                n += 1
                kind2, safe2 = _classify_quote(ck, f, c)
                ck.ob("C48.escape-unreserved", f, c, kind2 == "quote" and safe2, "percent-encoding leaves only RFC 3986 unreserved characters unescaped (safe ⊆ '-._~'; quote_plus / default safe='/' are wrong)")
    # text is encoded as UTF-8 before quoting (or quote's default utf-8 is used)
    for c in q.calls(fi.node):
        if isinstance(c.func, ast.Attribute) and c.func.attr == "encode":
            enc = c.args[0] if c.args else q.kwarg(c, "encoding")
            ck.ob("C48.escape-unreserved", fi, c, enc is None or (isinstance(enc, ast.Constant) and str(enc.value).lower().replace("_", "-") in ("utf-8", "utf8")), "text is encoded as UTF-8 before percent-encoding")


CALLERS = ("OAuthMixin._oauth_request_token_url", "OAuthMixin._oauth_access_token_url", "OAuthMixin._oauth_request_parameters")


def rule_call_sites(ck):
    total = 0
    for qn in CALLERS:
        fi = ck.func(F, qn)
        sites = {s: call_sites(fi, s) for s in SIGS}
        for s in SIGS:
            if len(sites[s]) != 1:
                raise AnalysisError("%s: expected one call of %s" % (qn, s))
        (na, ca), (nb, cb) = sites[SIGS[0]][0], sites[SIGS[1]][0]
        total += 2
        a_args = [q.unparse(x) for x in ca.args] + ["%s=%s" % (k.arg, q.unparse(k.value)) for k in ca.keywords]
        b_args = [q.unparse(x) for x in cb.args] + ["%s=%s" % (k.arg, q.unparse(k.value)) for k in cb.keywords]
        ck.ob("C48.call-sites", fi, ca, a_args == b_args, "the 1.0 and the 1.0a variant are given the same (consumer, method, url, parameters, token)")
        # the token is passed wherever the function has one
        tok_params = [p for p in fi.params() if p in ("request_token", "access_token")]
        for c in (ca, cb):
            if tok_params:
                t = q.arg(c, 4, "token")
                ck.ob("C48.call-sites", fi, c, t is not None and q.dotted(t) == tok_params[0], "the token whose secret keys the signature is passed on")
        # signed dict: nothing but the signature is added after signing
        for node, c in (sites[SIGS[0]][0], sites[SIGS[1]][0]):
            pa_ = q.arg(c, 3, "parameters")
            d = q.dotted(pa_) if pa_ is not None else None
            if d is None:
                raise AnalysisError("%s: parameters argument is not a local name" % qn)
            later = []
            cfg = fi.cfg
            reach, stack = set(), [node.id]
            while stack:
                x = stack.pop()
                for y, _k in cfg.succ[x]:
                    if y not in reach:
                        reach.add(y)
                        stack.append(y)
            for cn in cfg.stmt_nodes(lambda m: m.id in reach and m.id != node.id):
                roots = [cn.ast] if cn.kind in ("stmt", "test") else []
                for root in roots:
                    for n in q.walk_local(root):
                        if isinstance(n, ast.Assign) and any(p == d + "[]" for p in q.assigned_paths(n)):
                            t = n.targets[0]
                            if not (isinstance(t, ast.Subscript) and q.is_const(t.slice, "oauth_signature")):
                                later.append(n)
                        elif isinstance(n, ast.Call) and isinstance(n.func, ast.Attribute) and q.dotted(n.func.value) == d and n.func.attr in ("update", "setdefault", "pop", "clear"):
                            later.append(n)
            ck.ob("C48.call-sites", fi, later[0] if later else c, not later, "the parameter dict is not changed after it was signed (except for adding oauth_signature)", construct=None if later else "unchanged-after-signing " + d)
        # what is signed is what the function was given: its own url/method/parameters reach the signature call
        fparams = [p for p in fi.params() if p != "self"]
        for c in (ca, cb):
            if "method" in fparams:
                ck.ob("C48.call-sites", fi, c, q.dotted(q.arg(c, 1, "method")) == "method", "the request's own HTTP method is signed (not a fixed verb)", construct="method-passed " + q.unparse(c.func))
            if "url" in fparams:
                ck.ob("C48.call-sites", fi, c, q.dotted(q.arg(c, 2, "url")) == "url", "the request's own URL is signed", construct="url-passed " + q.unparse(c.func))
        if "parameters" in fparams:
            pa_ = q.arg(ca, 3, "parameters")
            d = q.dotted(pa_) if pa_ is not None else None
            def _display_merges(v_):
                """{**a, **parameters} / dict(a, **parameters) / a | parameters"""
                if isinstance(v_, ast.Dict):
                    return any(k_ is None and q.dotted(x_) == "parameters" for k_, x_ in zip(v_.keys, v_.values))
                if isinstance(v_, ast.Call) and q.dotted(v_.func) == "dict":
                    return any(q.dotted(a_) == "parameters" for a_ in v_.args) or any(k_.arg is None and q.dotted(k_.value) == "parameters" for k_ in v_.keywords)
                if isinstance(v_, ast.BinOp) and isinstance(v_.op, ast.BitOr):
                    return _display_merges(v_.left) or _display_merges(v_.right) or "parameters" in (q.dotted(v_.left), q.dotted(v_.right))
                return False

            is_merge = lambda n: n.kind == "stmt" and (any(isinstance(x, ast.Call) and isinstance(x.func, ast.Attribute) and x.func.attr == "update" and q.dotted(x.func.value) == d
                                                           and x.args and q.dotted(x.args[0]) == "parameters" for x in q.walk_local(n.ast))
                                                       or (isinstance(n.ast, (ast.Assign, ast.AugAssign)) and d in q.assigned_paths(n.ast) and (_display_merges(n.ast.value) or (isinstance(n.ast, ast.AugAssign) and q.dotted(n.ast.value) == "parameters"))))
            ef = event_facts(fi, {"merged": is_merge}, cond_facts=False)
            for node, c in (sites[SIGS[0]][0], sites[SIGS[1]][0]):
                ok_m = d == "parameters" or ("@merged", True) in ef[node.id]
                if not ok_m and any("parameters" in q.names_in(st_) and d in (q.names_in(st_) | q.assigned_paths(st_)) for st_ in own_nodes(fi.node) if isinstance(st_, ast.stmt) and st_ is not q.enclosing_stmt(q.parent_map(fi.node), c)):
                    raise AnalysisError("%s: how `parameters` gets into %s is not recognised" % (qn, d))
                ck.ob("C48.call-sites", fi, c, ok_m, "the request's own parameters are part of the signed dict on every path", construct="parameters-signed " + q.unparse(c.func))
    ck.floor("C48.call-sites", total, 6, "signature call sites")


def run(ck):
    ck.repo = strip_annotations(ck.repo, F)
    ck.rule("C48.hmac-sha1", "signature = base64(HMAC-SHA1(key, base string)) without trailing newline")
    ck.rule("C48.base-string", "base string = '&'.join(_oauth_escape(x) for x in [METHOD.upper(), normalised URL, parameter string])")
    ck.rule("C48.url-normalized", "normalised URL = scheme.lower() + '://' + netloc.lower() + path (no query/fragment)")
    ck.rule("C48.param-format", "parameter string = '&'.join of name=value")
    ck.rule("C48.params-sorted", "parameters are sorted and are the request's parameters")
    ck.rule("C48.param-names-escaped", "every parameter name is percent-encoded")
    ck.rule("C48.param-values-escaped", "every parameter value is percent-encoded")
    ck.rule("C48.key", "key = consumer secret '&' token secret (empty when absent), in that order")
    ck.rule("C48.key-parts-encoded", "both key parts are percent-encoded")
    ck.rule("C48.escape-unreserved", "quote() keeps only unreserved characters safe; _oauth_escape quotes UTF-8")
    ck.rule("C48.call-sites", "1.0 and 1.0a are called alike, with the token, and the signed dict is not changed afterwards")
    global _CK
    _CK = ck
    for s in SIGS:
        check_signature_fn(ck, ck.func(F, s))
    rule_escape_fn(ck)
    rule_call_sites(ck)


# ---------------------------------------------------------------------------
# mutants


def _m(qn, edit):
    return lambda repo: mutate(repo, F, qn, edit)


def _src(n):
    return ast.unparse(n)


def _unescape_values(root):
    class T(ast.NodeTransformer):
        done = False

        def visit_FormattedValue(self, node):
            if not self.done and isinstance(node.value, ast.Call) and _src(node.value.func) == "_oauth_escape" and "v" in _src(node.value):
                self.done = True
                return ast.FormattedValue(value=parse_expr("str(v)"), conversion=-1, format_spec=None)
            return node

    t = T()
    t.visit(root)
    return t.done


def _swap_key_parts(root):
    idx = [i for i, st in enumerate(root.body) if "key_elems" in _src(st) and not _src(st).startswith("key =")]
    if len(idx) < 2:
        return False
    a, b = idx[0], idx[1]
    first = root.body[a].value.elts[0]
    second = root.body[b].value.args[0]
    root.body[a].value.elts[0] = second
    root.body[b].value.args[0] = first
    return True


MUTANTS = [
    ("seeded C48-adv1: normalised URL lower-cases the path too", _m("_oauth10a_signature", replace_expr(lambda n: isinstance(n, ast.Name) and n.id == "path" and isinstance(n.ctx, ast.Load), lambda n: parse_expr("path.lower()"))), "C48.url-normalized"),
    ("request parameters always signed as GET", _m("OAuthMixin._oauth_request_parameters", replace_expr(lambda n: isinstance(n, ast.Name) and n.id == "method" and isinstance(n.ctx, ast.Load), lambda n: ast.Constant(value="GET"), limit=2)), "C48.call-sites"),
    ("request's own parameters left out of the signed dict", _m("OAuthMixin._oauth_request_parameters", remove_stmts(lambda st: _src(st) == "args.update(parameters)")), "C48.call-sites"),
    ("1.0a: parameter values not escaped", _m("_oauth10a_signature", _unescape_values), "C48.param-values-escaped"),
    ("seeded C48-adv3: formatted name=value strings sorted instead of the pairs", _m("_oauth_signature", replace_expr(lambda n: isinstance(n, ast.Call) and isinstance(n.func, ast.Attribute) and n.func.attr == "join" and "parameters.items" in _src(n), lambda n: parse_expr("'&'.join(sorted(f'{k}={_oauth_escape(str(v))}' for k, v in parameters.items()))"))), "C48.params-sorted"),
    ("1.0: parameters not sorted", _m("_oauth_signature", replace_expr(lambda n: isinstance(n, ast.Call) and _src(n.func) == "sorted", lambda n: n.args[0])), "C48.params-sorted"),
    ("seeded C48-adv5: URL normalisation moved to a helper that rebuilds the authority from hostname/port", lambda repo: mutate(repo, F, None, _normalize_helper), "C48.url-normalized"),
    ("1.0a: authority not lower-cased", _m("_oauth10a_signature", replace_expr(lambda n: isinstance(n, ast.Call) and _src(n) == "netloc.lower()", lambda n: ast.Name(id="netloc", ctx=ast.Load()))), "C48.url-normalized"),
    ("1.0a: whole URL (with query) signed instead of the normalised one", _m("_oauth10a_signature", replace_expr(lambda n: isinstance(n, ast.Call) and _src(n) == "base_elems.append(normalized_url)", lambda n: parse_expr("base_elems.append(url)"))), "C48.url-normalized"),
    ("1.0a: path lower-cased too", _m("_oauth10a_signature", replace_stmt(lambda st: isinstance(st, ast.Assign) and _src(st).startswith("normalized_url ="), lambda st: [parse_stmt("normalized_url = (scheme + '://' + netloc + path).lower()")])), "C48.url-normalized"),
    ("1.0a: method not upper-cased", _m("_oauth10a_signature", replace_expr(lambda n: isinstance(n, ast.Call) and _src(n) == "method.upper()", lambda n: ast.Name(id="method", ctx=ast.Load()))), "C48.base-string"),
    ("1.0a: base string components joined unescaped", _m("_oauth10a_signature", replace_expr(lambda n: isinstance(n, ast.GeneratorExp) and _src(n.elt) == "_oauth_escape(e)", lambda n: ast.Name(id="base_elems", ctx=ast.Load()))), "C48.base-string"),
    ("seeded C48-adv4: key parts quoted with the default safe='/'", _m("_oauth10a_signature", replace_expr(lambda n: isinstance(n, ast.Call) and _src(n.func) == "urllib.parse.quote" and n.keywords, lambda n: ast.Call(func=n.func, args=n.args, keywords=[]), limit=2)), "C48.key-parts-encoded"),
    ("1.0a: token secret not percent-encoded in the key", _m("_oauth10a_signature", replace_expr(lambda n: isinstance(n, ast.Call) and _src(n) == "urllib.parse.quote(token['secret'], safe='~')", lambda n: parse_expr("token['secret']"))), "C48.key-parts-encoded"),
    ("seeded C48-adv6: token part appended only when a token is given (trailing '&' lost)", _m("_oauth_signature", replace_stmt(lambda st: isinstance(st, ast.Expr) and _src(st).startswith("key_elems.append("), lambda st: [parse_stmt("if token:\n    key_elems.append(escape.utf8(token['secret']))")])), "C48.key"),
    ("1.0a: key parts swapped", _m("_oauth10a_signature", _swap_key_parts), "C48.key"),
    ("_oauth_escape keeps '/' unescaped", _m("_oauth_escape", replace_expr(lambda n: isinstance(n, ast.Constant) and n.value == "~", lambda n: ast.Constant(value="/~"))), "C48.escape-unreserved"),
    ("seeded C48-adv2: _oauth_escape delegates to escape.url_escape (quote_plus)", _m("_oauth_escape", replace_stmt(lambda st: isinstance(st, ast.Return), lambda st: [parse_stmt("return escape.url_escape(val)")])), "C48.escape-unreserved"),
    ("_oauth_escape via url_escape(plus=False): '/' left unescaped", _m("_oauth_escape", replace_stmt(lambda st: isinstance(st, ast.Return), lambda st: [parse_stmt("return escape.url_escape(val, plus=False)")])), "C48.escape-unreserved"),
    ("_oauth_escape uses quote_plus", _m("_oauth_escape", replace_expr(lambda n: isinstance(n, ast.Attribute) and n.attr == "quote", lambda n: ast.Attribute(value=n.value, attr="quote_plus", ctx=ast.Load()))), "C48.escape-unreserved"),
    ("1.0a: SHA-256 instead of SHA-1", _m("_oauth10a_signature", replace_expr(lambda n: isinstance(n, ast.Attribute) and n.attr == "sha1", lambda n: ast.Attribute(value=n.value, attr="sha256", ctx=ast.Load()))), "C48.hmac-sha1"),
    ("1.0a: trailing newline of b2a_base64 kept", _m("_oauth10a_signature", replace_stmt(lambda st: isinstance(st, ast.Return), lambda st: [parse_stmt("return binascii.b2a_base64(hash.digest())")])), "C48.hmac-sha1"),
    ("request parameters signed without the token secret", _m("OAuthMixin._oauth_request_parameters", replace_expr(lambda n: isinstance(n, ast.Call) and _src(n.func) == "_oauth10a_signature", lambda n: parse_expr("_oauth10a_signature(consumer_token, method, url, args)"))), "C48.call-sites"),
    ("extra params merged after signing", _m("OAuthMixin._oauth_request_token_url", lambda root: _move_update_after(root)), "C48.call-sites"),
    ("1.0a: '=' between name and value also escaped away (pairs joined with ',')", _m("_oauth10a_signature", replace_expr(lambda n: isinstance(n, ast.Constant) and n.value == "=", lambda n: ast.Constant(value=":"))), "C48.param-format"),
]


def _move_update_after(root):
    for n in ast.walk(root):
        if isinstance(n, ast.If) and "_OAUTH_VERSION" in _src(n.test):
            upd = [st for st in n.body if isinstance(st, ast.If) and _src(st.test) == "extra_params"]
            if not upd:
                return False
            n.body.remove(upd[0])
            n.body.append(upd[0])
            return True
    return False


def _to_helper(tree, body_src):
    done = 0
    for fn in tree.body:
        if isinstance(fn, ast.FunctionDef) and fn.name in SIGS:
            keep = []
            for st in fn.body:
                src = _src(st)
                if src.startswith("parts = urllib.parse.urlparse(url)") or src.startswith("scheme, netloc, path = parts[:3]"):
                    continue
                if src.startswith("normalized_url ="):
                    keep.append(parse_stmt("normalized_url = _oauth_normalize_url(url)"))
                    done += 1
                    continue
                keep.append(st)
            fn.body = keep
    tree.body.append(ast.parse(body_src).body[0])
    return done == 2


def _normalize_helper(tree):
    return _to_helper(tree, "def _oauth_normalize_url(url):\n    parts = urllib.parse.urlparse(url)\n    host = parts.hostname or ''\n    if parts.port is not None:\n        host = '%s:%d' % (host, parts.port)\n    return parts.scheme.lower() + '://' + host + parts.path\n")
