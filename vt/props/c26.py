"""C26 - static file serving never leaves its root directory.

Decided statically (DESIGN.md section 4, C26):

* ``StaticFileHandler.get`` - typestate over every CFG path: a call that touches
  the filesystem (derived: methods of the class that transitively reach
  ``os.stat``/``open``/``os.path.*`` predicates, resolved through the MRO) is
  reached only after ``self.absolute_path = self.validate_absolute_path(self.root, <result of
  get_absolute_path>)`` and after the ``is None`` test; no such call receives the
  unvalidated path.
* ``validate_absolute_path`` - typestate: the containment test
  ``(path [+ sep]).startswith(root)`` is evaluated with a separator-terminated
  root (so that a sibling directory sharing the prefix does not match) and its
  success edge dominates ``isdir``/``exists``/``isfile``, the redirect and every
  return of a path; the path is afterwards only extended by a configured file
  name; the failing edge ends in ``HTTPError(403|404)``.
* ``get_absolute_path`` normalises (``abspath(join(root, path))``), so the tested
  string has no ``..`` left.
* who-may-write ``self.absolute_path`` / ``self.root``; every filesystem primitive
  of the class receives the validated path (or a parameter that does).
"""
from __future__ import annotations

import ast

from .. import q
from ..cfg import explore, canon_fact
from ..model import AnalysisError
from ..mutate import mutate, remove_stmts, replace_expr, replace_stmt, parse_stmt, parse_expr
from ..rules import tainted_names, mentions, writers_of
from ..x_secflow import Reach, same, own_nodes, concat_canon, positional_call, scalar_const, unwalrus

TECHNIQUE = "typestate exploration on the CFGs of StaticFileHandler.get and validate_absolute_path (validated / contained / separator-terminated), derived filesystem-touching call set through the MRO, provenance of filesystem arguments, who-may-write"
EXPLANATION = (
    "explore() over StaticFileHandler.get with state raw -> maybe-None -> validated; governed sites are calls to methods that transitively reach a filesystem primitive. "
    "explore() over validate_absolute_path with state (contained, root ends with separator); governed sites are filesystem predicates, the redirect and value returns; "
    "the failing edge of the containment test must end in HTTPError(403|404). Summary of get_absolute_path (normalising). Writers of self.absolute_path/self.root; "
    "provenance of every filesystem primitive's path argument in the class."
)
NOT_DECIDED = (
    "symbolic links and OS-specific normalisation (os.path.abspath is trusted to remove '..' and doubled separators), NUL bytes (the OS call rejects them), "
    "subclasses overriding get_absolute_path/validate_absolute_path, the open-redirect guard of the directory redirect (C28), URL decoding before get() is called"
)
LEVEL_NOTE = "Structural necessary conditions only; the configured root and default_filename are trusted configuration."

W = "tornado/web.py"
SF = "StaticFileHandler"
RH = "RequestHandler"
FS_PRIMS = {
    "os.stat", "os.lstat", "open", "io.open", "os.open", "os.listdir", "os.scandir", "os.path.isdir", "os.path.isfile", "os.path.exists", "os.path.lexists",
    "os.path.getsize", "os.path.getmtime", "os.path.islink", "os.access", "os.readlink",
}
SEPS = ("os.path.sep", "os.sep")
NORMALISERS = ("os.path.abspath", "os.path.realpath", "os.path.normpath")


def is_fs_prim(x):
    return isinstance(x, ast.Call) and q.dotted(x.func) in FS_PRIMS


def is_sep(e):
    # "/" is a separator on every supported platform (os.sep on POSIX, os.altsep on Windows)
    return q.dotted(e) in SEPS or (isinstance(e, ast.Constant) and e.value == "/")


def self_call_name(x):
    """``self.m(...)`` / ``cls.m(...)`` -> m"""
    if isinstance(x, ast.Call) and isinstance(x.func, ast.Attribute) and isinstance(x.func.value, ast.Name) and x.func.value.id in ("self", "cls"):
        return x.func.attr
    return None


def resolve_method(repo, name):
    for cls in (SF, RH):
        if repo.has_func(W, cls + "." + name):
            return repo.func(W, cls + "." + name)
    return None


def fs_touching(repo):
    """Names of methods (resolved StaticFileHandler-first) that transitively reach a filesystem primitive."""
    cache = {}

    def touches(name, stack=()):
        if name in cache:
            return cache[name]
        if name in stack:
            return False
        fi = resolve_method(repo, name)
        if fi is None:
            cache[name] = False
            return False
        res = False
        for x in own_nodes(fi.node):
            if is_fs_prim(x):
                res = True
                break
            m = self_call_name(x)
            if m and touches(m, stack + (name,)):
                res = True
                break
        cache[name] = res
        return res

    names = {f.qualname.split(".", 1)[1] for f in repo.direct_methods(W, SF)} | {f.qualname.split(".", 1)[1] for f in repo.direct_methods(W, RH)}
    return {n for n in names if touches(n)}


def node_calls(n):
    from ..cfg import _node_roots

    if n.ast is None or n.kind not in ("stmt", "test", "for", "with"):
        return []
    return [x for root in _node_roots(n) for x in q.walk_local(root) if isinstance(x, ast.Call)]


# ---------------------------------------------------------------------------
# get


def check_get(ck, get, touching, validator="validate_absolute_path", joiner="get_absolute_path"):
    cfg = get.cfg
    rd = Reach(get)
    # the paths that receive the validator's result (directly or through a plain copy)
    aliases = set()
    vnodes = []
    assigns = cfg.stmt_nodes(lambda n: n.kind == "stmt" and isinstance(n.ast, ast.Assign))
    loose = []
    for n in assigns:
        if self_call_name(n.ast.value) == validator:
            aliases |= q.assigned_paths(n.ast)
            vnodes.append(n)
        elif any(self_call_name(x) == validator for x in ast.walk(n.ast.value)):
            # the validator's result is only one of several values stored (conditional expression, `or` fallback ...)
            aliases |= q.assigned_paths(n.ast)
            loose.append(n)
    # the validator's result bound by an assignment expression inside a test: `if (p := self.validate...(..)) is None:`
    wal = {}
    for n in cfg.stmt_nodes(lambda n: n.kind == "test"):
        for x in q.walk_local(n.ast):
            if isinstance(x, ast.NamedExpr) and self_call_name(x.value) == validator and isinstance(x.target, ast.Name):
                aliases.add(x.target.id)
                vnodes.append(n)
                wal[n.id] = x
    for n in loose:
        ck.ob("C26.get-validated", get, n.ast, False, "the value stored is the validator's result on every path, not an expression that can bypass it")
    ck.floor("C26.get-validated", len(vnodes) + len(loose), 1, "assignments from validate_absolute_path in get")
    changed = True
    while changed:
        changed = False
        for n in assigns:
            if q.dotted(n.ast.value) in aliases and not q.assigned_paths(n.ast) <= aliases:
                aliases |= q.assigned_paths(n.ast)
                changed = True
    attrs = sorted(p for p in aliases if p.startswith("self."))
    ck.need(len(attrs) == 1, "get: the validator's result is not stored in exactly one attribute of self (%s)" % attrs)
    attr = attrs[0]
    vids = {n.id for n in vnodes}

    # state: (status of the validator result, does the attribute currently hold it)
    def transfer(n, val):
        status, held = val
        if n.kind == "test" and n.id in wal:
            return ("maybe", False)
        if n.kind in ("stmt", "for", "with") and n.ast is not None and isinstance(n.ast, ast.stmt):
            ap = q.assigned_paths(n.ast)
            if n.id in vids:
                status = "maybe"
                held = attr in ap
            elif isinstance(n.ast, ast.Assign) and q.dotted(n.ast.value) in aliases and attr in ap:
                held = True
            elif attr in ap:
                held = False
            elif ap & aliases and not (isinstance(n.ast, ast.Assign) and q.dotted(n.ast.value) in aliases):
                status = "raw"
        return (status, held)

    def test_expr(n):
        """The test, looking through a named boolean (``missing = self.absolute_path is None``)."""
        e = unwalrus(n.ast)
        if isinstance(e, ast.Name) and e.id not in aliases:
            d = rd.unique(n, e.id)
            if d is not None and d.kind == "assign" and isinstance(d.value, (ast.Compare, ast.UnaryOp, ast.BoolOp)) and not any(isinstance(x, ast.Call) for x in ast.walk(d.value)):
                return d.value
        return e

    def edge(n, kind, val):
        status, held = val
        if n.kind == "test" and kind in ("true", "false"):
            e = test_expr(n)
            if isinstance(e, ast.BoolOp):
                if any(q.dotted(x) in aliases for x in ast.walk(e) if isinstance(x, (ast.Name, ast.Attribute))):
                    raise AnalysisError("get: compound named condition on the validator's result is not understood: %s" % q.unparse(e)[:80])
                return val
            t, pol = canon_fact(e, kind == "true")
            hit = False
            for a in aliases:
                if t == a + " is None" or t == a:
                    hit = True
                    if (t == a + " is None" and not pol) or (t == a and pol):
                        if status == "maybe":
                            status = "ok"
            if not hit and any(q.dotted(x) in aliases for x in ast.walk(e) if isinstance(x, (ast.Name, ast.Attribute))):
                raise AnalysisError("get: test on the validator's result in a shape the rule does not understand: %s" % q.unparse(e)[:80])
        return (status, held)

    seen = explore(cfg, ("raw", False), transfer, lambda t: False, edge_transfer=edge)
    tainted = tainted_names(get, ["path", "self.path"], sanitizers=[validator])
    governed = 0
    for n in cfg.stmt_nodes():
        for c in node_calls(n):
            m = self_call_name(c)
            prim = is_fs_prim(c)
            if not prim and not (m in touching and m not in (validator, joiner)):
                continue
            if n.id in vids:
                continue
            governed += 1
            states = {"%s%s" % (v[0], "" if v[1] else "/attribute-not-set") for _f, v in seen.get(n.id, ())}
            what = q.unparse(c.func)
            ck.ob("C26.get-validated", get, c, states == {"ok"}, "%s() touches the filesystem: reached only after %s = %s(...) and the 'is None' return (states here: %s)" % (what, attr, validator, sorted(states)))
            bad = [a for a in list(c.args) + [k.value for k in c.keywords] if mentions(a, tainted)]
            ck.ob("C26.get-flow", get, c, not bad, "%s() receives no unvalidated path%s" % (what, "" if not bad else " (got %s)" % q.unparse(bad[0])), construct="args of " + q.normalize_construct(c, q.local_names(get.node))[:120])
    ck.floor("C26.get-validated", governed, 4, "filesystem-touching calls in get")
    # the validator's arguments
    for n in vnodes:
        c = positional_call(wal[n.id].value if n.id in wal else n.ast.value, [p_ for p_ in ck.repo.func(W, SF + "." + validator).params() if p_ not in ("self", "cls")])
        ck.need(len(c.args) == 2 and not c.keywords, "get: %s called with unexpected arguments" % validator)
        root = rd.expand(c.args[0], n)
        if q.dotted(root) != "self.root" and not isinstance(root, ast.Constant) and not (q.dotted(root) or "").startswith("self."):
            raise AnalysisError("get: cannot establish which root the validator is given (%s)" % q.unparse(root)[:60])
        ck.ob("C26.get-flow", get, c, q.dotted(root) == "self.root", "the validator is given the configured root (self.root)", construct="validator root")
        cand = rd.expand(c.args[1], n)
        if self_call_name(cand) == joiner:
            cand = positional_call(cand, [p_ for p_ in ck.repo.func(W, SF + "." + joiner).params() if p_ not in ("self", "cls")])
        ok = self_call_name(cand) == joiner and len(cand.args) == 2
        if not ok and any(isinstance(x, ast.Call) and q.dotted(x.func) not in ("os.path.join",) for x in ast.walk(cand)):
            raise AnalysisError("get: the path handed to the validator is computed in a way the rule does not understand (%s)" % q.unparse(cand)[:60])
        ck.ob("C26.get-flow", get, c, ok, "the validator is given the result of %s (normalised join of root and request path)" % joiner, construct="validator candidate")
        if ok:
            ck.ob("C26.get-flow", get, c, q.dotted(cand.args[0]) == "self.root", "%s joins onto the configured root" % joiner, construct="join root")
    return attr, aliases


# ---------------------------------------------------------------------------
# get_absolute_path


def check_joiner(ck, fi):
    rd = Reach(fi)
    params = [p for p in fi.params() if p not in ("self", "cls")]
    ck.need(len(params) == 2, "get_absolute_path: unexpected signature")
    rets = fi.cfg.stmt_nodes(lambda n: n.kind == "stmt" and isinstance(n.ast, ast.Return))
    ck.floor("C26.abs-normalised", len(rets), 1, "returns of get_absolute_path")
    for r in rets:
        E = rd.expand(r.ast.value, r) if r.ast.value is not None else None
        ok = isinstance(E, ast.Call) and q.dotted(E.func) in NORMALISERS and len(E.args) == 1
        if not ok and isinstance(E, ast.Call) and q.dotted(E.func) not in ("os.path.join", "os.path.expanduser", "os.path.expandvars", "urllib.parse.unquote", "str", "os.fspath"):
            raise AnalysisError("get_absolute_path: returns the result of %s, which the rule cannot classify as normalising or not" % q.unparse(E.func))
        ck.ob("C26.abs-normalised", fi, r.ast, ok, "the returned path is os.path.abspath/realpath/normpath(...) of the join, so no '..' segment survives into the containment test")
        if ok:
            names = {x.id for x in ast.walk(E.args[0]) if isinstance(x, ast.Name)}
            ck.ob("C26.abs-normalised", fi, r.ast, set(params) <= names, "the normalised expression is built from both the root and the request path", construct="join operands")


# ---------------------------------------------------------------------------
# validate_absolute_path


PARDIRS = ("os.path.pardir", "os.pardir")
LOSSY_STR = {"lower", "upper", "casefold", "swapcase", "title", "capitalize", "strip", "lstrip", "rstrip", "replace", "translate"}


def is_pardir(e):
    return q.dotted(e) in PARDIRS or (isinstance(e, ast.Constant) and e.value == "..")


class Validator:
    """Recognisers for validate_absolute_path, relative to its reaching definitions."""

    def __init__(self, fi):
        self.fi = fi
        self.cfg = fi.cfg
        self.rd = Reach(fi)
        params = [p for p in fi.params() if p != "self"]
        if len(params) != 2:
            raise AnalysisError("validate_absolute_path: unexpected signature")
        self.Rp, self.X = params
        # names derived from the root only / relpath(path, root) results
        self.rootvars = {self.Rp}
        self.relvars = set()
        self.pathvars = set()  # locals computed from the path only (``candidate = absolute_path + os.path.sep``)
        changed = True
        while changed:
            changed = False
            for d in self.rd.defs:
                if d.kind not in ("assign", "aug") or d.value is None or "." in d.path:
                    continue
                names = {x.id for x in ast.walk(d.value) if isinstance(x, ast.Name)}
                v = d.value
                if isinstance(v, ast.Call) and q.dotted(v.func) == "os.path.relpath" and len(v.args) == 2 and isinstance(v.args[0], ast.Name) and v.args[0].id == self.X and isinstance(v.args[1], ast.Name) and v.args[1].id in self.rootvars:
                    if d.path not in self.relvars:
                        self.relvars.add(d.path)
                        changed = True
                elif (names & self.rootvars or (d.kind == "aug" and d.path in self.rootvars)) and self.X not in names and not (names & self.relvars) and not (names & self.pathvars) and d.path != self.X and d.path not in self.rootvars:
                    self.rootvars.add(d.path)
                    changed = True
                elif d.kind == "assign" and (self.X in names or names & self.pathvars) and not (names & self.rootvars) and not (names & self.relvars) and d.path != self.X and d.path not in self.pathvars \
                        and not isinstance(v, (ast.Compare, ast.BoolOp)) and not (isinstance(v, ast.Call) and isinstance(v.func, ast.Attribute) and v.func.attr in ("startswith", "endswith")) \
                        and not any(is_fs_prim(x) for x in ast.walk(v)):
                    self.pathvars.add(d.path)
                    changed = True

    def sep(self, e, node):
        if is_sep(e):
            return True
        if isinstance(e, ast.Name):
            d = self.rd.unique(node, e.id)
            if d is not None:
                return d.kind == "assign" and d.value is not None and is_sep(d.value)
            mv = self.fi.module.assigns.get(e.id)  # module-level constant
            return mv is not None and not self.rd.defs_at(node, e.id) and is_sep(mv)
        d_ = q.dotted(e)
        if d_ and d_.split(".")[0] in ("self", "cls") and len(d_.split(".")) == 2 and self.fi.cls is not None:
            for st in self.fi.cls.body:  # class-level constant
                if isinstance(st, ast.Assign) and any(isinstance(t, ast.Name) and t.id == d_.split(".")[1] for t in st.targets):
                    return is_sep(st.value)
        return False

    def pardir_prefix(self, e, node):
        """'..' -> 'bare', '..' + sep -> 'sep'"""
        if is_pardir(e):
            return "bare"
        if isinstance(e, ast.Constant) and e.value in ("../", "..\\"):
            return "sep"
        if isinstance(e, ast.BinOp) and isinstance(e.op, ast.Add) and is_pardir(e.left) and self.sep(e.right, node):
            return "sep"
        if isinstance(e, ast.Name):
            d = self.rd.unique(node, e.id)
            if d is not None and d.kind == "assign" and d.value is not None and not isinstance(d.value, ast.Name):
                return self.pardir_prefix(d.value, d.node)
        return None

    def resolved_test(self, n):
        """The test expression, looking through a boolean local whose operands did not change since."""
        e = n.ast
        if isinstance(e, ast.Name):
            d = self.rd.unique(n, e.id)
            if d is not None and d.kind == "assign" and d.value is not None and not isinstance(d.value, (ast.Constant, ast.Name)):
                involved = {x.id for x in ast.walk(d.value) if isinstance(x, ast.Name)}
                if all(self.rd.IN.get(d.node.id, {}).get(v) == self.rd.IN.get(n.id, {}).get(v) for v in involved):
                    return d.value, d.node
        return e, n

    def path_alias_free(self, e, at):
        """Locals that merely hold an expression of the path (unchanged since) replaced by that expression."""
        import copy

        rd, X = self.rd, self.X

        class T(ast.NodeTransformer):
            def visit_Name(self_, node):
                if node.id in self.pathvars and isinstance(node.ctx, ast.Load):
                    d = rd.unique(at, node.id)
                    if d is not None and d.kind == "assign" and d.value is not None:
                        involved = {x.id for x in ast.walk(d.value) if isinstance(x, ast.Name)}
                        if all(rd.IN.get(d.node.id, {}).get(v_) == rd.IN.get(at.id, {}).get(v_) for v_ in involved):
                            return T().visit(copy.deepcopy(d.value))
                    raise AnalysisError("validate_absolute_path: cannot resolve the path-derived local %s" % node.id)
                return node

        return T().visit(copy.deepcopy(e))

    def classify(self, n):
        e, at = self.resolved_test(n)
        e = concat_canon(e)
        if {x.id for x in ast.walk(e) if isinstance(x, ast.Name)} & self.pathvars:
            e = self.path_alias_free(e, at)
        names = {x.id for x in ast.walk(e) if isinstance(x, ast.Name)}
        X = self.X
        rel = names & self.relvars
        roots = names & self.rootvars
        # --- relpath idiom
        if rel and not roots and X not in names:
            if isinstance(e, ast.Call) and isinstance(e.func, ast.Attribute) and e.func.attr == "startswith" and isinstance(e.func.value, ast.Name) and e.func.value.id in rel and len(e.args) == 1:
                k = self.pardir_prefix(e.args[0], at)
                if k:
                    return ("rel-prefix", k)
            if isinstance(e, ast.Compare) and len(e.ops) == 1 and isinstance(e.ops[0], (ast.Eq, ast.NotEq)):
                for a, b in ((e.left, e.comparators[0]), (e.comparators[0], e.left)):
                    if isinstance(a, ast.Name) and a.id in rel and is_pardir(b):
                        return ("rel-eq", isinstance(e.ops[0], ast.Eq))
            raise AnalysisError("validate_absolute_path: test on the relative path in an unknown shape: %s" % q.unparse(e))
        # --- separator termination of a root variable
        if roots and X not in names and not rel:
            if isinstance(e, ast.Call) and isinstance(e.func, ast.Attribute) and e.func.attr == "endswith" and isinstance(e.func.value, ast.Name) and e.func.value.id in roots and len(e.args) == 1 and self.sep(e.args[0], at):
                return ("endsep", e.func.value.id, True)
            if isinstance(e, ast.Compare) and len(e.ops) == 1 and isinstance(e.ops[0], (ast.Eq, ast.NotEq)):
                for a, b in ((e.left, e.comparators[0]), (e.comparators[0], e.left)):
                    if self.sep(b, at) and isinstance(a, ast.Subscript) and isinstance(a.value, ast.Name) and a.value.id in roots:
                        sl = a.slice
                        last = (isinstance(sl, ast.Slice) and sl.upper is None and sl.step is None and isinstance(sl.lower, ast.UnaryOp) and isinstance(sl.lower.op, ast.USub) and isinstance(sl.lower.operand, ast.Constant) and sl.lower.operand.value == 1) \
                            or (isinstance(sl, ast.UnaryOp) and isinstance(sl.op, ast.USub) and isinstance(sl.operand, ast.Constant) and sl.operand.value == 1)
                        if last:
                            return ("endsep", a.value.id, isinstance(e.ops[0], ast.Eq))
            if any(self.sep(x, at) for x in ast.walk(e) if isinstance(x, (ast.Name, ast.Attribute, ast.Constant))):
                raise AnalysisError("validate_absolute_path: test on the root and the separator in an unknown shape: %s" % q.unparse(e))
            return None
        if not (roots and X in names):
            return None
        # --- tests relating the path and the root
        if isinstance(e, ast.Call) and isinstance(e.func, ast.Attribute) and e.func.attr == "startswith" and len(e.args) == 1:
            v, arg = e.func.value, e.args[0]
            # os.path.normcase is the platform's own notion of path equality: look through it; any other
            # transformation of either operand (case folding, stripping, replacing) makes distinct paths compare equal
            def unnorm(x):
                while isinstance(x, ast.Call) and q.dotted(x.func) == "os.path.normcase" and len(x.args) == 1:
                    x = x.args[0]
                return x

            def lossy(x):
                return isinstance(x, ast.Call) and isinstance(x.func, ast.Attribute) and x.func.attr in LOSSY_STR and not x.keywords and (x.func.attr in ("replace", "translate") or not x.args)

            v, arg = unnorm(v), unnorm(arg)
            if lossy(v) or lossy(arg):
                return ("prefix-lossy", q.unparse(e))
            lhs = None
            if isinstance(v, ast.Call) and q.dotted(v.func) == "os.path.dirname" and len(v.args) == 1 and isinstance(v.args[0], ast.Name) and v.args[0].id == X:
                lhs = False  # the containing directory of the path: a prefix test on it needs the separator-terminated root just the same
            elif isinstance(v, ast.Name) and v.id == X:
                lhs = False
            elif isinstance(v, ast.BinOp) and isinstance(v.op, ast.Add) and isinstance(v.left, ast.Name) and v.left.id == X and self.sep(v.right, at):
                lhs = True
            if lhs is not None and isinstance(arg, ast.Name) and arg.id in self.rootvars:
                return ("prefix", arg.id, lhs)
            if lhs is not None and isinstance(arg, ast.Tuple):
                return "weak"  # several admissible prefixes
            if lhs is not None:
                return ("prefix-derived", q.unparse(arg))
            raise AnalysisError("validate_absolute_path: prefix test on an unrecognised string: %s" % q.unparse(e))
        if isinstance(e, ast.Compare) and len(e.ops) == 1 and isinstance(e.ops[0], (ast.Eq, ast.NotEq)):
            for a, b in ((e.left, e.comparators[0]), (e.comparators[0], e.left)):
                if isinstance(a, ast.Name) and a.id == X and isinstance(b, ast.Name) and b.id in self.rootvars:
                    return ("eq-root", b.id, isinstance(e.ops[0], ast.Eq))  # the path is the root directory itself
                if isinstance(a, ast.Name) and a.id == X:
                    # ... or the root with its trailing separator taken off again: root[:-1] / root[:-len(sep)] / root.rstrip(sep)
                    base = None
                    if isinstance(b, ast.Subscript) and isinstance(b.value, ast.Name) and b.value.id in self.rootvars and isinstance(b.slice, ast.Slice) and b.slice.lower is None and b.slice.step is None \
                            and isinstance(b.slice.upper, ast.UnaryOp) and isinstance(b.slice.upper.op, ast.USub):
                        u_ = b.slice.upper.operand
                        if (isinstance(u_, ast.Constant) and u_.value == 1) or (isinstance(u_, ast.Call) and isinstance(u_.func, ast.Name) and u_.func.id == "len" and len(u_.args) == 1 and self.sep(u_.args[0], at)):
                            base = b.value.id
                    if isinstance(b, ast.Call) and isinstance(b.func, ast.Attribute) and b.func.attr == "rstrip" and isinstance(b.func.value, ast.Name) and b.func.value.id in self.rootvars and len(b.args) == 1 and self.sep(b.args[0], at):
                        base = b.func.value.id
                    if base is not None:
                        return ("eq-root", base, isinstance(e.ops[0], ast.Eq))
        if isinstance(e, ast.Compare) and len(e.ops) == 1 and isinstance(e.ops[0], ast.Eq):
            for a, b in ((e.left, e.comparators[0]), (e.comparators[0], e.left)):
                if isinstance(a, ast.Call) and q.dotted(a.func) in ("os.path.commonprefix", "os.path.commonpath") and isinstance(b, ast.Name) and b.id in self.rootvars and len(a.args) == 1 \
                        and isinstance(a.args[0], (ast.List, ast.Tuple)) and len(a.args[0].elts) == 2:
                    others = [x for x in a.args[0].elts if not (isinstance(x, ast.Name) and x.id == b.id)]
                    if len(others) == 1:
                        o = others[0]
                        plain = isinstance(o, ast.Name) and o.id == X
                        plus = isinstance(o, ast.BinOp) and isinstance(o.op, ast.Add) and isinstance(o.left, ast.Name) and o.left.id == X and self.sep(o.right, at)
                        if q.dotted(a.func) == "os.path.commonpath" and plain:
                            return ("common", b.id)
                        if q.dotted(a.func) == "os.path.commonprefix" and (plain or plus):
                            return ("prefix", b.id, plus)  # character-wise: needs the separator-terminated root
        if isinstance(e, ast.Compare) and any(isinstance(o, (ast.In, ast.NotIn)) for o in e.ops):
            return "weak"  # substring test: not a prefix test
        if isinstance(e, ast.Call) and isinstance(e.func, ast.Attribute) and e.func.attr in ("endswith", "find", "count", "index"):
            return "weak"
        raise AnalysisError("validate_absolute_path: test relating path and root in an unknown shape: %s" % q.unparse(e))

    def sep_append(self, v, node):
        """``W + sep`` / ``os.path.join(W, '')`` with W a root variable -> W"""
        if isinstance(v, ast.BinOp) and isinstance(v.op, ast.Add) and isinstance(v.left, ast.Name) and v.left.id in self.rootvars and self.sep(v.right, node):
            return v.left.id
        if isinstance(v, ast.Call) and q.dotted(v.func) == "os.path.join" and len(v.args) == 2 and isinstance(v.args[0], ast.Name) and v.args[0].id in self.rootvars and isinstance(v.args[1], ast.Constant) and v.args[1].value == "":
            return v.args[0].id
        return None


def config_extension(v, X):
    """``os.path.join(X, <configured name>)``"""
    if isinstance(v, ast.Call) and q.dotted(v.func) == "os.path.join" and len(v.args) == 2 and isinstance(v.args[0], ast.Name) and v.args[0].id == X:
        ext = v.args[1]
        if q.dotted(ext) == "self.default_filename":
            return True
        if isinstance(ext, ast.Constant) and isinstance(ext.value, str) and ".." not in ext.value and not ext.value.startswith(("/", "\\")):
            return True
    return False


def helper_summary(ck, hfi, pname):
    """For a private helper of the class called with the contained path as ``pname``:
    (filesystem primitives all inspect that parameter, normal return implies isfile(param), raise statements)."""
    cfg = hfi.cfg
    from ..x_secflow import edge_dominates

    prims_ok = True
    for x in own_nodes(hfi.node):
        if is_fs_prim(x):
            prims_ok = prims_ok and len(x.args) >= 1 and isinstance(x.args[0], ast.Name) and x.args[0].id == pname
        if self_call_name(x) is not None and self_call_name(x) not in ("redirect",) and resolve_method(ck.repo, self_call_name(x)) is not None and any(is_fs_prim(y) for y in own_nodes(resolve_method(ck.repo, self_call_name(x)).node)):
            raise AnalysisError("%s: nested filesystem helper calls are not followed" % hfi.qualname)
    reassigned = any(isinstance(x, (ast.Assign, ast.AugAssign, ast.AnnAssign)) and pname in q.assigned_paths(x) for x in own_nodes(hfi.node))
    ftests = [t for t in cfg.stmt_nodes(lambda t: t.kind == "test") if isinstance(t.ast, ast.Call) and q.dotted(t.ast.func) == "os.path.isfile" and len(t.ast.args) == 1 and isinstance(t.ast.args[0], ast.Name) and t.ast.args[0].id == pname]
    gate = bool(cfg.pred[cfg.exit.id]) and not reassigned and any(edge_dominates(cfg, t, "true", cfg.exit) for t in ftests)
    raises = [x for x in own_nodes(hfi.node) if isinstance(x, ast.Raise)]
    return prims_ok, gate, raises


def check_validator(ck, fi):
    _STATUS_CTX["fi"] = fi
    V = Validator(fi)
    cfg, rd, X = V.cfg, V.rd, V.X
    kinds = {}
    for n in cfg.stmt_nodes(lambda n: n.kind == "test"):
        k = V.classify(n)
        if k is not None:
            kinds[n.id] = k
    contain_tests = [(cfg.nodes[i], k) for i, k in kinds.items() if k != "weak" and k[0] in ("prefix", "common", "prefix-derived", "prefix-lossy", "rel-prefix", "rel-eq")]

    def transfer(n, val):
        contained, seps, relA, relB = val
        if n.kind == "stmt" and isinstance(n.ast, (ast.Assign, ast.AugAssign, ast.AnnAssign, ast.Delete)):
            ap = q.assigned_paths(n.ast)
            v = getattr(n.ast, "value", None)
            if X in ap:
                if not (isinstance(n.ast, ast.Assign) and config_extension(v, X)):
                    contained, relA, relB = False, False, False
            for r_ in ap & V.rootvars:
                src = None
                if isinstance(n.ast, ast.AugAssign) and isinstance(n.ast.op, ast.Add) and V.sep(v, n):
                    src = r_
                elif isinstance(n.ast, (ast.Assign, ast.AnnAssign)) and v is not None:
                    src = V.sep_append(v, n)
                if src is not None:
                    seps = seps | {r_}
                elif isinstance(n.ast, (ast.Assign, ast.AnnAssign)) and isinstance(v, ast.Name) and v.id in V.rootvars:
                    seps = (seps | {r_}) if v.id in seps else (seps - {r_})
                else:
                    seps = seps - {r_}
                if any(kk != "weak" and kk[0] in ("prefix", "common") and kk[1] == r_ for kk in kinds.values()):
                    contained = False  # the root compared against is being changed
            if ap & V.relvars:
                relA = relB = False
                if contained and not any(kk != "weak" and kk[0] in ("prefix", "common") for kk in kinds.values()):
                    contained = False
        elif n.kind in ("for", "with") and n.ast is not None:
            from ..x_secflow import node_defs

            for path, *_ in node_defs(n):
                if path == X:
                    contained, relA, relB = False, False, False
                if path in V.rootvars:
                    seps = seps - {path}
                    contained = False
        return (contained, seps, relA, relB)

    def edge(n, kind, val):
        contained, seps, relA, relB = val
        k = kinds.get(n.id)
        if n.kind == "test" and kind in ("true", "false") and k is not None and k != "weak":
            if k[0] == "prefix" and kind == "true" and k[1] in seps:
                contained = True
            elif k[0] == "common" and kind == "true":
                contained = True
            elif k[0] == "eq-root" and (kind == "true") == k[2]:
                contained = True
            elif k[0] == "endsep" and (kind == "true") == k[2]:
                seps = seps | {k[1]}
            elif k[0] == "rel-prefix" and kind == "false":
                relA = True
                if k[1] == "bare":
                    relB = True
            elif k[0] == "rel-eq" and (kind == "true") != k[1]:
                relB = True
            if relA and relB:
                contained = True
        return (contained, seps, relA, relB)

    seen = explore(cfg, (False, frozenset(), False, False), transfer, lambda t: False, edge_transfer=edge)
    ck.ob("C26.contained", fi, fi.node, len(contain_tests) >= 1, "validate_absolute_path tests the path against the root (prefix with separator-terminated root, commonpath, or relpath not leading upwards)", construct="containment test present")
    has_rel_prefix = any(k[0] == "rel-prefix" for _n, k in contain_tests)
    has_rel_eq = any(k[0] == "rel-eq" for _n, k in contain_tests) or any(k[0] == "rel-prefix" and k[1] == "bare" for _n, k in contain_tests)
    if has_rel_prefix:
        ck.ob("C26.contained", fi, fi.node, has_rel_eq, "a relpath-based test also rejects the relative path that is exactly '..' (the parent of the root), not only those starting with '../'", construct="relpath: bare parent")
    for n, k in contain_tests:
        if k[0] == "prefix-lossy":
            ck.ob("C26.contained", fi, n.ast, False, "path and root are compared exactly: after case folding / stripping / replacing, a different directory (e.g. a sibling equal to the root up to letter case) passes the prefix test")
        if k[0] == "prefix-derived":
            ck.ob("C26.root-sep", fi, n.ast, False, "the prefix that is tested is the separator-terminated root itself, not an expression derived from it (%s) whose trailing separator is not established" % k[1])
        if k[0] == "prefix":
            states = seen.get(n.id, set())
            ok = bool(states) and all(k[1] in st[1] for _f, st in states)
            ck.ob("C26.root-sep", fi, n.ast, ok, "at the prefix test the root ends with the path separator on every path (otherwise a sibling directory sharing the root's name prefix matches)")
        # the rejecting edge must end in HTTPError(403|404)
        if k[0] in ("prefix", "common", "prefix-derived", "prefix-lossy"):
            bad_edge = "false"
        elif k[0] == "rel-prefix":
            bad_edge = "true"
        else:
            bad_edge = "true" if k[1] else "false"
        fails = [cfg.nodes[s_] for s_, kind in cfg.succ[n.id] if kind == bad_edge]
        for f in fails:
            # with `a or b` the rejecting edge of one operand may lead to the other operand's test: follow to the raise
            reach = _reach_from(cfg, f.id)
            raises = [cfg.nodes[i] for i in reach if cfg.nodes[i].kind == "stmt" and isinstance(cfg.nodes[i].ast, ast.Raise)]
            ok = cfg.exit.id not in reach and raises and all(_http_status(r.ast) in (403, 404) for r in raises)
            ck.ob("C26.fail-status", fi, n.ast, bool(ok), "a path outside the root ends in HTTPError(403|404): no return, no other exception", construct="failing edge of " + q.unparse(n.ast)[:80])
    # governed sites
    g = 0
    helper_gates = []
    helper_raises = []
    for n in cfg.stmt_nodes():
        sites = []
        for c in node_calls(n):
            m = self_call_name(c)
            if is_fs_prim(c):
                sites.append((c, "filesystem predicate %s" % q.dotted(c.func)))
            elif m == "redirect":
                sites.append((c, "redirect"))
            elif m is not None and ck.repo.has_func(W, SF + "." + m):
                hfi = ck.repo.func(W, SF + "." + m)
                if any(is_fs_prim(y) for y in own_nodes(hfi.node)):
                    hp = [p_ for p_ in hfi.params() if p_ not in ("self", "cls")]
                    idx = [i for i, a in enumerate(c.args) if isinstance(a, ast.Name) and a.id == X]
                    if len(idx) != 1 or idx[0] >= len(hp) or c.keywords:
                        raise AnalysisError("validate_absolute_path: call of the filesystem helper %s with arguments the rule cannot map" % m)
                    prims_ok, gate, raises = helper_summary(ck, ck.use(hfi), hp[idx[0]])
                    sites.append((c, "filesystem helper %s()" % m))
                    ck.ob("C26.contained", hfi, hfi.node, prims_ok, "the helper's filesystem predicates inspect the path it is given", construct="helper operands")
                    if gate:
                        helper_gates.append(n)
                    helper_raises.extend((hfi, r_) for r_ in raises)
        if n.kind == "stmt" and isinstance(n.ast, ast.Return) and n.ast.value is not None and not (isinstance(n.ast.value, ast.Constant) and n.ast.value.value is None):
            sites.append((n.ast, "return of a path"))
        for node, what in sites:
            g += 1
            states = seen.get(n.id, set())
            ok = bool(states) and all(st[0] for _f, st in states)
            ck.ob("C26.contained", fi, node, ok, "%s happens only after the containment test succeeded for the current value of the path (existence of files outside the root is not revealed)" % what)
            if isinstance(node, ast.Call) and is_fs_prim(node):
                okarg = len(node.args) >= 1 and isinstance(node.args[0], ast.Name) and node.args[0].id == X
                ck.ob("C26.contained", fi, node, okarg, "the filesystem predicate inspects the contained path itself", construct="operand of " + q.unparse(node)[:80])
            if isinstance(node, ast.Return):
                if not isinstance(node.value, ast.Name):
                    raise AnalysisError("validate_absolute_path: returns an expression rather than the path variable: %s" % q.unparse(node.value)[:60])
                rv = node.value.id
                for _k in range(3):  # `result = absolute_path ... return result`
                    if rv == X:
                        break
                    dr = rd.unique(n, rv)
                    if dr is not None and dr.kind == "assign" and isinstance(dr.value, ast.Name) and rd.IN.get(dr.node.id, {}).get(dr.value.id) == rd.IN.get(n.id, {}).get(dr.value.id):
                        rv = dr.value.id
                    else:
                        break
                if rv != X and rv not in fi.params():
                    raise AnalysisError("validate_absolute_path: cannot establish what the returned local %s holds" % node.value.id)
                ck.ob("C26.contained", fi, node, rv == X, "the returned path is the contained path", construct="returned value")
    ck.floor("C26.contained", g, 3, "governed sites in validate_absolute_path")
    # a path is returned only for a regular file (a directory or a missing file must end in 403/404, not in a 500 from open/stat)
    from ..x_secflow import edge_dominates

    def is_isfile_test(t):
        e_, _at = V.resolved_test(t)  # the test itself or the named boolean holding it (operands unchanged since)
        return isinstance(e_, ast.Call) and q.dotted(e_.func) == "os.path.isfile" and len(e_.args) == 1 and isinstance(e_.args[0], ast.Name) and e_.args[0].id == X

    ftests = [t for t in cfg.stmt_nodes(lambda t: t.kind == "test") if is_isfile_test(t)]
    dom = cfg.dominators()
    for n in cfg.stmt_nodes(lambda n: n.kind == "stmt" and isinstance(n.ast, ast.Return) and n.ast.value is not None and not (isinstance(n.ast.value, ast.Constant) and n.ast.value.value is None)):
        back = _reach_to(cfg, n.id)
        ok = False
        gates = [(t, [sid for sid, kind in cfg.succ[t.id] if kind == "true"]) for t in ftests if edge_dominates(cfg, t, "true", n)]
        gates += [(h, [sid for sid, kind in cfg.succ[h.id] if kind != "exc"]) for h in helper_gates if h.id in dom[n.id] and h.id != n.id]
        for t, starts in gates:
            fwd = set()
            for sid in starts:
                fwd |= _reach_from(cfg, sid)
            stale = [i for i in fwd & back if cfg.nodes[i].kind == "stmt" and isinstance(cfg.nodes[i].ast, ast.stmt) and X in q.assigned_paths(cfg.nodes[i].ast)]
            if not stale:
                ok = True
        if not ok and not ftests and not helper_gates:
            # nothing that looks like the test: is it hidden in something the rule does not read?
            from ..x_secflow import absent_or_unknown

            absent_or_unknown(rd, n, lambda E: any(isinstance(x, ast.Call) and q.dotted(x.func) in ("os.path.isfile", "os.stat", "stat.S_ISREG") for x in ast.walk(E)) or any(isinstance(x, ast.Call) and self_call_name(x) not in (None, "redirect") and any(isinstance(a, ast.Name) and a.id == X for a in x.args) for x in ast.walk(E)), (), "the regular-file test")
        ck.ob("C26.regular-file", fi, n.ast, ok, "a path is returned only on the success edge of os.path.isfile(<the contained path>) - directories and missing files end in 403/404")
    for t in ftests:
        for f in [cfg.nodes[sid] for sid, kind in cfg.succ[t.id] if kind == "false"]:
            reach = _reach_from(cfg, f.id)
            ck.ob("C26.regular-file", fi, t.ast, cfg.exit.id not in reach, "the failing edge of the isfile test cannot reach a normal return", construct="failing edge of isfile")
    # all raises are 403/404
    for x in own_nodes(fi.node):
        if isinstance(x, ast.Raise):
            ck.ob("C26.fail-status", fi, x, _http_status(x) in (403, 404), "validate_absolute_path rejects with HTTPError(403|404) only")
    for hfi, x in helper_raises:
        ck.ob("C26.fail-status", hfi, x, _http_status(x) in (403, 404), "a helper of validate_absolute_path rejects with HTTPError(403|404) only")


def _reach_from(cfg, nid):
    seen = {nid}
    st = [nid]
    while st:
        x = st.pop()
        for y, _k in cfg.succ[x]:
            if y not in seen:
                seen.add(y)
                st.append(y)
    return seen


def _reach_to(cfg, nid):
    seen = {nid}
    st = [nid]
    while st:
        x = st.pop()
        for y, _k in cfg.pred[x]:
            if y not in seen:
                seen.add(y)
                st.append(y)
    return seen


_STATUS_CTX = {}


def _http_status(r: ast.Raise):
    c = r.exc
    if isinstance(c, ast.Call) and q.dotted(c.func) == "HTTPError":
        a = q.arg(c, 0, "status_code")
        if isinstance(a, ast.Constant):
            return a.value
        if a is not None and _STATUS_CTX.get("fi") is not None:
            try:
                return scalar_const(_STATUS_CTX["fi"].module, _STATUS_CTX["fi"].cls, a)  # a named status constant
            except KeyError:
                raise AnalysisError("HTTPError status %s is not a literal or a named constant" % q.unparse(a)[:40])
    return None


# ---------------------------------------------------------------------------
# writers and filesystem arguments


def check_writers(ck, attr, aliases=()):
    name = attr.split(".", 1)[1]
    ws = writers_of(ck.repo, W, SF, name)
    ck.floor("C26.single-writer", len(ws), 1, "writers of " + attr)
    for fi, st in ws:
        v = getattr(st, "value", None)
        ok = self_call_name(v) == "validate_absolute_path" or (fi.qualname == SF + ".get" and v is not None and q.dotted(v) in aliases) or (isinstance(v, ast.Constant) and v.value is None)
        ck.ob("C26.single-writer", fi, st, ok, "%s is only ever assigned the result of validate_absolute_path(...)" % attr)
    ws = writers_of(ck.repo, W, SF, "root")
    ck.floor("C26.single-writer", len(ws), 1, "writers of self.root")
    for fi, st in ws:
        v = getattr(st, "value", None)
        ok = fi.qualname == SF + ".initialize" and isinstance(v, ast.Name) and v.id in fi.params()
        ck.ob("C26.single-writer", fi, st, ok, "self.root is written only by initialize() from its configuration argument")
    ws = writers_of(ck.repo, W, SF, "default_filename")
    for fi, st in ws:
        v = getattr(st, "value", None)
        ok = fi.qualname == SF + ".initialize" and isinstance(v, ast.Name) and v.id in fi.params()
        ck.ob("C26.single-writer", fi, st, ok, "self.default_filename is written only by initialize() from its configuration argument")


def check_fs_args(ck, attr, skip=("validate_absolute_path",)):
    """Every filesystem primitive in StaticFileHandler gets the validated attribute, or a
    parameter whose every in-class caller passes the validated attribute / an application-side path."""
    repo = ck.repo
    methods = {f.qualname.split(".", 1)[1]: f for f in repo.direct_methods(W, SF)}
    n = 0

    def provenance(fi, e, depth=0):
        d = q.dotted(e)
        if d == attr:
            return "validated"
        if isinstance(e, ast.Name) and e.id in fi.params() and e.id not in ("self", "cls"):
            if depth > 4:
                return "unknown"
            idx = [p for p in fi.params() if p not in ("self", "cls")].index(e.id)
            kinds = set()
            mname = fi.qualname.split(".", 1)[1]
            for cm, cfi in methods.items():
                for x in own_nodes(cfi.node):
                    if self_call_name(x) == mname and cm in skip:
                        kinds.add("validator")  # called while validating: governed by C26.contained (helper summary)
                        continue
                    if self_call_name(x) == mname:
                        a = x.args[idx] if idx < len(x.args) else q.kwarg(x, e.id)
                        if a is None:
                            kinds.add("unknown")
                        else:
                            kinds.add(provenance(cfi, _resolve_local(cfi, x, a), depth + 1))
            if not kinds:
                return "inlined" if mname in getattr(repo, "inlined_helpers", ()) else "entry"
            for k in ("raw", "unknown", "entry", "app", "validator", "inlined", "validated"):
                if k in kinds:
                    return k
        if isinstance(e, ast.Call) and self_call_name(e) == "get_absolute_path":
            # application-side use (static_url): the path comes from the application, not from a request
            if any(isinstance(a, ast.Subscript) and q.dotted(a.value) == "settings" for a in e.args):
                return "app"
            return "raw"
        if any(q.dotted(x) in ("self.path", "self.root", "self.request") or (q.dotted(x) or "").startswith("self.request.") for x in ast.walk(e) if isinstance(x, (ast.Attribute, ast.Name))):
            return "raw"
        return "unknown"

    for mname, fi in methods.items():
        if mname in skip:
            continue
        for x in own_nodes(fi.node):
            if is_fs_prim(x):
                n += 1
                ck.need(x.args, "filesystem primitive without a path argument in %s" % fi.qualname)
                k = provenance(fi, _resolve_local(fi, x, x.args[0]))
                if k in ("unknown", "entry") and not (k == "entry" and mname in ("get_content", "get_content_version", "_get_cached_version")):
                    raise AnalysisError("%s: cannot establish where the argument of %s comes from" % (fi.qualname, q.unparse(x)))
                ck.ob("C26.fs-args", fi, x, k in ("validated", "app", "entry", "validator", "inlined"), "%s operates on the validated path (%s) or an application-side path - weakest provenance over all in-class callers: %s" % (q.dotted(x.func), attr, k))
    ck.floor("C26.fs-args", n, 2, "filesystem primitives in StaticFileHandler")


def _resolve_local(fi, at_ast, e):
    """One step of alias resolution for a plain local."""
    if isinstance(e, ast.Name) and e.id not in fi.params():
        rd = Reach(fi)
        ns = rd.cfg_nodes_of(at_ast)
        if ns:
            d = rd.unique(ns[0], e.id)
            if d is not None and d.kind == "assign" and d.value is not None:
                return d.value
    return e


VOCABULARY = {"_stat", "_get_cached_version", "_static_hashes", "_lock"}
INGREDIENTS = {"abspath", "realpath", "normpath", "join", "startswith", "sep", "isdir", "isfile", "exists", "stat", "open", "absolute_path", "validate_absolute_path", "get_absolute_path",
               "root", "default_filename", "relpath", "commonpath", "commonprefix", "redirect"}


def normalise(ck):
    """Inline private helpers split off get / validate_absolute_path / get_absolute_path."""
    from ..x_secinline import inlined, mentions_any

    roots = [SF + "." + m for m in ("get", "validate_absolute_path", "get_absolute_path", "head")]
    ck.repo = inlined(ck.repo, W, roots, lambda name, h: name in VOCABULARY, lambda h: mentions_any(h, INGREDIENTS))
    from ..x_secinline import dealiased

    ck.repo = dealiased(ck.repo, W, roots)  # `isdir = os.path.isdir` and the like: the local is the module attribute
    for nm in getattr(ck.repo, "inlined_helpers", []):
        ck.note("inlined private helper %s into its caller before analysis" % nm)


# ---------------------------------------------------------------------------


def run(ck):
    ck.rule("C26.get-validated", "StaticFileHandler.get: every filesystem-touching call is reached only after the validator's result was stored and tested against None")
    ck.rule("C26.get-flow", "get: the validator receives self.root and the normalised join; no filesystem-touching call receives the unvalidated path")
    ck.rule("C26.abs-normalised", "get_absolute_path returns abspath/realpath(join(root, path))")
    ck.rule("C26.contained", "validate_absolute_path: filesystem predicates, the redirect and every returned path are dominated by the success of the containment test on the current path value")
    ck.rule("C26.root-sep", "validate_absolute_path: the root is separator-terminated when the prefix test is evaluated")
    ck.rule("C26.fail-status", "validate_absolute_path: the failing edge of the containment test ends in HTTPError(403|404); all its raises are 403/404")
    ck.rule("C26.regular-file", "validate_absolute_path returns a path only for an existing regular file; everything else raises 403/404")
    ck.rule("C26.single-writer", "self.absolute_path is written only from validate_absolute_path in get(); self.root/default_filename only from configuration")
    ck.rule("C26.fs-args", "every filesystem primitive in StaticFileHandler operates on the validated path or on a parameter fed from it")
    ck.rule("C26.head", "head() delegates to get() for the same path")

    normalise(ck)
    get = ck.func(W, SF + ".get")
    val = ck.func(W, SF + ".validate_absolute_path")
    joiner = ck.func(W, SF + ".get_absolute_path")
    head = ck.func(W, SF + ".head")
    touching = fs_touching(ck.repo)
    ck.need({"get_content", "get_content_size", "get_modified_time", "validate_absolute_path"} <= touching or len(touching) >= 5, "filesystem-touching method set unexpectedly small: %s" % sorted(touching))
    ck.note("filesystem-touching methods (derived): " + ", ".join(sorted(touching)))

    attr, aliases = check_get(ck, get, touching)
    check_joiner(ck, joiner)
    check_validator(ck, val)
    check_writers(ck, attr, aliases)
    check_fs_args(ck, attr)
    p = [x for x in head.params() if x != "self"][0]
    calls = [x for x in own_nodes(head.node) if self_call_name(x) == "get"]
    ck.ob("C26.head", head, head.node, len(calls) == 1 and calls[0].args and isinstance(calls[0].args[0], ast.Name) and calls[0].args[0].id == p, "head(path) serves through get(path, ...), i.e. through the same validation", construct="head delegates to get")
    ck.assume("os.path.abspath removes '..'/'.'/doubled separators; self.root and default_filename are trusted configuration")


# ---------------------------------------------------------------------------
# mutants


def _in(qn, edit):
    return lambda repo: mutate(repo, W, SF + "." + qn, edit)


def _is_contain_if(st):
    return isinstance(st, ast.If) and "startswith(root)" in ast.unparse(st.test)


def _move_contain_after_isdir(root):
    body = root.body
    ci = next((i for i, st in enumerate(body) if _is_contain_if(st)), None)
    di = next((i for i, st in enumerate(body) if isinstance(st, ast.If) and "isdir" in ast.unparse(st.test)), None)
    if ci is None or di is None or ci > di:
        return False
    st = body.pop(ci)
    body.insert(di, st)  # di shifted by one after pop -> lands after the isdir block
    return True


def _move_modified_up(root):
    body = root.body
    mi = next((i for i, st in enumerate(body) if isinstance(st, ast.Assign) and "get_modified_time" in ast.unparse(st)), None)
    vi = next((i for i, st in enumerate(body) if isinstance(st, ast.Assign) and "validate_absolute_path" in ast.unparse(st)), None)
    if mi is None or vi is None:
        return False
    st = body.pop(mi)
    body.insert(vi + 1, st)  # between the validator call and the None test
    return True


MUTANTS = [
    ("root not separator-terminated (sibling directory with the same prefix matches)", _in("validate_absolute_path", remove_stmts(lambda st: isinstance(st, ast.If) and "endswith" in ast.unparse(st.test))), "C26.root-sep"),
    ("separator appended before abspath strips it again", _in("validate_absolute_path", lambda root: _swap_abspath(root)), "C26.root-sep"),
    ("containment test evaluated after isdir/redirect", _in("validate_absolute_path", _move_contain_after_isdir), "C26.contained"),
    ("get_absolute_path skips abspath", _in("get_absolute_path", replace_expr(lambda n: isinstance(n, ast.Call) and q.dotted(n.func) == "os.path.abspath", lambda n: n.args[0])), "C26.abs-normalised"),
    ("path returned on the 403 branch", _in("validate_absolute_path", replace_stmt(lambda st: isinstance(st, ast.Raise) and "not in root static directory" in ast.unparse(st), lambda st: [parse_stmt("return absolute_path")])), ("C26.contained", "C26.fail-status")),
    ("outside-root request answered by silently returning None", _in("validate_absolute_path", replace_stmt(lambda st: isinstance(st, ast.Raise) and "not in root static directory" in ast.unparse(st), lambda st: [parse_stmt("return None")])), "C26.fail-status"),
    ("prefix test replaced by a substring test", _in("validate_absolute_path", replace_expr(lambda n: isinstance(n, ast.Call) and q.call_attr(n) == "startswith" and "root" in ast.unparse(n), lambda n: parse_expr("root in absolute_path + os.path.sep"))), "C26.contained"),
    ("containment test only for paths containing '..'", _in("validate_absolute_path", replace_expr(lambda n: isinstance(n, ast.UnaryOp) and "startswith(root)" in ast.unparse(n), lambda n: ast.BoolOp(op=ast.And(), values=[parse_expr("'..' in self.path"), n]))), "C26.contained"),
    ("default file joined from the request path", _in("validate_absolute_path", replace_expr(lambda n: isinstance(n, ast.Attribute) and ast.unparse(n) == "self.default_filename" and isinstance(n.ctx, ast.Load), lambda n: parse_expr("self.path"), limit=5)), ("C26.contained", None)),
    ("get: content read from the unvalidated path", _in("get", replace_expr(lambda n: isinstance(n, ast.Call) and q.call_attr(n) == "get_content", lambda n: ast.Call(func=n.func, args=[ast.Name(id="absolute_path", ctx=ast.Load())] + n.args[1:], keywords=n.keywords))), "C26.get-flow"),
    ("get: stat before the None test", _in("get", _move_modified_up), "C26.get-validated"),
    ("get: None result does not return", _in("get", replace_stmt(lambda st: isinstance(st, ast.If) and "absolute_path is None" in ast.unparse(st.test), lambda st: [ast.If(test=st.test, body=[ast.Pass()], orelse=[])])), "C26.get-validated"),
    ("get: validator bypassed for the root path", _in("get", replace_stmt(lambda st: isinstance(st, ast.Assign) and "validate_absolute_path" in ast.unparse(st), lambda st: [ast.If(test=parse_expr("self.path"), body=[st], orelse=[parse_stmt("self.absolute_path = absolute_path")])])), ("C26.get-validated", "C26.single-writer")),
    ("get: validator given '/' as root", _in("get", replace_expr(lambda n: isinstance(n, ast.Call) and q.call_attr(n) == "validate_absolute_path", lambda n: ast.Call(func=n.func, args=[ast.Constant(value="/")] + n.args[1:], keywords=[]))), "C26.get-flow"),
    ("_stat inspects root + request path", lambda repo: mutate(repo, W, SF + "._stat", replace_expr(lambda n: isinstance(n, ast.Call) and q.dotted(n.func) == "os.stat", lambda n: parse_expr("os.stat(os.path.join(self.root, self.path))"))), "C26.fs-args"),
    ("prefix tested against the root with its separator stripped", _in("validate_absolute_path", replace_expr(lambda n: isinstance(n, ast.Call) and q.call_attr(n) == "startswith" and ast.unparse(n.args[0]) == "root", lambda n: ast.Call(func=n.func, args=[parse_expr("root.rstrip(os.path.sep)")], keywords=[]))), "C26.root-sep"),
    ("regular-file test dropped (directories reach open/stat)", _in("validate_absolute_path", remove_stmts(lambda st: isinstance(st, ast.If) and "isfile" in ast.unparse(st.test))), "C26.regular-file"),
    ("regular-file test applied to the pre-default path", _in("validate_absolute_path", lambda root: _isfile_early(root)), ("C26.regular-file", "C26.contained")),
    ("default file name joined after the regular-file test", _in("validate_absolute_path", lambda root: _join_after_isfile(root)), "C26.regular-file"),
    ("character-wise commonprefix against the unterminated root", _in("validate_absolute_path", lambda root: _commonprefix(root)), "C26.root-sep"),
    ("get: validation skipped for HEAD requests", _in("get", replace_expr(lambda n: isinstance(n, ast.Call) and q.call_attr(n) == "validate_absolute_path", lambda n: ast.IfExp(test=ast.Name(id="include_body", ctx=ast.Load()), body=n, orelse=ast.Name(id="absolute_path", ctx=ast.Load())))), "C26.get-validated"),
    ("seeded C26-adv3: prefix test on lower-cased strings", _in("validate_absolute_path", replace_expr(lambda n: isinstance(n, ast.Call) and q.call_attr(n) == "startswith" and ast.unparse(n.args[0]) == "root", lambda n: parse_expr("(absolute_path + os.path.sep).lower().startswith(root.lower())"))), "C26.contained"),
    ("prefix test after stripping dots from the path", _in("validate_absolute_path", replace_expr(lambda n: isinstance(n, ast.Call) and q.call_attr(n) == "startswith" and ast.unparse(n.args[0]) == "root", lambda n: parse_expr("(absolute_path + os.path.sep).replace('..', '').startswith(root)"))), "C26.contained"),
    ("seeded C26-adv4: dirname(path) tested against the root without its separator", _in("validate_absolute_path", lambda root: _seed_adv4(root)), ("C26.root-sep", "C26.contained")),
    ("404 for missing file turned into a different error", _in("validate_absolute_path", replace_expr(lambda n: isinstance(n, ast.Constant) and n.value == 404, lambda n: ast.Constant(value=500))), "C26.fail-status"),
]


def _swap_abspath(root):
    body = root.body
    ai = next((i for i, st in enumerate(body) if isinstance(st, ast.Assign) and "os.path.abspath(root)" in ast.unparse(st)), None)
    si = next((i for i, st in enumerate(body) if isinstance(st, ast.If) and "endswith" in ast.unparse(st.test)), None)
    if ai is None or si is None or ai > si:
        return False
    body[ai], body[si] = body[si], body[ai]
    return True


def _isfile_early(root):
    """exists/isfile checked before the default file name is joined: the joined path is returned unchecked."""
    body = root.body
    di = next((i for i, st in enumerate(body) if isinstance(st, ast.If) and "isdir" in ast.unparse(st.test)), None)
    fi_ = next((i for i, st in enumerate(body) if isinstance(st, ast.If) and "isfile" in ast.unparse(st.test)), None)
    if di is None or fi_ is None or fi_ < di:
        return False
    st = body.pop(fi_)
    st.test = ast.parse("not (os.path.isfile(absolute_path) or os.path.isdir(absolute_path))", mode="eval").body
    body.insert(di, st)
    return True


def _join_after_isfile(root):
    body = root.body
    fi_ = next((i for i, st in enumerate(body) if isinstance(st, ast.If) and "isfile" in ast.unparse(st.test)), None)
    if fi_ is None:
        return False
    body.insert(fi_ + 1, ast.parse("if self.default_filename is not None and os.path.isdir(absolute_path):\n    absolute_path = os.path.join(absolute_path, self.default_filename)").body[0])
    return True


def _commonprefix(root):
    a = remove_stmts(lambda st: isinstance(st, ast.If) and "endswith" in ast.unparse(st.test))(root)
    b = replace_expr(lambda n: isinstance(n, ast.Call) and q.call_attr(n) == "startswith" and ast.unparse(n.args[0]) == "root", lambda n: parse_expr("os.path.commonprefix([root, absolute_path]) == root"))(root)
    return a and b


def _seed_adv4(root):
    a = remove_stmts(lambda st: isinstance(st, ast.If) and "endswith" in ast.unparse(st.test))(root)
    b = replace_expr(lambda n: isinstance(n, ast.UnaryOp) and isinstance(n.op, ast.Not) and "startswith(root)" in ast.unparse(n), lambda n: parse_expr("absolute_path != root and not os.path.dirname(absolute_path).startswith(root)"))(root)
    return a and b
