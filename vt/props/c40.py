"""C40 — selector thread: hand-off under the condition variable, waker, dispatch, shutdown.

Decided statically (DESIGN.md §4 C40, families LOCK / OWN / MPT / TS): lock discipline of the
hand-off slot and the shutdown flag (guarded-by, wait-in-loop with the exact wake predicate,
notify after every waking write, no blocking call under the lock), take-and-clear of the slot
before each ``select``, thread confinement of the fd maps and callbacks, who-may-call of the
hand-off, the dispatch shape (right map per result list, removed fds tolerated, exactly one
restart), the waker wiring, and the order flag -> notify -> wake -> join -> close sockets in
``close`` / ``_atexit_callback``.  Not decided: liveness over all interleavings.
"""
from __future__ import annotations

import ast

from .. import q
from ..cfg import explore, must_facts, canon_fact, holds
from ..rules import call_sites, node_calls, require_after, event_facts
from ..mutate import mutate, remove_stmts, replace_stmt, replace_expr, parse_stmt, parse_expr
from ..model import AnalysisError
from ..x_scope import strip_annotations
from ..x_flow import protected, resolve_local, unique_def, expanded_facts

TECHNIQUE = "lock-discipline lint (guarded-by, wait-in-loop with folded wake predicate, notify-after-write) + ordering typestate on the CFG + who-may-call / thread-confinement ownership rules"
EXPLANATION = (
    "Every access of the hand-off slot and the shutdown flag in tornado/platform/asyncio.py is located and must sit lexically under "
    "`with <obj>._select_cond`; the wait loop's predicate is folded over all four (slot, flag) combinations; every waking write must be "
    "followed by notify(); blocking calls are excluded from locked regions; the selector thread's call tree is checked not to touch the fd "
    "maps or callbacks; the slot is cleared before each select on every loop iteration; the dispatch and waker wiring are resolved from the "
    "code (socketpair ends, select result positions, fd maps written by add_reader/add_writer); close()/_atexit_callback are explored "
    "path-sensitively for the order flag -> notify -> wake -> join -> close sockets."
)
NOT_DECIDED = (
    "liveness/deadlock-freedom over all interleavings of the two threads (model checking family); that a raising user callback still "
    "restarts the select (today _handle_select restarts only on normal completion of every callback); OS-level select/socket semantics"
)
LEVEL_NOTE = "trusted: threading.Condition / select.select / socketpair semantics; asserts are not assumed true"

F = "tornado/platform/asyncio.py"
CLS = "SelectorThread"
SLOT = "_select_args"
FLAG = "_closing_selector"


# ---------------------------------------------------------------------------
# name resolution (everything else is derived from the code)


def _init_attr_from_call(init, callee_pred):
    """self.<attr> assigned in __init__ from a call satisfying callee_pred."""
    out = []
    for n in q.walk_body(init.node):
        if isinstance(n, (ast.Assign, ast.AnnAssign)) and isinstance(n.value, ast.Call) and callee_pred(n.value):
            for p in q.assigned_paths(n):
                if p.startswith("self."):
                    out.append(p[5:])
    return out


def resolve(ck):
    repo = ck.repo
    init = ck.func(F, CLS + ".__init__")
    names = {}
    cond = _init_attr_from_call(init, lambda c: q.call_attr(c) == "Condition")
    if len(cond) != 1:
        raise AnalysisError("expected exactly one threading.Condition attribute in %s.__init__, found %r" % (CLS, cond))
    names["cond"] = cond[0]
    for a in (SLOT, FLAG):
        if not q.stores_to(init.node, "self." + a):
            raise AnalysisError("state attribute %s is not initialised in %s.__init__" % (a, CLS))
    # waker: (r, w) = socket.socketpair()
    pair = None
    for n in q.walk_body(init.node):
        if isinstance(n, ast.Assign) and isinstance(n.value, ast.Call) and q.call_attr(n.value) == "socketpair" and isinstance(n.targets[0], ast.Tuple) and len(n.targets[0].elts) == 2:
            r, w = (q.dotted(e) for e in n.targets[0].elts)
            if r and w and r.startswith("self.") and w.startswith("self."):
                pair = (r[5:], w[5:])
    if pair is None:
        raise AnalysisError("waker socketpair not found in %s.__init__" % CLS)
    names["waker_r"], names["waker_w"] = pair
    # fd maps: the attribute subscript-stored by add_reader / add_writer
    for meth, key in (("add_reader", "readers"), ("add_writer", "writers")):
        fi = ck.func(F, "%s.%s" % (CLS, meth))
        maps = {p[:-2][5:] for n in q.walk_body(fi.node) if isinstance(n, (ast.Assign, ast.AugAssign)) for p in q.assigned_paths(n) if p.endswith("[]") and p.startswith("self.")}
        if len(maps) != 1:
            raise AnalysisError("%s.%s does not store into exactly one fd map (%r)" % (CLS, meth, sorted(maps)))
        names[key] = maps.pop()
    if names["readers"] == names["writers"]:
        raise AnalysisError("add_reader and add_writer store into the same map")
    # thread attribute and thread entry
    thread_attr = None
    entry = None
    starter = None
    for fi in repo.methods(F, CLS):
        for n in q.walk_body(fi.node):
            if isinstance(n, (ast.Assign, ast.AnnAssign)) and isinstance(n.value, ast.Call) and q.call_attr(n.value) == "Thread":
                tgt = q.kwarg(n.value, "target")
                d = q.dotted(tgt) if tgt is not None else None
                if d and d.startswith("self."):
                    entry = d[5:]
                    starter = fi
                    for p in q.assigned_paths(n):
                        if p.startswith("self."):
                            thread_attr = p[5:]
    if not (thread_attr and entry and starter):
        raise AnalysisError("threading.Thread(target=self.<entry>) assigned to an attribute not found in %s" % CLS)
    names["thread"], names["entry"], names["starter"] = thread_attr, entry, starter
    return names


def _under_cond(pm, node, base, cond, stop):
    """node is lexically inside ``with <base>.<cond>:`` (within function ``stop``)."""
    want = "%s.%s" % (base, cond)
    child = node
    for a in q.ancestors(pm, node):
        if isinstance(a, (ast.With, ast.AsyncWith)) and any(child is s for s in a.body):
            if any(q.dotted(it.context_expr) == want for it in a.items):
                return True
        if a is stop:
            break
        child = a
    return False


def _mentions_attr(node, attrs):
    return [n for n in ast.walk(node) if isinstance(n, ast.Attribute) and n.attr in attrs]


# ---------------------------------------------------------------------------
# rules


def rule_guarded_by(ck, N):
    """R1: every access of the slot / flag (any receiver) outside __init__ is under the condition."""
    mod = ck.repo.module(F)
    cnt = 0
    for fi in mod.funcs.values():
        if fi.qualname == CLS + ".__init__":
            continue
        pm = None
        for n in q.walk_body(fi.node):
            if isinstance(n, ast.Lambda) and _mentions_attr(n, (SLOT, FLAG)):
                raise AnalysisError("%s accessed inside a lambda in %s (unknown idiom for the lock rule)" % ("/".join((SLOT, FLAG)), fi.qualname))
            if isinstance(n, ast.Attribute) and n.attr in (SLOT, FLAG):
                base = q.dotted(n.value)
                if base is None:
                    raise AnalysisError("%s accessed on a non-name receiver in %s" % (n.attr, fi.qualname))
                if pm is None:
                    pm = q.parent_map(fi.node)
                cnt += 1
                st = q.enclosing_stmt(pm, n)
                shown = n if isinstance(st, (ast.While, ast.If, ast.With, ast.For, ast.Try)) else st
                kind = "write" if isinstance(n.ctx, (ast.Store, ast.Del)) else "read"
                ok_g = _under_cond(pm, n, base, N["cond"], fi.node)
                if not ok_g and base == "self" and fi.cls is not None and fi.name.startswith("_") and not fi.name.startswith("__"):
                    # lock held by the callers: every call site of this private method sits under `with <obj>._select_cond`
                    sites_ = []
                    for g in mod.funcs.values():
                        gpm = None
                        for c in q.walk_body(g.node):
                            if isinstance(c, ast.Attribute) and c.attr == fi.name:
                                gpm = gpm or q.parent_map(g.node)
                                par = gpm.get(c)
                                b2 = q.dotted(c.value)
                                sites_.append(isinstance(par, ast.Call) and par.func is c and b2 is not None and _under_cond(gpm, par, b2, N["cond"], g.node))
                    ok_g = bool(sites_) and all(sites_)
                ck.ob("C40.guarded-by", fi, shown, ok_g,
                      "%s.%s is accessed only under `with %s.%s`" % (base, n.attr, base, N["cond"]),
                      construct="%s .%s in %s" % (kind, n.attr, q.normalize_construct(shown, q.local_names(fi.node)).split("\n")[0][:120]))
    ck.floor("C40.guarded-by", cnt, 8, "accesses of %s/%s" % (SLOT, FLAG))


_SENT = ((), ())


def rule_wait_loop(ck, N, run):
    """R2: Condition.wait() only in a while loop (same locked region) whose test is true exactly
    for (slot is None, flag false)."""
    mod = ck.repo.module(F)
    cnt = 0
    for fi in mod.funcs.values():
        pm = None
        for c in q.find_calls(fi.node, ".wait", ".wait_for"):
            recv = q.receiver(c)
            if not recv or not recv.endswith("." + N["cond"]):
                continue
            base = recv[: -len(N["cond"]) - 1]
            cnt += 1
            if pm is None:
                pm = q.parent_map(fi.node)
            if q.call_attr(c) == "wait_for":
                raise AnalysisError("Condition.wait_for is an unknown idiom for the wait-loop rule (%s)" % fi.qualname)
            loop = None
            inside_with = False
            child = c
            for a in q.ancestors(pm, c):
                if isinstance(a, ast.While) and any(child is s for s in a.body):
                    loop = a
                    break
                if isinstance(a, (ast.With, ast.For, ast.AsyncFor)) or a is fi.node:
                    break
                child = a
            ok_loop = loop is not None
            ck.ob("C40.wait-loop", fi, c, ok_loop, "%s.wait() sits in a `while` loop that re-tests the predicate after every wake-up (spurious wake-ups, notify for the other reason)" % recv)
            if not ok_loop:
                continue
            inside_with = _under_cond(pm, loop, base, N["cond"], fi.node)
            ck.ob("C40.wait-loop", fi, loop.test, inside_with, "the wait loop runs under `with %s`" % recv, construct="while-under-lock " + q.unparse(loop.test))
            # fold the test over the 2x2 domain
            try:
                ts = set()
                for slot in (None, _SENT):
                    for flag in (False, True):
                        if q.fold(loop.test, {"%s.%s" % (base, SLOT): slot, "%s.%s" % (base, FLAG): flag}):
                            ts.add((slot is None, flag))
            except q.NotFoldable as e:
                raise AnalysisError("wait-loop test of %s is not foldable over (%s, %s): %s" % (fi.qualname, SLOT, FLAG, e))
            ck.ob("C40.wait-loop", fi, loop.test, ts == {(True, False)},
                  "the thread keeps waiting exactly while no work was handed off and no shutdown was requested (true-set over slot∈{None,set} x flag∈{F,T} is %s)" % sorted(ts))
            if loop.orelse:
                raise AnalysisError("while/else around Condition.wait in %s: unknown idiom" % fi.qualname)
    ck.floor("C40.wait-loop", cnt, 1, "Condition.wait() sites")


def _waking_writes(fi, N):
    """(cfg node, base) for assignments that can end the selector thread's wait:
    slot := non-None, flag := non-False."""
    out = []
    for node in fi.cfg.stmt_nodes(lambda n: n.kind == "stmt" and isinstance(n.ast, (ast.Assign, ast.AnnAssign, ast.AugAssign))):
        st = node.ast
        for p in q.assigned_paths(st):
            base, _, attr = p.rpartition(".")
            if attr == SLOT and base:
                v = getattr(st, "value", None)
                if not (isinstance(v, ast.Constant) and v.value is None):
                    out.append((node, base, attr))
            elif attr == FLAG and base:
                v = getattr(st, "value", None)
                if not (isinstance(v, ast.Constant) and v.value is False):
                    out.append((node, base, attr))
    return out


def rule_notify(ck, N):
    """R3: after every waking write, notify() on the same condition on every normal path (or, equivalently,
    an unconditional notify() in the same locked region: the waiter cannot run before the lock is released)."""
    mod = ck.repo.module(F)
    cnt = 0
    for fi in mod.funcs.values():
        if fi.qualname == CLS + ".__init__":
            continue
        ww = _waking_writes(fi, N)
        pm = q.parent_map(fi.node) if ww else None
        for node, base, attr in ww:
            cnt += 1
            ids = {node.id}
            cond = "%s.%s" % (base, N["cond"])
            same_region = False
            child = node.ast
            for a in q.ancestors(pm, node.ast):
                if isinstance(a, ast.With) and any(child is s_ for s_ in a.body) and any(q.dotted(it.context_expr) == cond for it in a.items):
                    same_region = any(isinstance(st, ast.Expr) and q.is_call(st.value, cond + ".notify", cond + ".notify_all") for st in a.body)
                    break
                child = a
            if same_region:
                ck.ob("C40.notify-after-write", fi, node.ast, True, "write of %s.%s and an unconditional %s.notify() share one locked region" % (base, attr, cond))
            else:
                require_after(ck, "C40.notify-after-write", fi, lambda n, ids=ids: n.id in ids, node_calls(cond + ".notify", cond + ".notify_all"),
                              "write of %s.%s is followed by %s.notify() on every normal path (otherwise the selector thread sleeps through it)" % (base, attr, cond))
    ck.floor("C40.notify-after-write", cnt, 2, "waking writes (hand-off, shutdown request)")


BLOCKING = ("select.select", ".join", "time.sleep", ".recv", ".accept", ".run_until_complete", ".result")


def rule_no_block_under_lock(ck, N):
    """R4: nothing that can block for an unbounded time is called while the condition is held."""
    mod = ck.repo.module(F)
    nwith = 0
    for fi in mod.funcs.values():
        for w in q.walk_body(fi.node):
            if isinstance(w, (ast.With, ast.AsyncWith)) and any((q.dotted(it.context_expr) or "").endswith("." + N["cond"]) for it in w.items):
                nwith += 1
                bad = []
                for st in w.body:
                    for c in q.calls(st):
                        if q.is_call(c, *BLOCKING):
                            bad.append(c)
                        # a call of a method of this class that itself blocks (one level)
                        elif isinstance(c.func, ast.Attribute) and ck.repo.has_func(F, "%s.%s" % (CLS, c.func.attr)) and q.dotted(c.func.value) is not None and "." not in q.dotted(c.func.value):
                            callee = ck.repo.func(F, "%s.%s" % (CLS, c.func.attr))
                            if any(q.is_call(x, *BLOCKING) for x in q.calls(callee.node)):
                                bad.append(c)
                if bad:
                    for c in bad:
                        ck.ob("C40.no-block-under-lock", fi, c, False, "blocking call while holding %s (the other thread needs the lock to make progress)" % N["cond"])
                else:
                    ck.ob("C40.no-block-under-lock", fi, w, True, "no select/join/recv/sleep inside `with %s` in %s" % (N["cond"], fi.qualname), construct="with-block")
    ck.floor("C40.no-block-under-lock", nwith, 2, "locked regions")


def _select_calls(run):
    main, polls = [], []
    for node, c in call_sites(run, "select.select"):
        if c.args and isinstance(c.args[0], ast.Name):
            main.append((node, c))
        else:
            t = q.arg(c, 3, "timeout")
            if not (t is not None and isinstance(t, ast.Constant) and t.value == 0):
                raise AnalysisError("select.select call in %s with literal fd lists but no zero timeout: unknown idiom" % run.qualname)
            polls.append((node, c))
    return main, polls


def _self_helper(ck, call):
    """Method of the class called as self.<m>(...) (None otherwise)."""
    if isinstance(call, ast.Call) and isinstance(call.func, ast.Attribute) and q.dotted(call.func.value) == "self" and ck.repo.has_func(F, "%s.%s" % (CLS, call.func.attr)):
        return ck.repo.func(F, "%s.%s" % (CLS, call.func.attr))
    return None


def resolve_report(ck, N, run):
    """Where the selector thread reports back: call_soon_threadsafe in the thread entry itself, or in a private helper the
    entry calls (the helper must reach call_soon_threadsafe on every path; its parameters are mapped to the entry's arguments).
    N['report'] = [(entry cfg node, call_soon_threadsafe call, function holding it, {helper param -> entry expression})]."""
    out = []
    for node, c in call_sites(run, ".call_soon_threadsafe"):
        out.append((node, c, run, None))
    for node, c in run.cfg.find(lambda x: _self_helper(ck, x) is not None):
        h = _self_helper(ck, c)
        inner = call_sites(h, ".call_soon_threadsafe")
        if not inner:
            continue
        hp = [p for p in h.params() if p != "self"]
        if len(hp) != len(c.args) or c.keywords or len(inner) != 1:
            raise AnalysisError("report helper %s: unknown calling shape" % h.qualname)
        ef_ = event_facts(h, {"cst": node_calls(".call_soon_threadsafe")}, cond_facts=False, exc_gen=True)
        if ("@cst", True) not in ef_.get(h.cfg.exit.id, frozenset()):
            raise AnalysisError("report helper %s does not reach call_soon_threadsafe on every path" % h.qualname)
        ck.use(h)
        out.append((node, inner[0][1], h, dict(zip(hp, c.args))))
    N["report"] = out
    N["report_ids"] = {n.id for n, _c, _h, _m in out}
    return out


def _slot_helper_summary(ck, h):
    """For a helper that hands the slot content to its caller: obligations inside the helper (taken before cleared, every
    value-returning path cleared the slot, None returned only with the shutdown flag observed).  Returns True when the helper
    returns the slot content."""
    slot = "self." + SLOT
    aliases = {n.targets[0].id for n in q.walk_body(h.node) if isinstance(n, ast.Assign) and len(n.targets) == 1 and isinstance(n.targets[0], ast.Name) and q.dotted(n.value) == slot}
    rets = h.cfg.stmt_nodes(lambda n: n.kind == "stmt" and isinstance(n.ast, ast.Return))
    val_rets = [r for r in rets if r.ast.value is not None and not q.is_const(r.ast.value, None)]
    if not aliases or not val_rets or not all(q.dotted(r.ast.value) in aliases for r in val_rets):
        return False
    is_take = lambda n: n.kind == "stmt" and isinstance(n.ast, ast.Assign) and q.dotted(n.ast.value) == slot
    is_clear = lambda n: n.kind == "stmt" and isinstance(n.ast, (ast.Assign, ast.AnnAssign)) and slot in q.assigned_paths(n.ast) and isinstance(n.ast.value, ast.Constant) and n.ast.value.value is None
    is_set = lambda n: n.kind == "stmt" and isinstance(n.ast, (ast.Assign, ast.AnnAssign, ast.AugAssign)) and slot in q.assigned_paths(n.ast) and not is_clear(n)
    ef = event_facts(h, {"taken": is_take, "cleared": is_clear}, {"cleared": is_set}, cond_facts=False)
    for r in val_rets:
        ck.ob("C40.take-and-clear", h, r.ast, ("@taken", True) in ef[r.id] and ("@cleared", True) in ef[r.id],
              "the helper returns the fd sets only after taking them from self.%s and setting the slot to None" % SLOT)
    for node in h.cfg.stmt_nodes(is_clear):
        ck.ob("C40.take-and-clear", h, node.ast, ("@taken", True) in ef[node.id], "the slot is emptied only after its content was taken")
    facts = must_facts(h.cfg)
    none_rets = [r for r in rets if r not in val_rets]
    for r in none_rets:
        ck.ob("C40.thread-exit", h, r.ast, holds(facts[r.id], "self." + FLAG, True), "the helper reports 'nothing to select' (None) only with self.%s observed true" % FLAG)
    fall = [p for p, _k in h.cfg.pred[h.cfg.exit.id] if not (h.cfg.nodes[p].kind == "stmt" and isinstance(h.cfg.nodes[p].ast, ast.Return))]
    if fall:
        raise AnalysisError("%s can fall off its end: unknown idiom for the hand-off helper" % h.qualname)
    ck.use(h)
    return True


def rule_take_and_clear(ck, N, run):
    """R5: each blocking select uses the lists taken from the slot, and the slot was emptied
    (under the lock) on every path of the current loop iteration."""
    main, _polls = _select_calls(run)
    ck.floor("C40.take-and-clear", len(main), 1, "blocking select.select calls in the thread entry")
    slot = "self." + SLOT
    takes = {}
    via_helper = {}
    for n in q.walk_body(run.node):
        if isinstance(n, ast.Assign) and isinstance(n.targets[0], ast.Tuple) and len(n.targets[0].elts) == 2 and all(isinstance(e, ast.Name) for e in n.targets[0].elts):
            src = resolve_local(run, n.value)
            if q.dotted(src) == slot:
                takes[id(n)] = [e.id for e in n.targets[0].elts]
            else:
                h = _self_helper(ck, src)
                if h is not None and not src.args and _slot_helper_summary(ck, h):
                    takes[id(n)] = [e.id for e in n.targets[0].elts]
                    via_helper[id(n)] = src
    if len(takes) != 1 or len(next(iter(takes.values()))) != 2:
        raise AnalysisError("expected one `<r>, <w> = self.%s` unpacking (directly or through one hand-off helper) in %s" % (SLOT, run.qualname))
    rname, wname = next(iter(takes.values()))
    helper_call = next(iter(via_helper.values())) if via_helper else None
    N["slot_helper_call"] = helper_call
    is_take = lambda n: n.kind == "stmt" and id(n.ast) in takes
    has_helper_call = lambda n: helper_call is not None and n.kind in ("stmt", "test") and any(x is helper_call for x in q.walk_local(n.ast))
    is_clear = lambda n: (n.kind == "stmt" and isinstance(n.ast, (ast.Assign, ast.AnnAssign)) and slot in q.assigned_paths(n.ast) and isinstance(n.ast.value, ast.Constant) and n.ast.value.value is None) or has_helper_call(n)
    is_set = lambda n: n.kind == "stmt" and isinstance(n.ast, (ast.Assign, ast.AnnAssign, ast.AugAssign)) and slot in q.assigned_paths(n.ast) and not is_clear(n)
    rebinding = lambda n: n.kind in ("stmt", "for", "with") and not is_take(n) and ({rname, wname} & q.assigned_paths(n.ast) if isinstance(n.ast, ast.stmt) else False)
    ef = event_facts(run, {"taken": is_take, "cleared": is_clear}, {"taken": lambda n: bool(rebinding(n)), "cleared": is_set}, cond_facts=False)
    for node, c in main:
        a = [q.dotted(x) for x in c.args[:3]]
        ck.ob("C40.take-and-clear", run, c, len(c.args) >= 3 and a[0] == rname and a[1] == wname and a[2] == wname,
              "select.select(read list, write list, write list as error list) uses the lists taken from the hand-off slot in order")
        ck.ob("C40.take-and-clear", run, c, ("@taken", True) in ef[node.id], "the fd lists were taken from self.%s in this iteration on every path to select" % SLOT, construct="taken-before " + q.unparse(c))
        ck.ob("C40.take-and-clear", run, c, ("@cleared", True) in ef[node.id],
              "self.%s = None on every path of this iteration before select (otherwise the next hand-off finds the slot occupied / the same sets are selected twice)" % SLOT,
              construct="cleared-before " + q.unparse(c))
    for node in run.cfg.stmt_nodes(lambda n: is_clear(n) and not has_helper_call(n)):
        ck.ob("C40.take-and-clear", run, node.ast, ("@taken", True) in ef[node.id], "the slot is emptied only after its content was taken")


def rule_report_back(ck, N, run):
    """Every iteration that emptied the hand-off slot reports back through call_soon_threadsafe (or leaves the loop by
    exception/return): the event loop hands off again only from the dispatch it is sent."""
    cfg = run.cfg
    slot = "self." + SLOT
    hc = N.get("slot_helper_call")
    is_clear = lambda n: (n.kind == "stmt" and isinstance(n.ast, (ast.Assign, ast.AnnAssign)) and slot in q.assigned_paths(n.ast) and isinstance(n.ast.value, ast.Constant) and n.ast.value.value is None) or (
        hc is not None and n.kind in ("stmt", "test") and any(x is hc for x in q.walk_local(n.ast)))
    cst = N["report_ids"]
    main, _polls = _select_calls(run)
    pm = q.parent_map(run.node)
    whiles = [a for _n, c in main for a in q.ancestors(pm, c) if isinstance(a, ast.While)]
    if not whiles:
        raise AnalysisError("the blocking select is not inside a loop")
    outer = whiles[-1]
    heads = [n for n in cfg.nodes if n.kind == "join" and n.ast is outer and n.label == " while"]
    if not heads:
        raise AnalysisError("selector loop head not found")
    head = heads[0]
    bad = []

    def tr(n, v):
        if n.id == head.id:
            if v == "taken":
                bad.append(n)
            return "idle"
        if is_clear(n):
            return "taken"
        if n.id in cst:
            return "reported"
        return v

    explore(cfg, "idle", tr, lambda t: False, follow_exc=True, exc_effect=True)
    ck.ob("C40.report-back", run, run.node, not bad, "no path takes the fd sets and loops back to wait without reporting to the event loop (the next hand-off only comes from the dispatch of a report)",
          construct="taken-without-report")


def rule_thread_exit(ck, N, run):
    """R6: the thread entry returns normally only after observing the shutdown flag; and it can return."""
    cfg = run.cfg
    reach = cfg.reachable()
    can_exit = cfg.exit.id in reach and bool(cfg.pred[cfg.exit.id])
    ck.ob("C40.thread-exit", run, run.node, can_exit, "the selector thread has a normal exit (close() joins it)", construct="normal-exit-reachable")
    if can_exit:
        facts = must_facts(cfg)
        hc = N.get("slot_helper_call")
        for p, _kind in cfg.pred[cfg.exit.id]:
            pn = cfg.nodes[p]
            f = facts[cfg.exit.id] if not (pn.kind == "stmt" and isinstance(pn.ast, ast.Return)) else facts[pn.id]
            ok = holds(f, "self." + FLAG, True)
            if not ok and hc is not None:
                # the hand-off helper returns None only with the flag observed (checked inside it): `x = helper(); if x is None: return`
                for t, pol in f:
                    if pol and t.endswith(" is None"):
                        nm = t[: -len(" is None")]
                        if nm.isidentifier() and resolve_local(run, ast.Name(id=nm, ctx=ast.Load())) is hc:
                            ok = True
            ck.ob("C40.thread-exit", run, pn.ast if isinstance(pn.ast, ast.AST) else run.node, ok,
                  "every normal exit of the selector thread is taken with self.%s observed true (never stops while still needed)" % FLAG, construct="exit-only-when-closing")


def rule_confinement(ck, N, run):
    """R7: selector-thread code touches neither fd maps nor callbacks; dispatch only via call_soon_threadsafe."""
    repo = ck.repo
    maps = (N["readers"], N["writers"])
    # transitive self-method closure of the thread entry
    todo, seen = [run], {run.qualname}
    dispatch = None
    while todo:
        fi = todo.pop()
        pm = q.parent_map(fi.node)
        touched = [n for n in ast.walk(fi.node) if isinstance(n, ast.Attribute) and n.attr in maps]
        ck.ob("C40.confinement", fi, touched[0] if touched else fi.node, not touched,
              "code running on the selector thread (%s) does not read or write the fd->callback maps" % fi.qualname, construct=None if touched else "maps-untouched")
        for c in ast.walk(fi.node):
            if isinstance(c, ast.Call) and isinstance(c.func, ast.Attribute) and q.dotted(c.func.value) == "self" and repo.has_func(F, "%s.%s" % (CLS, c.func.attr)):
                callee = repo.func(F, "%s.%s" % (CLS, c.func.attr))
                if callee.qualname not in seen:
                    seen.add(callee.qualname)
                    todo.append(callee)
    # the dispatch function: first positional argument of call_soon_threadsafe
    cst = [(n_, c_) for n_, c_, _h, _m in N["report"]]
    ck.floor("C40.confinement", len(cst), 1, "call_soon_threadsafe sites on the selector thread")
    for node, c in cst:
        d = q.dotted(c.args[0]) if c.args else None
        if not (d and d.startswith("self.") and repo.has_func(F, "%s.%s" % (CLS, d[5:]))):
            raise AnalysisError("call_soon_threadsafe in %s does not pass a method of %s" % (run.qualname, CLS))
        if dispatch not in (None, d[5:]):
            raise AnalysisError("more than one dispatch function handed to call_soon_threadsafe")
        dispatch = d[5:]
    N["dispatch"] = dispatch
    ck.ob("C40.confinement", run, run.node, CLS + "." + dispatch not in seen, "the dispatch function %s is not in the selector thread's own call tree" % dispatch, construct="dispatch-not-called")
    # every reference to the dispatch function is the callback argument of call_soon_threadsafe
    mod = repo.module(F)
    nref = 0
    for fi in mod.funcs.values():
        pm = None
        for n in ast.walk(fi.node) if fi.parent is None else ():
            if isinstance(n, ast.Attribute) and n.attr == dispatch:
                nref += 1
                pm = pm or q.parent_map(fi.node)
                par = pm.get(n)
                ok = isinstance(par, ast.Call) and q.call_attr(par) == "call_soon_threadsafe" and par.args and par.args[0] is n
                ck.ob("C40.confinement", fi, par if isinstance(par, ast.AST) else n, ok, "%s is only ever handed to call_soon_threadsafe (runs on the event-loop thread), never called directly" % dispatch)
            elif isinstance(n, ast.Attribute) and n.attr == N["entry"]:
                pm = pm or q.parent_map(fi.node)
                par = pm.get(n)
                ok = isinstance(par, ast.keyword) and par.arg == "target"
                ck.ob("C40.confinement", fi, n, ok, "%s is only used as the Thread target (never run on the event-loop thread)" % N["entry"])
    ck.floor("C40.confinement", nref, 1, "references to the dispatch function")
    # per-event helper(s) called by the dispatch function with a map are called from nowhere else
    disp = ck.func(F, "%s.%s" % (CLS, dispatch))
    helpers = set()
    for c in q.calls(disp.node):
        if isinstance(c.func, ast.Attribute) and q.dotted(c.func.value) == "self" and any(isinstance(a, ast.Attribute) and a.attr in maps for a in c.args):
            helpers.add(c.func.attr)
    # a helper that only loops over the fds it is given and hands each one, with the table it was given, to the real
    # per-event helper is a *loop helper*: the per-event helper is then the one it calls
    loop_helpers = {}
    for hname in sorted(helpers):
        if not repo.has_func(F, "%s.%s" % (CLS, hname)):
            continue
        hfi = repo.func(F, "%s.%s" % (CLS, hname))
        hp = [p_ for p_ in hfi.params() if p_ != "self"]
        fors_ = [n_ for n_ in q.walk_body(hfi.node) if isinstance(n_, ast.For) and len(hp) == 2 and q.dotted(n_.iter) == hp[0] and isinstance(n_.target, ast.Name)]
        if len(fors_) == 1:
            inner = [c_ for st_ in fors_[0].body for c_ in q.calls(st_) if isinstance(c_.func, ast.Attribute) and q.dotted(c_.func.value) == "self" and len(c_.args) == 2
                     and q.dotted(c_.args[0]) == fors_[0].target.id and q.dotted(c_.args[1]) == hp[1] and repo.has_func(F, "%s.%s" % (CLS, c_.func.attr))]
            if len(inner) == 1:
                loop_helpers[hname] = (hfi, fors_[0], hp, inner[0].func.attr)
    for hname, (_hfi, _lp, _hp, inner_name) in loop_helpers.items():
        helpers.discard(hname)
        helpers.add(inner_name)
    N["helpers"] = helpers
    N["loop_helpers"] = loop_helpers
    allowed_callers = {disp.qualname} | {v_[0].qualname for v_ in loop_helpers.values()}
    for h in sorted(helpers | set(loop_helpers)):
        for fi in mod.funcs.values():
            for n in q.walk_body(fi.node):
                if isinstance(n, ast.Attribute) and n.attr == h:
                    ok_ = fi.qualname in allowed_callers if h in helpers else fi.qualname == disp.qualname
                    ck.ob("C40.confinement", fi, n, ok_, "callback runner %s is reached only from %s (event-loop thread)" % (h, dispatch))


def rule_start_callers(ck, N):
    """R8: the hand-off is made only by the thread starter and at the end of a dispatch."""
    mod = ck.repo.module(F)
    # the hand-off function = the method (not the thread entry) that stores a non-None slot
    handoff = None
    for fi in ck.repo.direct_methods(F, CLS):
        if fi.name in ("__init__", N["entry"]):
            continue
        if any(attr == SLOT for _n, _b, attr in _waking_writes(fi, N)):
            if handoff is not None:
                raise AnalysisError("more than one method fills the hand-off slot")
            handoff = fi
    if handoff is None:
        raise AnalysisError("no method fills the hand-off slot %s" % SLOT)
    N["handoff"] = handoff
    allowed = {N["starter"].qualname, "%s.%s" % (CLS, N["dispatch"])}
    base_allowed = set(allowed)
    # one or two levels of private helpers that are themselves called only from allowed functions
    for _round in range(2):
        for m_ in ck.repo.direct_methods(F, CLS):
            if m_.qualname in allowed or m_.name == handoff.name or not m_.name.startswith("_") or m_.name.startswith("__"):
                continue
            if not any(isinstance(x, ast.Attribute) and x.attr == handoff.name for x in q.walk_body(m_.node)):
                continue
            who = {g.qualname for g in mod.funcs.values() for x in q.walk_body(g.node) if isinstance(x, ast.Attribute) and x.attr == m_.name}
            if who and who <= allowed:
                allowed.add(m_.qualname)
    callers = set()
    for fi in mod.funcs.values():
        for n in q.walk_body(fi.node):
            if isinstance(n, ast.Attribute) and n.attr == handoff.name:
                callers.add(fi.qualname)
                ck.ob("C40.single-handoff", fi, n, fi.qualname in allowed,
                      "%s is invoked only when no select is pending: from the thread starter and from the end of a dispatch (at most one select in progress)" % handoff.name)
    reach_ = {b for b in base_allowed if b in callers or any(h_ in callers and any(isinstance(x, ast.Attribute) and x.attr == h_.split(".")[-1] for x in q.walk_body(ck.repo.func(F, b).node)) for h_ in allowed - base_allowed)}
    missing = base_allowed - reach_
    ck.ob("C40.single-handoff", handoff, handoff.node, not missing, "both legitimate callers hand off (%s)" % ", ".join(sorted(base_allowed)), construct="callers-present missing=%s" % sorted(missing))
    # starter: thread started in the same function as the first hand-off
    st = N["starter"]
    ck.ob("C40.single-handoff", st, st.node, bool(q.find_calls(st.node, "self.%s.start" % N["thread"])), "the thread starter starts the thread it created", construct="thread-started")
    # dispatch: exactly one hand-off on every normal path
    disp = ck.func(F, "%s.%s" % (CLS, N["dispatch"]))
    def count_handoffs(fn_, depth=0):
        """{possible numbers of hand-offs on normal paths of fn_} (calls of private helpers summarised one level)."""
        contrib = {}
        for n_, c_ in fn_.cfg.find(lambda x: isinstance(x, ast.Call) and isinstance(x.func, ast.Attribute) and q.dotted(x.func.value) == "self"):
            if c_.func.attr == handoff.name:
                contrib.setdefault(n_.id, []).append({1})
            elif depth < 2 and ck.repo.has_func(F, "%s.%s" % (CLS, c_.func.attr)) and "%s.%s" % (CLS, c_.func.attr) in allowed - base_allowed:
                contrib.setdefault(n_.id, []).append(count_handoffs(ck.repo.func(F, "%s.%s" % (CLS, c_.func.attr)), depth + 1))

        def tr_(n, v):
            outs = [v]
            for poss in contrib.get(n.id, ()):
                outs = [min(o + k_, 2) for o in outs for k_ in poss]
            return outs if len(outs) > 1 else outs[0]

        seen_ = explore(fn_.cfg, 0, tr_, lambda t: False, follow_exc=False)
        return {v for _f, v in seen_.get(fn_.cfg.exit.id, ())}

    seen = {disp.cfg.exit.id: {(frozenset(), v) for v in count_handoffs(disp)}}
    states = sorted({v for _f, v in seen.get(disp.cfg.exit.id, ())})
    for v in states:
        ck.ob("C40.restart-once", disp, disp.node, v == 1, "every normal completion of %s hands the fd sets back to the selector thread exactly once (count=%d)" % (disp.name, v), construct="restart count=%d" % v)
    ck.floor("C40.restart-once", len(states), 1, "exit states of the dispatch function")


_COPY_FUNCS = ("list", "tuple", "sorted", "set", "frozenset")


def rule_snapshot(ck, N):
    """R9: the hand-off stores private copies of the reader keys and the writer keys, in that order."""
    h = N["handoff"]
    cnt = 0
    for node, base, attr in _waking_writes(h, N):
        if attr != SLOT:
            continue
        cnt += 1
        v = resolve_local(h, node.ast.value)
        if not (isinstance(v, ast.Tuple) and len(v.elts) == 2):
            raise AnalysisError("hand-off value in %s is not a 2-tuple literal: unknown idiom" % h.qualname)
        e0, e1 = resolve_local(h, v.elts[0]), resolve_local(h, v.elts[1])
        for i, (elt, mine, other, what) in enumerate(((e0, N["readers"], N["writers"], "read"), (e1, N["writers"], N["readers"], "write"))):
            ment = {a.attr for a in ast.walk(elt) if isinstance(a, ast.Attribute)}
            ck.ob("C40.snapshot", h, elt, mine in ment and other not in ment, "element %d of the hand-off is built from self.%s only (%s set)" % (i, mine, what))
            copied = (isinstance(elt, ast.Call) and isinstance(elt.func, ast.Name) and elt.func.id in _COPY_FUNCS) or isinstance(elt, (ast.ListComp, ast.SetComp)) or (
                isinstance(elt, (ast.List, ast.Tuple)) and elt.elts and all(isinstance(e, ast.Starred) for e in elt.elts))
            ck.ob("C40.snapshot", h, elt, copied, "element %d is a private copy (list(...)/tuple(...)/comprehension), not a live view of the dict the event-loop thread keeps mutating" % i, construct="copy " + q.unparse(elt))
    ck.floor("C40.snapshot", cnt, 1, "hand-off writes")


def rule_dispatch(ck, N, run):
    """R10: results are dispatched with the matching map; removed fds are tolerated; one callback call."""
    disp = ck.func(F, "%s.%s" % (CLS, N["dispatch"]))
    params = [p for p in disp.params() if p != "self"]
    if len(params) != 2:
        raise AnalysisError("dispatch function %s does not take (readable, writable)" % disp.qualname)
    # thread side: which select result goes to which parameter
    main, polls = _select_calls(run)
    pos0, pos1 = set(), set()
    for n in q.walk_body(run.node):
        if isinstance(n, ast.Assign) and q.is_call(n.value, "select.select") and isinstance(n.targets[0], ast.Tuple) and len(n.targets[0].elts) == 3:
            e = n.targets[0].elts
            if isinstance(e[0], ast.Name):
                pos0.add(e[0].id)
            if isinstance(e[1], ast.Name):
                pos1.add(e[1].id)
    pos0.discard("_")
    pos1.discard("_")
    for node, c, hfi, amap in N["report"]:
        e1 = c.args[1] if len(c.args) > 1 else None
        e2 = c.args[2] if len(c.args) > 2 else None
        if amap is not None:
            e1 = amap.get(q.dotted(e1)) if e1 is not None else None
            e2 = amap.get(q.dotted(e2)) if e2 is not None else None
        a1 = q.dotted(e1) if e1 is not None else None
        a2 = q.dotted(e2) if e2 is not None else None
        ck.ob("C40.dispatch", run, c, a1 in pos0 and a2 in pos1 and a1 != a2, "the readable list (select result 0) and the writable list (result 1) are passed to %s in that order" % disp.name)
    # error readiness (third select result) is merged into the writable list before the hand-over
    mains = [n for n in run.cfg.stmt_nodes(lambda n: n.kind == "stmt" and isinstance(n.ast, ast.Assign) and q.is_call(n.ast.value, "select.select")
                                            and isinstance(n.ast.targets[0], ast.Tuple) and len(n.ast.targets[0].elts) == 3 and any(m_ is n.ast.value for _n, m_ in main))]
    for mn in mains:
        e = mn.ast.targets[0].elts
        if not all(isinstance(x, ast.Name) for x in e):
            raise AnalysisError("select results are not unpacked into three names")
        W, X = e[1].id, e[2].id
        cst_ids = N["report_ids"]
        bad = []

        def tr(n, v, W=W, X=X, mn=mn):
            if n.id == mn.id:
                return "raw"
            if n.kind == "stmt" and isinstance(n.ast, (ast.Assign, ast.AugAssign)) and W in q.assigned_paths(n.ast):
                names = q.names_in(n.ast.value) | ({W} if isinstance(n.ast, ast.AugAssign) else set())
                if v == "raw" and {W, X} <= names:
                    return "merged"
                if v == "raw" and X not in names and W not in names:
                    return "none"  # results replaced wholesale (error fallback)
            if n.id in cst_ids and v == "raw":
                bad.append(n)
            return v

        explore(run.cfg, "none", tr, lambda t: False, follow_exc=True, exc_effect=False)
        ck.ob("C40.dispatch", run, mn.ast, not bad and X != "_",
              "fds reported in select's error set (%s) are added to the writable list before the results are handed to the event loop (a failed connect is only reported there on Windows)" % X,
              construct="error-set-merged " + q.normalize_construct(mn.ast, q.local_names(run.node)))
    loops = 0
    for prm, mp, what in ((params[0], N["readers"], "readable"), (params[1], N["writers"], "writable")):
        fors = [n for n in q.walk_body(disp.node) if isinstance(n, ast.For) and q.dotted(n.iter) == prm and isinstance(n.target, ast.Name)]
        loop_fn, map_txt = disp, "self." + mp
        if not fors:
            # the loop lives in a loop helper called as self._h(<ready list>, self.<map>), unconditionally, once
            via = [(c_, N["loop_helpers"][c_.func.attr]) for st_ in disp.node.body if isinstance(st_, ast.Expr) and isinstance(st_.value, ast.Call) for c_ in [st_.value]
                   if isinstance(c_.func, ast.Attribute) and q.dotted(c_.func.value) == "self" and c_.func.attr in N.get("loop_helpers", {}) and len(c_.args) == 2 and q.dotted(c_.args[0]) == prm]
            if len(via) == 1:
                c_, (hfi_, hlp_, hp_, _inner) = via[0]
                ck.ob("C40.dispatch", disp, c_, q.dotted(c_.args[1]) == "self." + mp, "the %s fds are handed to the loop helper together with self.%s" % (what, mp), construct="loop-helper %s -> self.%s" % (what, mp))
                fors, loop_fn, map_txt = [hlp_], ck.use(hfi_), hp_[1]
        if len(fors) != 1:
            raise AnalysisError("expected one `for x in %s` loop in %s, found %d" % (prm, disp.qualname, len(fors)))
        lp = fors[0]
        loops += 1
        hc = [c for st in lp.body for c in q.calls(st) if isinstance(c.func, ast.Attribute) and c.func.attr in N["helpers"]]
        good = [c for c in hc if len(c.args) == 2 and q.dotted(c.args[0]) == lp.target.id and q.dotted(c.args[1]) == map_txt]
        ck.ob("C40.dispatch", disp, lp, len(good) == 1 and len(hc) == 1 and not lp.orelse and not any(isinstance(x, (ast.Break, ast.Return)) for st in lp.body for x in q.walk_local(st)),
              "every %s fd is dispatched once through self.%s (no early break, right map)" % (what, mp), construct="for %s -> self.%s" % (what, mp))
        # unconditional: between the loop head and the dispatch call there is no condition other than "this fd is still in
        # its own map" (which the helper tests anyway) and no `continue`
        if len(good) == 1:
            dpm = q.parent_map(loop_fn.node)
            guards = []
            child = good[0]
            for a in q.ancestors(dpm, good[0]):
                if a is lp:
                    break
                if isinstance(a, ast.If):
                    in_body = any(child is s_ or any(child is x_ for x_ in ast.walk(s_)) for s_ in a.body)
                    guards.append((a.test, in_body))
                elif isinstance(a, (ast.While, ast.For)):
                    guards.append((a, True))
                child = a
            conts = [x for st in lp.body for x in q.walk_local(st) if isinstance(x, ast.Continue)]
            own_map = ("%s in %s" % (lp.target.id, map_txt), "%s not in %s" % (lp.target.id, map_txt))
            foreign = [g for g, in_body in guards if not (isinstance(g, ast.AST) and not isinstance(g, (ast.While, ast.For)) and q.unparse(g) == own_map[0 if in_body else 1])]
            if conts and not foreign:
                raise AnalysisError("%s: `continue` inside the %s dispatch loop (shape not recognised)" % (disp.qualname, what))
            ck.ob("C40.dispatch", disp, foreign[0] if foreign and isinstance(foreign[0], ast.expr) else lp, not foreign,
                  "every fd of the %s set reaches the handler lookup unconditionally: its dispatch does not depend on %s" % (what, q.unparse(foreign[0])[:60] if foreign and isinstance(foreign[0], ast.expr) else "anything else"),
                  construct="unconditional-dispatch %s%s" % (what, (" guard " + q.normalize_construct(foreign[0], q.local_names(disp.node))) if foreign and isinstance(foreign[0], ast.expr) else ""))
    ck.floor("C40.dispatch", loops, 2, "dispatch loops")
    for hname in sorted(N["helpers"]):
        h = ck.func(F, "%s.%s" % (CLS, hname))
        hp = [p for p in h.params() if p != "self"]
        if len(hp) != 2:
            raise AnalysisError("%s does not take (fd, map)" % h.qualname)
        fdp, mapp = hp
        pm = q.parent_map(h.node)
        subs = [n for n in q.walk_body(h.node) if isinstance(n, ast.Subscript) and q.dotted(n.value) == mapp]
        gets = [c for c in q.find_calls(h.node, mapp + ".get")]
        if not subs and not gets:
            raise AnalysisError("%s does not look the fd up in its map parameter: unknown idiom" % h.qualname)
        cbnames = set()
        for n in q.walk_body(h.node):
            if isinstance(n, ast.Assign) and (n.value in subs or n.value in gets):
                cbnames |= {p for p in q.assigned_paths(n)}
        hfacts = must_facts(h.cfg)
        member = "%s in %s" % (fdp, mapp)
        for s in subs:
            guarded = all(holds(hfacts[nd.id], member, True) for nd in h.cfg.nodes_for(s)) and bool(h.cfg.nodes_for(s))
            ck.ob("C40.removed-fd", h, s, (protected(pm, s, "KeyError") is not None or guarded) and q.dotted(s.slice) == fdp,
                  "lookup of the fd tolerates a reader/writer removed between select and dispatch (KeyError handled, or guarded by `fd in map`)")
        cbcalls = [(n, c) for n, c in h.cfg.find(lambda x: isinstance(x, ast.Call) and q.dotted(x.func) in cbnames)]
        ck.floor("C40.dispatch", len(cbcalls), 1, "callback invocations in %s" % hname)
        facts = must_facts(h.cfg)
        for g in gets:
            for n, c in cbcalls:
                ck.ob("C40.removed-fd", h, c, holds(facts[n.id], "%s is None" % q.dotted(c.func), False), "callback from .get() is called only when present")
        ids = {n.id for n, _c in cbcalls}
        hnd = {n.id for n in h.cfg.nodes if n.kind == "handler"}

        def tr(n, v, ids=ids, hnd=hnd):
            cnt, via = v
            return (min(cnt + (1 if n.id in ids else 0), 2), via or n.id in hnd)

        seen = explore(h.cfg, (0, False), tr, lambda t: t.endswith(" is None") or t == member, follow_exc=True, exc_effect=False)
        for facts_, (cnt, via) in sorted(seen.get(h.cfg.exit.id, ()), key=repr):
            absent = via or any(t.endswith(" is None") and pol for t, pol in facts_) or (member, False) in facts_
            ck.ob("C40.dispatch", h, h.node, cnt == 1 or (cnt == 0 and absent), "the registered callback runs exactly once per reported fd (count=%d%s)" % (cnt, ", fd no longer registered" if absent else ""),
                  construct="callback count=%d absent=%s" % (cnt, absent))


def rule_waker(ck, N):
    """R11: waker wiring."""
    init = ck.func(F, CLS + ".__init__")
    r, w = "self." + N["waker_r"], "self." + N["waker_w"]
    for end in (r, w):
        sb = [c for c in q.find_calls(init.node, end + ".setblocking") if c.args and isinstance(c.args[0], ast.Constant) and c.args[0].value in (False, 0) and c.args[0].value is not None]
        ck.ob("C40.waker", init, init.node, len(sb) >= 1, "%s is non-blocking (a full/empty waker pipe must not block either thread)" % end, construct="setblocking(False) on " + end)
    # wake function: the method that sends on the write end
    wake = [fi for fi in ck.repo.direct_methods(F, CLS) if q.find_calls(fi.node, w + ".send")]
    if len(wake) != 1:
        raise AnalysisError("expected exactly one method sending on the waker write end, found %d" % len(wake))
    wake = wake[0]
    N["wake"] = wake
    cons = [fi for fi in ck.repo.direct_methods(F, CLS) if q.find_calls(fi.node, r + ".recv")]
    if len(cons) != 1:
        raise AnalysisError("expected exactly one method draining the waker read end, found %d" % len(cons))
    cons = cons[0]
    reg = [c for c in q.find_calls(init.node, "self.add_reader") if c.args and q.dotted(c.args[0]) == r]
    ck.ob("C40.waker", init, reg[0] if reg else init.node, len(reg) == 1 and len(reg[0].args) >= 2 and q.dotted(reg[0].args[1]) == "self." + cons.name,
          "the read end of the waker is registered as a reader with the draining callback, so a wake makes select return", construct=None if reg else "waker-registered")
    for fi, end, op in ((wake, w, "send"), (cons, r, "recv")):
        pm = q.parent_map(fi.node)
        for c in q.find_calls(fi.node, "%s.%s" % (end, op)):
            ck.ob("C40.waker", fi, c, protected(pm, c, "BlockingIOError") is not None, "%s on the non-blocking waker tolerates BlockingIOError (pipe already full / already drained)" % op)
    # closed-flag tested by the wake function
    # the flag that turns the wake function into a no-op: a self attribute the wake function tests (in either polarity)
    # and close() sets
    tested = set()
    for n in q.walk_body(wake.node):
        if isinstance(n, (ast.If, ast.While, ast.IfExp)):
            for x in ast.walk(n.test):
                d = q.dotted(x) if isinstance(x, ast.Attribute) else None
                if d and d.startswith("self.") and d.count(".") == 1:
                    tested.add(d[5:])
    closefn = ck.func(F, CLS + ".close")
    set_in_close = {p_[5:] for st_ in q.walk_body(closefn.node) if isinstance(st_, (ast.Assign, ast.AnnAssign)) for p_ in q.assigned_paths(st_) if p_.startswith("self.")}
    closed = tested & set_in_close
    N["closed"] = closed
    # every change of the fd maps wakes the selector (directly or through a private helper that always wakes)
    direct_wake = node_calls("self." + wake.name, w + ".send")
    wakers = set()
    for m_ in ck.repo.direct_methods(F, CLS):
        if m_.name == wake.name:
            continue
        ef_ = event_facts(m_, {"w": direct_wake}, cond_facts=False, exc_gen=True)
        if ("@w", True) in ef_.get(m_.cfg.exit.id, frozenset()) and m_.cfg.pred[m_.cfg.exit.id]:
            wakers.add(m_.name)
    is_wake_node = lambda n: direct_wake(n) or (n.kind in ("stmt", "test") and n.ast is not None and any(
        isinstance(c, ast.Call) and isinstance(c.func, ast.Attribute) and q.dotted(c.func.value) == "self" and c.func.attr in wakers for c in q.walk_local(n.ast)))
    maps = {"self." + N["readers"], "self." + N["writers"]}
    cnt = 0
    for fi in ck.repo.direct_methods(F, CLS):
        def is_mut(n, fi=fi):
            if n.kind != "stmt":
                return False
            if isinstance(n.ast, (ast.Assign, ast.AugAssign, ast.Delete)) and any(p.endswith("[]") and p[:-2] in maps for p in q.assigned_paths(n.ast)):
                return True
            return any(isinstance(c.func, ast.Attribute) and q.dotted(c.func.value) in maps and c.func.attr in ("pop", "popitem", "clear", "update", "setdefault", "__setitem__", "__delitem__") for c in q.calls(n.ast))
        # pop(fd, default) removes only if the fd was registered: a path on which nothing was removed needs no wake.  Such
        # conditional removals are decided on their own: all paths wake -> fine; otherwise the shape is not recognised.
        def is_soft(n, fi=fi):
            return n.kind == "stmt" and not (isinstance(n.ast, (ast.Assign, ast.AugAssign, ast.Delete)) and any(p.endswith("[]") and p[:-2] in maps for p in q.assigned_paths(n.ast))) and any(
                isinstance(c, ast.Call) and isinstance(c.func, ast.Attribute) and q.dotted(c.func.value) in maps and c.func.attr == "pop" and len(c.args) == 2 for c in q.calls(n.ast))
        soft = fi.cfg.stmt_nodes(is_soft)
        if soft:
            class _Probe:
                rules = ck.rules
                def __init__(self):
                    self.res = []
                def ob(self, rule, fi_, node, ok, what, **kw):
                    self.res.append(ok)
                    return ok
            pr = _Probe()
            require_after(pr, "C40.wake-on-change", fi, is_soft, is_wake_node, "probe")
            if not all(pr.res):
                if not fi.cfg.stmt_nodes(lambda n: is_wake_node(n)):
                    for sn in soft:
                        ck.ob("C40.wake-on-change", fi, sn.ast, False, "a change of the reader/writer maps wakes the selector thread on every normal path (else select keeps waiting on the old sets)")
                else:
                    raise AnalysisError("%s: removal with pop(fd, default) followed by a conditional wake: shape not recognised" % fi.qualname)
            else:
                for sn in soft:
                    ck.ob("C40.wake-on-change", fi, sn.ast, True, "a change of the reader/writer maps wakes the selector thread on every normal path (else select keeps waiting on the old sets)")
            cnt += len(soft)
        is_mut_hard = lambda n, is_mut=None: False
        k = require_after(ck, "C40.wake-on-change", fi, (lambda n, f_=is_mut, s_=is_soft: f_(n) and not s_(n)), is_wake_node,
                          "a change of the reader/writer maps wakes the selector thread on every normal path (else select keeps waiting on the old sets)")
        cnt += k
    ck.floor("C40.wake-on-change", cnt, 4, "map mutation sites (add/remove reader/writer)")


def _order(ck, rule, fi, base, N, per_iteration=False, exit_need=None):
    """Ordering typestate for a shutdown sequence on object ``base``.  Calls of private helpers of the class on the same
    object are followed (the helper is explored with the caller's state, obligations are recorded inside it), to depth 2."""
    need = {
        "join": ("flag", "notify", "wake"), "sockclose": ("join",),
        "closedflag": ("wake",),
    }
    why = {
        ("join", "flag"): "join() only after the shutdown flag is set",
        ("join", "notify"): "join() only after notify() (else the thread may sleep in wait() forever)",
        ("join", "wake"): "join() only after the waker was written (else the thread may sit in select() forever)",
        ("sockclose", "join"): "the waker sockets are closed only after the selector thread stopped (or was never started)",
        ("closedflag", "wake"): "the closed flag (which turns the wake function into a no-op) is set only after the selector was woken",
    }

    def make_ev(fn, b):
        thr = "%s.%s" % (b, N["thread"])
        thr_names = {thr} | {nm for nm in q.local_names(fn.node) if unique_def(fn, nm) is not None and q.dotted(unique_def(fn, nm)) == thr}
        cond = "%s.%s" % (b, N["cond"])
        wsock, rsock = "%s.%s" % (b, N["waker_w"]), "%s.%s" % (b, N["waker_r"])
        wake_name = "%s.%s" % (b, N["wake"].name)
        closed = ["%s.%s" % (b, c) for c in sorted(N["closed"])]
        ev = {
            "flag": lambda n: n.kind == "stmt" and isinstance(n.ast, ast.Assign) and "%s.%s" % (b, FLAG) in q.assigned_paths(n.ast) and isinstance(n.ast.value, ast.Constant) and n.ast.value.value is True,
            "notify": node_calls(cond + ".notify", cond + ".notify_all"),
            "wake": node_calls(wake_name, wsock + ".send"),
            "join": node_calls(*[t + ".join" for t in sorted(thr_names)]),
            "sockclose": node_calls(wsock + ".close", rsock + ".close"),
            "closedflag": lambda n: n.kind == "stmt" and isinstance(n.ast, ast.Assign) and any(c in q.assigned_paths(n.ast) for c in closed) and not (isinstance(n.ast.value, ast.Constant) and n.ast.value.value is False),
        }
        return ev, thr_names, closed

    obl = {}
    counts = {}
    memo = {}
    relevant = {}

    def is_relevant(h):
        """the helper (or a helper it calls) performs one of the shutdown steps"""
        if h.qualname not in relevant:
            relevant[h.qualname] = False
            evh, _t, _c = make_ev(h, "self")
            r = any(p(n) for n in h.cfg.stmt_nodes() for p in evh.values())
            if not r:
                for c in q.calls(h.node):
                    hh = _self_helper(ck, c)
                    if hh is not None and hh.name != N["wake"].name and hh.qualname != h.qualname and is_relevant(hh):
                        r = True
            relevant[h.qualname] = r
        return relevant[h.qualname]

    def walk(fn, b, init, depth, top=False):
        key = (fn.qualname, b, init)
        if key in memo:
            return memo[key]
        memo[key] = (set(), {})
        ev, thr_names, closed = make_ev(fn, b)
        cfg = fn.cfg

        def helpers_at(n):
            if n.kind not in ("stmt", "test") or n.ast is None or depth >= 2:
                return []
            out = []
            for c in q.walk_local(n.ast):
                if isinstance(c, ast.Call) and isinstance(c.func, ast.Attribute) and q.dotted(c.func.value) == b and c.func.attr != N["wake"].name and ck.repo.has_func(F, "%s.%s" % (CLS, c.func.attr)):
                    h = ck.repo.func(F, "%s.%s" % (CLS, c.func.attr))
                    if h.qualname != fn.qualname and is_relevant(h):
                        out.append(h)
            return out

        def transfer(n, val):
            if per_iteration and top and n.kind == "for":
                return frozenset()
            hs = helpers_at(n)
            if hs:
                outs = {val}
                for h in hs:
                    ck.use(h)
                    nxt = set()
                    for v in outs:
                        nxt |= walk(h, "self", v, depth + 1)[0]
                    outs = nxt or outs
                return sorted(outs, key=sorted) if len(outs) > 1 else next(iter(outs))
            add = {k for k, p in ev.items() if p(n)}
            for k in add:
                for req in need.get(k, ()):
                    kk = (fn.qualname, n.id, k, req)
                    prev = obl.get(kk)
                    obl[kk] = [(prev[0] if prev else True) and (req in val), fn, n]
            return val | add if add else val

        def edge(n, kind, val):
            if n.kind == "test" and kind in ("true", "false"):
                t, pol = canon_fact(n.ast, kind == "true")
                if any(t == x + " is None" for x in thr_names) and pol:
                    return val | {"join"}
            return val

        for n in cfg.stmt_nodes():
            for k, p in ev.items():
                if p(n):
                    counts[k] = counts.get(k, 0) + 1 if (fn.qualname, n.id, k) not in counts else counts[k]
                    counts[(fn.qualname, n.id, k)] = 1
        seen = explore(cfg, init, transfer, lambda t: any(t == c for c in closed), edge_transfer=edge, exc_effect=True)
        res = ({val for _f, val in seen.get(cfg.exit.id, ())}, seen)
        memo[key] = res
        return res

    exits, seen = walk(fi, base, frozenset(), 0, top=True)
    cfg = fi.cfg
    _ev_top, _thr, closed = make_ev(fi, base)
    for (fq, nid, k, req), (ok, fn_, n) in sorted(obl.items(), key=lambda kv: (kv[0][0], kv[0][1], kv[0][2], kv[0][3])):
        ck.ob(rule, fn_, n.ast, ok, why[(k, req)], construct="%s-after-%s %s" % (k, req, q.normalize_construct(n.ast, q.local_names(fn_.node)).split("\n")[0][:100]))
    # completion: the sequence reaches join (or knows there is no thread)
    if per_iteration:
        for n in cfg.stmt_nodes(lambda n: n.kind == "for"):
            vals = [val for _f, val in seen.get(n.id, ()) if val]
            for val in sorted(vals, key=sorted):
                ck.ob(rule, fi, n.ast.iter, {"flag", "notify", "wake", "join"} <= val, "each iteration sets the flag, notifies, wakes and joins the selector thread of that loop (events seen: %s)" % ",".join(sorted(val)), construct="iteration-end " + ",".join(sorted(val)))
            counts["iter"] = len(vals)
    else:
        for facts, val in sorted(seen.get(cfg.exit.id, ()), key=lambda s: (sorted(s[0]), sorted(s[1]))):
            early = any(pol and t in closed for t, pol in facts)
            ck.ob(rule, fi, fi.node, early or {"flag", "notify", "wake", "join"} <= val,
                  "close() returns only with the selector thread joined (or already closed / never started); events seen: %s" % ",".join(sorted(val)),
                  construct="exit " + ("already-closed" if early else ",".join(sorted(val))))
    return {k: v for k, v in counts.items() if isinstance(k, str)}


def rule_shutdown(ck, N):
    close = ck.func(F, CLS + ".close")
    c1 = _order(ck, "C40.shutdown-order", close, "self", N)
    ck.floor("C40.shutdown-order", c1.get("flag", 0), 1, "shutdown-flag writes in %s.close" % CLS)
    at = ck.func(F, "_atexit_callback")
    fors = [n for n in q.walk_body(at.node) if isinstance(n, ast.For) and isinstance(n.target, ast.Name)]
    if len(fors) != 1:
        raise AnalysisError("_atexit_callback: expected one loop over the registered selector threads")
    c2 = _order(ck, "C40.shutdown-order", at, fors[0].target.id, N, per_iteration=True)
    ck.floor("C40.shutdown-order", c2.get("flag", 0), 1, "shutdown-flag writes in _atexit_callback")
    ck.floor("C40.shutdown-order", c2.get("iter", 0), 1, "iteration-end states in _atexit_callback")
    # joins are unbounded: a join with a timeout lets close() return with the thread still running
    for f_ in (close, at):
        for c in q.calls(f_.node):
            if isinstance(c.func, ast.Attribute) and c.func.attr == "join" and (q.dotted(resolve_local(f_, c.func.value)) or "").endswith("." + N["thread"]):
                ck.ob("C40.shutdown-order", f_, c, not c.args and not c.keywords, "the selector thread is joined without a timeout (close returns only once it has stopped)")
    # the atexit send must tolerate a full pipe too
    pm = q.parent_map(at.node)
    for c in q.find_calls(at.node, "%s.%s.send" % (fors[0].target.id, N["waker_w"])):
        ck.ob("C40.waker", at, c, protected(pm, c, "BlockingIOError") is not None, "send on the non-blocking waker tolerates BlockingIOError (pipe already full)")
    # the atexit hook iterates the registry every instance joins in __init__
    init = ck.func(F, CLS + ".__init__")
    reg = q.dotted(fors[0].iter)
    ck.ob("C40.shutdown-order", init, init.node, bool(reg) and bool(q.find_calls(init.node, "%s.add" % reg)), "every SelectorThread registers itself in the set the atexit hook walks", construct="registered-for-atexit")


def run(ck):
    ck.repo = strip_annotations(ck.repo, F)
    ck.rule("C40.guarded-by", "the hand-off slot _select_args and the shutdown flag _closing_selector are read and written only under `with <obj>._select_cond` (outside __init__)")
    ck.rule("C40.wait-loop", "Condition.wait() is called only inside a while loop, under the lock, whose test is true exactly when the slot is empty and no shutdown was requested")
    ck.rule("C40.notify-after-write", "every write that can end the wait (slot := sets, flag := True) is followed by notify() on the same condition on every normal path")
    ck.rule("C40.no-block-under-lock", "no select / join / recv / sleep (directly or one call deep) while the condition is held")
    ck.rule("C40.take-and-clear", "each blocking select uses the lists taken from the slot in this loop iteration and the slot was set to None first")
    ck.rule("C40.report-back", "each select iteration that took the fd sets reports back via call_soon_threadsafe before waiting again")
    ck.rule("C40.thread-exit", "the selector thread can return, and returns only with the shutdown flag observed true")
    ck.rule("C40.confinement", "code on the selector thread never touches the fd maps or callbacks; the dispatch function is only handed to call_soon_threadsafe; the thread entry is only a Thread target")
    ck.rule("C40.single-handoff", "the hand-off function is called only by the thread starter and by the dispatch function")
    ck.rule("C40.restart-once", "the dispatch function hands off exactly once on every normal path")
    ck.rule("C40.snapshot", "the hand-off stores private copies of (reader keys, writer keys)")
    ck.rule("C40.dispatch", "select results are passed and dispatched with the matching map, each reported fd's callback runs exactly once")
    ck.rule("C40.removed-fd", "a reported fd that is no longer registered is skipped (no exception escapes the dispatch)")
    ck.rule("C40.waker", "waker socketpair: both ends non-blocking, read end registered with the draining callback, send/recv tolerate BlockingIOError")
    ck.rule("C40.wake-on-change", "every mutation of the reader/writer maps is followed by a wake of the selector thread")
    ck.rule("C40.shutdown-order", "close() and _atexit_callback: {flag, notify, wake} -> join -> close sockets; closed flag not before the wake; the sequence always reaches join")

    N = resolve(ck)
    run_ = ck.func(F, "%s.%s" % (CLS, N["entry"]))
    resolve_report(ck, N, run_)
    rule_guarded_by(ck, N)
    rule_wait_loop(ck, N, run_)
    rule_notify(ck, N)
    rule_no_block_under_lock(ck, N)
    rule_take_and_clear(ck, N, run_)
    rule_thread_exit(ck, N, run_)
    rule_report_back(ck, N, run_)
    rule_confinement(ck, N, run_)
    rule_start_callers(ck, N)
    rule_snapshot(ck, N)
    rule_dispatch(ck, N, run_)
    rule_waker(ck, N)
    rule_shutdown(ck, N)
    ck.note("resolved names: " + ", ".join("%s=%s" % (k, getattr(v, "qualname", v)) for k, v in sorted(N.items())))


# ---------------------------------------------------------------------------
# mutants


def _m(qn, edit):
    return lambda repo: mutate(repo, F, qn, edit)


def _src(n):
    return ast.unparse(n)


def _with_cond(root):
    return [n for n in ast.walk(root) if isinstance(n, ast.With) and "_select_cond" in _src(n.items[0].context_expr)]


def _move_take_out_of_lock(root):
    for loop in ast.walk(root):
        if isinstance(loop, ast.While):
            for i, st in enumerate(loop.body):
                if isinstance(st, ast.With) and "_select_cond" in _src(st.items[0].context_expr):
                    tail = [x for x in st.body if isinstance(x, ast.Assign) and "_select_args" in _src(x)]
                    if tail:
                        st.body = [x for x in st.body if x not in tail]
                        loop.body[i + 1:i + 1] = tail
                        return True
    return False


def _while_to_if(root):
    for w in _with_cond(root):
        for i, st in enumerate(w.body):
            if isinstance(st, ast.While) and "wait" in _src(st):
                w.body[i] = ast.If(test=st.test, body=st.body, orelse=[])
                return True
    return False


def _select_under_lock(root):
    for loop in ast.walk(root):
        if isinstance(loop, ast.While):
            for i, st in enumerate(loop.body[:-1]):
                nxt = loop.body[i + 1]
                if isinstance(st, ast.With) and "_select_cond" in _src(st.items[0].context_expr) and isinstance(nxt, ast.Try) and "select.select" in _src(nxt):
                    st.body.append(nxt)
                    del loop.body[i + 1]
                    return True
    return False


def _direct_dispatch(root):
    for h in ast.walk(root):
        if isinstance(h, ast.ExceptHandler) and h.type is not None and _src(h.type) == "RuntimeError":
            h.body = [parse_stmt("self._handle_select(rs, ws)")]
            return True
    return False


def _swap_adjacent(pred_a, pred_b):
    def edit(root):
        for node in ast.walk(root):
            body = getattr(node, "body", None)
            if isinstance(body, list):
                for i in range(len(body) - 1):
                    if pred_a(body[i]) and pred_b(body[i + 1]):
                        body[i], body[i + 1] = body[i + 1], body[i]
                        return True
        return False
    return edit


def _closed_first(root):
    body = root.body
    idx = [i for i, st in enumerate(body) if isinstance(st, ast.Assign) and _src(st).startswith("self._closed = True")]
    if not idx:
        return False
    st = body.pop(idx[0])
    # right after the `if self._closed: return` guard
    g = [i for i, x in enumerate(body) if isinstance(x, ast.If) and _src(x.test) == "self._closed"]
    body.insert(g[0] + 1 if g else 0, st)
    return True


def _untry(pred):
    return replace_stmt(lambda st: isinstance(st, ast.Try) and pred(st), lambda st: list(st.body))


def _flag_without_lock(root):
    for i, st in enumerate(root.body):
        if isinstance(st, ast.With) and "_select_cond" in _src(st.items[0].context_expr):
            root.body[i] = parse_stmt("self._closing_selector = True")
            return True
    return False


MUTANTS = [
    ("seeded C40-adv1: close() sets the shutdown flag without the lock and without notify", _m("SelectorThread.close", _flag_without_lock), ("C40.guarded-by", "C40.notify-after-write", "C40.shutdown-order")),
    ("bad-fd errors swallowed with `continue` (no report, no further hand-off)", _m("SelectorThread._run_select", replace_stmt(lambda st: isinstance(st, ast.If) and _src(st.test) == "rs", lambda st: [parse_stmt("if rs:\n    ws = []\nelse:\n    continue")])), "C40.report-back"),
    ("error set of select() no longer merged into the writable fds", _m("SelectorThread._run_select", remove_stmts(lambda st: isinstance(st, ast.Assign) and _src(st) == "ws = ws + xs")), "C40.dispatch"),
    ("close() joins with a timeout", _m("SelectorThread.close", replace_expr(lambda n: isinstance(n, ast.Call) and _src(n) == "self._thread.join()", lambda n: parse_expr("self._thread.join(1.0)"))), "C40.shutdown-order"),
    ("add_reader fast path for an already registered fd skips the wake", _m("SelectorThread.add_reader", replace_stmt(lambda st: isinstance(st, ast.Assign) and "_readers[fd]" in _src(st), lambda st: [parse_stmt("if fd in self._readers:\n    self._readers[fd] = functools.partial(callback, *args)\n    return"), st])), "C40.wake-on-change"),
    ("slot taken and cleared outside the lock", _m("SelectorThread._run_select", _move_take_out_of_lock), "C40.guarded-by"),
    ("`if` instead of `while` around wait()", _m("SelectorThread._run_select", _while_to_if), "C40.wait-loop"),
    ("wait loop ignores the shutdown flag", _m("SelectorThread._run_select", replace_expr(lambda n: isinstance(n, ast.BoolOp) and "_closing_selector" in _src(n) and "_select_args" in _src(n), lambda n: n.values[0])), "C40.wait-loop"),
    ("select() while holding the condition", _m("SelectorThread._run_select", _select_under_lock), "C40.no-block-under-lock"),
    ("dispatch directly on the selector thread when the loop is closed", _m("SelectorThread._run_select", _direct_dispatch), "C40.confinement"),
    ("close(): join before the waker is written", _m("SelectorThread.close", _swap_adjacent(lambda a: "_wake_selector" in _src(a), lambda b: isinstance(b, ast.If) and "join" in _src(b))), "C40.shutdown-order"),
    ("hand-off without notify()", _m("SelectorThread._start_select", remove_stmts(lambda st: isinstance(st, ast.Expr) and "notify" in _src(st))), "C40.notify-after-write"),
    ("slot not cleared after the take", _m("SelectorThread._run_select", remove_stmts(lambda st: isinstance(st, ast.Assign) and _src(st) == "self._select_args = None")), "C40.take-and-clear"),
    ("remove_writer does not wake the selector", _m("SelectorThread.remove_writer", remove_stmts(lambda st: "_wake_selector" in _src(st))), "C40.wake-on-change"),
    ("close(): _closed set before the wake (wake becomes a no-op)", _m("SelectorThread.close", _closed_first), "C40.shutdown-order"),
    ("restart the select only when something was ready", _m("SelectorThread._handle_select", replace_stmt(lambda st: isinstance(st, ast.Expr) and "_start_select" in _src(st), lambda st: [parse_stmt("if rs or ws:\n    self._start_select()")])), "C40.restart-once"),
    ("seeded C40-adv6: writable fds that are also readable are skipped", _m("SelectorThread._handle_select", replace_stmt(lambda st: isinstance(st, ast.Expr) and "self._writers" in _src(st), lambda st: [parse_stmt("if w not in rs:\n    self._handle_event(w, self._writers)")])), "C40.dispatch"),
    ("writable fds looked up in the reader map", _m("SelectorThread._handle_select", replace_expr(lambda n: isinstance(n, ast.Attribute) and n.attr == "_writers", lambda n: parse_expr("self._readers"))), "C40.dispatch"),
    ("removed fd raises KeyError out of the dispatch", _m("SelectorThread._handle_event", _untry(lambda st: True)), "C40.removed-fd"),
    ("hand off live dict views instead of copies", _m("SelectorThread._start_select", replace_expr(lambda n: isinstance(n, ast.Call) and isinstance(n.func, ast.Name) and n.func.id == "list", lambda n: n.args[0], limit=2)), "C40.snapshot"),
    ("add_reader re-arms the select itself", _m("SelectorThread.add_reader", replace_stmt(lambda st: "_wake_selector" in _src(st), lambda st: [st, parse_stmt("self._start_select()")])), "C40.single-handoff"),
    ("atexit hook does not write the waker", _m("_atexit_callback", remove_stmts(lambda st: isinstance(st, ast.Try) and "send" in _src(st))), "C40.shutdown-order"),
    ("thread does not return on shutdown", _m("SelectorThread._run_select", remove_stmts(lambda st: isinstance(st, ast.If) and _src(st.test) == "self._closing_selector")), "C40.thread-exit"),
    ("waker write end left blocking", _m("SelectorThread.__init__", remove_stmts(lambda st: _src(st) == "self._waker_w.setblocking(False)")), "C40.waker"),
    ("close(): shutdown flag without notify()", _m("SelectorThread.close", remove_stmts(lambda st: isinstance(st, ast.Expr) and "notify" in _src(st))), ("C40.notify-after-write", "C40.shutdown-order")),
    ("close(): sockets closed without joining the thread", _m("SelectorThread.close", remove_stmts(lambda st: isinstance(st, ast.If) and "join" in _src(st))), "C40.shutdown-order"),
    ("waker write end registered as the reader", _m("SelectorThread.__init__", replace_expr(lambda n: isinstance(n, ast.Call) and _src(n.func) == "self.add_reader", lambda n: parse_expr("self.add_reader(self._waker_w, self._consume_waker)"))), "C40.waker"),
    ("read and write lists swapped in select()", _m("SelectorThread._run_select", replace_expr(lambda n: isinstance(n, ast.Call) and _src(n.func) == "select.select" and isinstance(n.args[0], ast.Name), lambda n: parse_expr("select.select(to_write, to_read, to_write)"))), "C40.take-and-clear"),
    ("thread may exit when merely idle", _m("SelectorThread._run_select", replace_stmt(lambda st: isinstance(st, ast.If) and _src(st.test) == "self._closing_selector", lambda st: [parse_stmt("if self._closing_selector or self._select_args is None:\n    return")])), "C40.thread-exit"),
    ("_wake_selector lets BlockingIOError escape", _m("SelectorThread._wake_selector", _untry(lambda st: "send" in _src(st))), "C40.waker"),
]
