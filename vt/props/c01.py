"""C01 — HTTP/1.x request framing is exact, strict and chunking-independent.

Decided statically (DESIGN.md §4 C01): the necessary code-shape conditions of
the server read path

* the languages of the header-block delimiter, the request line, field names,
  field values and the Host header (regex automata, compared with references
  written from RFC 9110/9112 plus Tornado's documented leniencies) and the
  call-site method (``fullmatch``);
* validation guards dominate every store into the header multimap;
* the framing decision table (conflicting / non-integer Content-Length,
  Content-Length + Transfer-Encoding, ``chunked`` by equality, other codings
  rejected, no close-delimited request bodies);
* strict integers for Content-Length and chunk sizes, crash-free integers
  elsewhere in the read call tree;
* chunk grammar (size line, counted data reads, CRLF terminator checked, end
  only at the zero chunk);
* error discipline: every exception peer bytes can provoke in the read call
  tree is HTTPInputError (-> 400, close, stop) — no ``assert`` on wire data,
  no unprotected unpack/decode/int, HTTPInputError passes the delegate logging
  context, the 400 path writes/closes/returns False and the serving loop stops;
* http1connection.py reads the stream only through the public IOStream API.

Not decided: that the delivered request sequence equals the reference reader's
for all byte strings and segmentations (needs execution of parser + IOStream).
"""
from __future__ import annotations

import ast

from .. import q
from ..model import AnalysisError, ModuleInfo
from ..rules import call_sites, node_calls, require_before, tainted_names, is_type_narrowing_assert
from ..mutate import mutate, remove_stmts, replace_expr, replace_stmt, parse_stmt, parse_expr
from ..x_http import (
    RegexEnv, atom_edges, call_sites_in, call_tree, canon_atom, contains, forward_until, group_count, group_rx, handler_for,
    leads_to_raise, node_mentions, only_through, raised_class, reach_without, rebinds_between, resolve_call, same_expr,
    single_bindings, truthy_edges, norm_func, Flow, group_index, handler_class_names, unpack_of, const_of, argx, bound_args, mk_evaluator, module_consts,
)

TECHNIQUE = "regex-automata language bounds + branch-edge guard dominance on the CFG + exception-escape lint over the resolved read call tree"
EXPLANATION = (
    "Every regex on the server read path is evaluated statically to an automaton and compared (inclusion/equivalence) with a "
    "reference written from RFC 9110/9112, taking the call-site method into account; each store into the header multimap, each "
    "framing decision and each int() of wire text must be reachable only through the branch edge of the validating test (edges "
    "removed from the CFG, reachability recomputed); raise/assert/unpack/decode/int sites in the statically resolved call tree of "
    "HTTP1Connection._read_message are checked against the handlers extracted from _read_message and _server_request_loop."
)
NOT_DECIDED = (
    "equality of the delivered request sequence with a reference RFC 9112 reader over all byte strings and segmentations (needs "
    "execution); chunk-extension/trailer conformance; KeyError/IndexError on internal containers; IOStream's own segmentation handling (C11)"
)
LEVEL_NOTE = "necessary structural conditions only; trusted: CPython re/int/str semantics as modelled in vt.rx and the frozen raise model"

H1 = "tornado/http1connection.py"
HU = "tornado/httputil.py"
HS = "tornado/httpserver.py"

# --- references written from the RFCs --------------------------------------------------
TCHAR = r"[!#$%&'*+\-.^_`|~0-9A-Za-z]"
TOKEN = TCHAR + "+"                                   # RFC 9110 5.6.2
FVCHAR = r"[\x21-\x7E\x80-\xFF]"                      # field-vchar = VCHAR / obs-text
VCHAR = r"[\x21-\x7E]"
HTTP_VERSION = r"HTTP/[0-9]\.[0-9]"                   # RFC 9112 2.3
# request-line = method SP request-target SP HTTP-version (RFC 9112 3); Tornado documents
# "everything but control chars and whitespace" for the target (upper bound); every
# RFC 3986 origin/absolute/authority/asterisk-form target must be accepted (lower bound).
REQ_UPPER = "%s %s+ %s" % (TOKEN, FVCHAR, HTTP_VERSION)
REQ_LOWER = r"%s (?:[A-Za-z0-9\-._~!$&'()*+,;=:@/?\[\]]|%%[0-9A-Fa-f]{2})+ %s" % (TOKEN, HTTP_VERSION)
REQ_UPPER_1X = r"%s %s+ HTTP/1\.[0-9]" % (TOKEN, FVCHAR)
# field-value = *field-content (RFC 9110 5.5): empty, or starts and ends with a field-vchar
FIELD_VALUE_UPPER = r"(?:%s(?:(?:%s|[ \t])*%s)?)?" % (FVCHAR, FVCHAR, FVCHAR)
FIELD_VALUE_LOWER = r"(?:%s(?:(?:%s|[ \t])*%s)?)?" % (VCHAR, VCHAR, VCHAR)
# Host = uri-host [ ":" port ] (RFC 9110 7.2, RFC 3986 3.2.2); Tornado documents that
# brackets and colons are allowed anywhere (upper bound).
HOST_UPPER = r"(?:[A-Za-z0-9\-._~!$&'()*+,;=\[\]:]|%[0-9A-Fa-f]{2})*"
HOST_LOWER = r"(?:(?:[A-Za-z0-9\-._~!$&'()*+;=]|%[0-9A-Fa-f]{2})*|\[[0-9A-Fa-f:.]+\])(?::[0-9]*)?"
HEADER_END = rb"\r?\n\r?\n"                            # CRLF CRLF with bare-LF leniency (RFC 9112 2.2)
BAD_REQUEST = rb"HTTP/1\.[01] 400 [\t \x21-\x7e\x80-\xff]*\r\n(?:[^\r\n]+\r\n)*\r\n"
INT_LIMIT = 4300  # CPython's default str->int digit limit


def _F(ck, rel, qn):
    """the anchored function with private single-purpose helpers inlined (statements a refactoring moved into
    `self._helper()` are analysed in place); same qualified name"""
    return norm_func(ck.repo, ck.func(rel, qn))


def _header_splitter(ck):
    """the function that cuts the header block into start line and header text: _parse_headers, or _read_message when a
    refactoring inlined it there"""
    if ck.repo.has_func(H1, "HTTP1Connection._parse_headers"):
        return _F(ck, H1, "HTTP1Connection._parse_headers")
    return _F(ck, H1, "HTTP1Connection._read_message")


def _is_input_error(cls):
    return cls is not None and cls.split(".")[-1] == "HTTPInputError"


def _stream_read(n):
    return isinstance(n, ast.Call) and isinstance(n.func, ast.Attribute) and n.func.attr in ("read_until_regex", "read_until", "read_bytes", "read_until_close") and (q.dotted(n.func.value) or "").endswith("stream")


_MODS = []  # modules whose module-level literals may stand for a literal in the anchored code (set in run())


def init_modules(ck):
    _MODS[:] = [ck.repo.module(H1), ck.repo.module(HU)]


def _lit(e):
    """the literal ``e`` denotes: itself, or the module-level constant a bare name refers to (hoisted literal)"""
    if isinstance(e, ast.Constant):
        return e
    if isinstance(e, ast.Name):
        hits = [m.assigns[e.id] for m in _MODS if isinstance(m.assigns.get(e.id), ast.Constant)]
        if len(hits) == 1:
            return hits[0]
    return e


def _const_str(e, v=None):
    e = _lit(e) if e is not None else e
    return isinstance(e, ast.Constant) and isinstance(e.value, str) and (v is None or e.value == v)


def _hdr_in(a, key, hp=None):
    """atom ``"<key>" in <headers>`` (canonical positive form)."""
    return (isinstance(a, ast.Compare) and len(a.ops) == 1 and isinstance(a.ops[0], ast.In) and _const_str(a.left, key)
            and (hp is None or q.dotted(a.comparators[0]) == hp))


def _hdr_absent(key, hp, binds):
    """pred for atom_edges: the truth value of the atom on which header ``key`` is ABSENT.
    Recognised: ``"K" in H`` (False) and ``H.get("K") is None`` directly or through a single-binding alias (True)."""
    def denotes_get(e):
        if isinstance(e, ast.Name) and e.id in binds:
            e = binds[e.id]
        return (isinstance(e, ast.Call) and q.call_attr(e) == "get" and q.dotted(e.func.value) == hp and len(e.args) >= 1 and _const_str(e.args[0], key)
                and (len(e.args) == 1 or q.is_const(e.args[1], None)) and not e.keywords)

    def pred(a):
        if _hdr_in(a, key, hp):
            return False
        if isinstance(a, ast.Compare) and len(a.ops) == 1 and isinstance(a.ops[0], ast.Is) and q.is_const(a.comparators[0], None) and denotes_get(a.left):
            return True
        return None

    return pred


def _hdr_get(e, key, hp=None):
    return isinstance(e, ast.Subscript) and _const_str(e.slice, key) and (hp is None or q.dotted(e.value) == hp)


def _is_bytes(e, v):
    e = _lit(e) if e is not None else e
    return isinstance(e, ast.Constant) and e.value == v


def _stmt_node(fi, astnode):
    ns = fi.cfg.nodes_for(astnode)
    if not ns:
        raise AnalysisError("no reachable CFG node for %s" % fi.site(astnode))
    return ns


def _flag_param(fi):
    """The keyword-only boolean parameter selecting HTTP (latin-1 bytes) validation."""
    a = fi.node.args
    cands = [(x.arg, d) for x, d in zip(a.kwonlyargs, a.kw_defaults) if d is not None and isinstance(d, ast.Constant) and isinstance(d.value, bool)]
    if len(cands) != 1:
        raise AnalysisError("%s: expected exactly one boolean keyword-only mode parameter" % fi.qualname)
    return cands[0]


# ---------------------------------------------------------------------------------------
# read call tree


def read_tree(ck):
    repo = ck.repo
    seeds = [
        ck.func(H1, "HTTP1Connection._read_message"),
        ck.func(HU, "HTTPHeaders.parse"), ck.func(HU, "HTTPHeaders.parse_line"), ck.func(HU, "HTTPHeaders.add"),
        ck.func(HU, "HTTPHeaders.__setitem__"), ck.func(HU, "HTTPHeaders.__getitem__"), ck.func(HU, "HTTPHeaders.__contains__"),
        ck.func(HS, "_CallableAdapter.headers_received"),
        ck.func(HU, "HTTPServerRequest.__init__"),
        # the strict integer parsers and the transfer-coding predicate are governed even if a call to them is edited away
        ck.func(H1, "parse_int"), ck.func(H1, "parse_hex_int"), ck.func(H1, "is_transfer_encoding_chunked"),
    ]
    write_side = {"write_headers", "write", "finish", "_format_chunk", "_on_write_complete", "_finish_request"}
    tree = call_tree(repo, seeds, stop=lambda f: f.file not in (H1, HU, HS))
    tree = {k: f for k, f in tree.items() if f.file in (H1, HU, HS) and f.name not in write_side}
    need = ["_read_message", "_parse_headers", "_read_body", "_read_fixed_body", "_read_chunked_body", "is_transfer_encoding_chunked",
            "parse_int", "parse_hex_int", "parse_request_start_line", "split_host_and_port", "__init__", "parse_line", "add", "_can_keep_alive"]
    names = {f.name for f in tree.values()}
    if not repo.has_func(H1, "HTTP1Connection._parse_headers"):
        need = [n for n in need if n != "_parse_headers"]  # inlined into _read_message: its statements are analysed there
    missing = [n for n in need if n not in names]
    if missing:
        raise AnalysisError("read call tree lost %s (call resolution drifted)" % ", ".join(missing))
    for f in tree.values():
        ck.use(f)
    return tree


def wire_taint(fi):
    """Names/paths of ``fi`` that may hold peer-controlled data: results of stream
    reads and every parameter except self/cls, delegates and boolean mode flags."""
    src = set()
    a = fi.node.args
    for x, d in list(zip(a.posonlyargs + a.args, [None] * (len(a.posonlyargs + a.args) - len(a.defaults)) + list(a.defaults))) + list(zip(a.kwonlyargs, a.kw_defaults)):
        if x.arg in ("self", "cls"):
            continue
        ann = q.unparse(x.annotation) if x.annotation is not None else ""
        if "Delegate" in ann or "Connection" in ann or ann in ("bool", "object", "object | None"):
            continue
        src.add(x.arg)
    t = tainted_names(fi, src, source_calls=(".read_until_regex", ".read_until", ".read_bytes", ".read_until_close"))
    return t


def _mentions_taint(e, tainted):
    for n in ast.walk(e):
        if isinstance(n, (ast.Name, ast.Attribute)):
            d = q.dotted(n)
            if d:
                parts = d.split(".")
                if any(".".join(parts[:i]) in tainted for i in range(1, len(parts) + 1)):
                    return True
        if _stream_read(n):
            return True
    return False


_POSITIVE_CONTROL = '''
async def reader(self, delegate):
    crlf = await self.stream.read_bytes(2)
    assert crlf == b"\\r\\n"
    assert delegate is not None
'''


def wire_asserts(fi):
    t = wire_taint(fi)
    out = []
    for n in q.walk_body(fi.node):
        if isinstance(n, ast.Assert) and not is_type_narrowing_assert(n) and _mentions_taint(n.test, t):
            out.append(n)
    return out


# ---------------------------------------------------------------------------------------
# rule groups


def check_header_block(ck, env, RP="C01"):
    fi = _F(ck, H1, "HTTP1Connection._read_message")
    reads = call_sites(fi, ".read_until_regex")
    ck.floor(RP + ".header-block-delimiter", len(reads), 1, "read_until_regex calls in _read_message")
    ref_s = env.rx(HEADER_END, "search")
    ref_f = env.rx(HEADER_END, "fullmatch")
    for node, c in reads:
        pe = q.arg(c, 0, "regex")
        pe = _lit(pe) if pe is not None else pe
        pat = None
        if isinstance(pe, ast.Constant) and isinstance(pe.value, bytes):
            pat = pe.value
        elif pe is not None:
            pat = env.pattern(fi, pe)
        if pat is None:
            raise AnalysisError("header delimiter regex is not a static pattern at %s" % fi.site(c))
        if isinstance(pat, str):
            pat = pat.encode("latin1")
        ls, lf = env.rx(pat, "search"), env.rx(pat, "fullmatch")
        w = ls.difference_witness(ref_s)
        ck.ob(RP + ".header-block-delimiter", fi, c, w is None, "the header block ends at the first blank line: search-language of the delimiter equals (CR? LF){2}%s" % ("" if w is None else " (differs on %r: %s)" % w))
        w2 = lf.witness_not_in(ref_f)
        ck.ob(RP + ".header-block-delimiter", fi, c, w2 is None, "the delimiter itself matches nothing but (CR? LF){2}%s" % ("" if w2 is None else " (also matches %r)" % w2))


def check_request_line(ck, env, RP="C01"):
    R = RP + ".request-line"
    fi = _F(ck, HU, "parse_request_start_line")
    cfg = fi.cfg
    rcalls = env.calls(fi)
    ck.floor(R, len(rcalls), 1, "regex calls in parse_request_start_line")
    line_p = [p for p in fi.params()][0]
    gates = [(c, m, pat, subj) for c, m, pat, subj in rcalls if subj is not None and q.dotted(subj) == line_p]
    ck.floor(R, len(gates), 1, "regex tests of the request line")
    pos_all, neg_all = set(), set()
    upper, lower, upper1x = env.rx(REQ_UPPER), env.rx(REQ_LOWER), env.rx(REQ_UPPER_1X)
    only_1x = False
    for c, m, pat, subj in gates:
        pos, neg = truthy_edges(fi, lambda e, c=c: e is c)
        pos_all |= pos
        neg_all |= neg
        ck.ob(R, fi, c, m == "fullmatch", "the request line is tested against the whole line (fullmatch); found %s" % m)
        lang = env.rx(pat, m)
        w = lang.witness_not_in(upper)
        ck.ob(R, fi, c, w is None, "accepted request lines ⊆ token SP target(no CTL/space) SP HTTP-version%s" % ("" if w is None else " (accepts %r)" % w))
        w = lower.witness_not_in(lang)
        ck.ob(R, fi, c, w is None, "every RFC 9112 request line (RFC 3986 target characters) is accepted%s" % ("" if w is None else " (rejects %r)" % w))
        if lang.subset_of(upper1x):
            only_1x = True
        if group_count(pat) >= 3:
            for gi, (gname, gref) in enumerate((("method", TOKEN), ("request-target", FVCHAR + "+"), ("HTTP-version", HTTP_VERSION)), 1):
                g = group_rx(pat, gi)
                ck.ob(R, fi, c, g.subset_of(env.rx(gref)), "capture group %d denotes the %s" % (gi, gname), construct="group %d of request_line" % gi)
    rets = cfg.stmt_nodes(lambda n: n.kind == "stmt" and isinstance(n.ast, ast.Return))
    ck.floor(R, len(rets), 1, "returns of parse_request_start_line")
    for r in rets:
        ck.ob(R, fi, r.ast, only_through(cfg, r, pos_all), "a start line is returned only when the regex matched")
    ok, n = leads_to_raise(cfg, neg_all, _is_input_error)
    ck.ob(R, fi, fi.node, ok and n > 0, "a non-matching request line raises HTTPInputError", construct="no-match edge")
    # HTTP/1.x gate
    ver = atom_edges(cfg, lambda a: True if (isinstance(a, ast.Call) and q.call_attr(a) == "startswith" and a.args and _const_str(a.args[0]) and a.args[0].value.startswith("HTTP/1")) else None)
    for r in rets:
        ck.ob(R, fi, r.ast, only_1x or only_through(cfg, r, ver), "only HTTP/1.x versions are returned (version gate or regex)")
    # fields come from the groups in order (through aliases / tuple unpacking)
    flow = Flow(fi)
    ctor = [c for c in q.calls(fi.node) if q.call_attr(c) == "RequestStartLine"]
    ck.floor(R, len(ctor), 1, "RequestStartLine constructions")
    for c in ctor:
        at = flow.node_of(c)
        cargs = [argx(ck.repo, fi, c, i_) for i_ in range(3)]
        idx = [None if a is None else group_index(flow.expand(a, at)) for a in cargs]
        if None in idx or len(c.args) + len(c.keywords) != 3:
            raise AnalysisError("RequestStartLine built from something else than match groups at %s" % fi.site(c))
        ck.ob(R, fi, c, idx == [1, 2, 3], "RequestStartLine(method, path, version) is built from groups 1, 2, 3 in order")


def _other_tests_on(fi, names, recognised_calls=()):
    """test nodes of ``fi`` that mention one of ``names`` but are none of the recognised validating calls: evidence that
    a validation exists in a shape the rule cannot read (-> not decided), as opposed to no validation at all"""
    rec = set(id(c) for c in recognised_calls)
    out = []
    binds = single_bindings(fi.node)
    names = set(names)
    # locals computed from the governed value (named booleans, temporaries) count as mentioning it
    def testlike(v):
        return isinstance(v, ast.Compare) or (isinstance(v, ast.UnaryOp) and isinstance(v.op, ast.Not)) or (isinstance(v, ast.Call) and q.call_attr(v) in ("fullmatch", "match", "search", "startswith", "endswith", "isdigit", "isascii", "isidentifier", "all", "any"))

    derived = {k for k, v in binds.items() if testlike(v) and (q.names_in(v) & names) and not any(id(x) in rec for x in ast.walk(v))}
    for n in fi.cfg.stmt_nodes(lambda n: n.kind == "test"):
        if (q.names_in(n.ast) & (names | derived)) and not any(id(x) in rec for x in ast.walk(n.ast)):
            out.append(n)
    return out


def _undecided_unless_absent(fi, what, names, recognised_calls, edges):
    """Rule 3: a missing guard is a violation only if nothing at all tests the governed value"""
    if not edges:
        others = _other_tests_on(fi, names, recognised_calls)
        if others:
            raise AnalysisError("%s: %s is tested in a form the rule does not recognise (%s)" % (fi.qualname, what, q.unparse(others[0].ast)[:80]))


def _store_nodes(fi, dict_attr):
    """CFG nodes of ``fi`` that put a value into the header multimap: ``self[k] = v``,
    assignment/aug-assignment under ``self.<dict_attr>[...]``, ``self.<dict_attr>[k].append/extend/insert(v)``.
    Returns [(node, value expr)]."""
    out = []
    flow = Flow(fi)

    def under_dict(t, node):
        # the subscripted container, seen through local aliases (`values = self.<dict>[k]; values[-1] = ...`)
        e = flow.expand(t, node)
        return any(isinstance(x, ast.Attribute) and x.attr == dict_attr and q.dotted(x) == "self." + dict_attr for x in ast.walk(e))

    for n in fi.cfg.stmt_nodes(lambda n: n.kind == "stmt"):
        st = n.ast
        if isinstance(st, ast.Assign):
            for t in st.targets:
                if isinstance(t, ast.Subscript) and (q.dotted(t.value) == "self" or under_dict(t.value, n)):
                    v = st.value
                    # x[i] = x[i] + v   is   x[i] += v
                    if isinstance(v, ast.BinOp) and isinstance(v.op, ast.Add) and same_expr(v.left, t):
                        v = v.right
                    out.append((n, v))
        elif isinstance(st, ast.AugAssign) and isinstance(st.target, ast.Subscript) and under_dict(st.target.value, n):
            out.append((n, st.value))
        elif isinstance(st, ast.Expr) and isinstance(st.value, ast.Call) and isinstance(st.value.func, ast.Attribute) and st.value.func.attr in ("append", "extend", "insert") and under_dict(st.value.func.value, n):
            out.append((n, st.value.args[-1] if st.value.args else None))
    return out


def _is_blacklist(fi, call):
    """A regex test whose *match* leads to a raise (forbidden-character search of the
    non-HTTP mode) — as opposed to a validator, whose failure to match raises."""
    pos, neg = truthy_edges(fi, lambda e: e is call)
    okp, n = leads_to_raise(fi.cfg, pos, lambda cls: cls is not None)
    return n > 0 and okp


def _dict_attr(ck):
    ga = _F(ck, HU, "HTTPHeaders.get_all")
    for c in q.calls(ga.node):
        if q.call_attr(c) == "items" and (q.dotted(c.func.value) or "").startswith("self."):
            return q.dotted(c.func.value).split(".", 1)[1]
    raise AnalysisError("cannot derive the multimap attribute from HTTPHeaders.get_all")


def check_header_fields(ck, env, RP="C01"):
    da = _dict_attr(ck)
    add = _F(ck, HU, "HTTPHeaders.add")
    pl = _F(ck, HU, "HTTPHeaders.parse_line")
    parse = _F(ck, HU, "HTTPHeaders.parse")
    token = env.rx(TOKEN)
    fv_up, fv_lo = env.rx(FIELD_VALUE_UPPER), env.rx(FIELD_VALUE_LOWER)
    flag, _d = _flag_param(add)

    def flag_off(cfg, flagname):
        return atom_edges(cfg, lambda a: False if (isinstance(a, ast.Name) and a.id == flagname) else None)

    def value_lang(rule, fi, c, m, pat, what):
        ck.ob(rule, fi, c, m == "fullmatch", "%s is tested with fullmatch; found %s" % (what, m))
        lang = env.rx(pat, m)
        w = lang.witness_not_in(fv_up)
        ck.ob(rule, fi, c, w is None, "%s language ⊆ RFC 9110 field-value (no CTL except HTAB, no leading/trailing whitespace)%s" % (what, "" if w is None else " (accepts %r)" % w))
        w = fv_lo.witness_not_in(lang)
        ck.ob(rule, fi, c, w is None, "every RFC 9110 field-value of visible ASCII is accepted%s" % ("" if w is None else " (rejects %r)" % w))

    # ---- add(name, value)
    ps = [p for p in add.params() if p != "self"]
    name_p, value_p = ps[0], ps[1]
    rc = env.calls(add)
    stores = _store_nodes(add, da)
    ck.floor(RP + ".header-name", len(stores), 1, "stores into the header multimap in HTTPHeaders.add")
    name_calls = [x for x in rc if x[3] is not None and q.dotted(x[3]) == name_p]
    val_calls = [x for x in rc if x[3] is not None and value_p in q.names_in(x[3]) and not _is_blacklist(add, x[0])]
    npos, nneg = set(), set()
    for c, m, pat, subj in name_calls:
        p, n = truthy_edges(add, lambda e, c=c: e is c)
        npos |= p
        nneg |= n
        ck.ob(RP + ".header-name", add, c, m == "fullmatch", "the field name is tested with fullmatch; found %s" % m)
        w = env.rx(pat, m).difference_witness(token)
        ck.ob(RP + ".header-name", add, c, w is None, "field-name language equals RFC 9110 token%s" % ("" if w is None else " (differs on %r: %s)" % w))
    vpos, vneg = set(), set()
    for c, m, pat, subj in val_calls:
        p, n = truthy_edges(add, lambda e, c=c: e is c)
        if not p and not n:
            raise AnalysisError("HTTPHeaders.add: the result of %s is not used as a branch condition the rule can read" % q.unparse(c)[:70])
        vpos |= p
        vneg |= n
        value_lang(RP + ".header-value", add, c, m, pat, "the field value")
    off = flag_off(add.cfg, flag)
    _undecided_unless_absent(add, "the field name", {name_p}, [x[0] for x in name_calls], npos)
    _undecided_unless_absent(add, "the field value", {value_p}, [x[0] for x in rc], vpos)
    for node, v in stores:
        ck.ob(RP + ".header-name", add, node.ast, only_through(add.cfg, node, npos), "store into the multimap only after the name matched token")
        ck.ob(RP + ".header-name", add, node.ast, not rebinds_between(add.cfg, npos, node, {name_p}), "the checked name is not re-bound before the store")
        ck.ob(RP + ".header-value", add, node.ast, only_through(add.cfg, node, vpos | off), "store into the multimap only after the value matched field-value (HTTP mode)")
        ck.ob(RP + ".header-value", add, node.ast, v is not None and q.dotted(v) == value_p and not rebinds_between(add.cfg, vpos, node, {value_p}), "the stored value is the checked parameter")
    ok, n = leads_to_raise(add.cfg, nneg, _is_input_error)
    ck.ob(RP + ".header-name", add, add.node, ok and n > 0, "an invalid field name raises HTTPInputError", construct="no-match edge (name)")
    ok, n = leads_to_raise(add.cfg, vneg, _is_input_error)
    ck.ob(RP + ".header-value", add, add.node, ok and n > 0, "an invalid field value raises HTTPInputError", construct="no-match edge (value)")

    # ---- parse_line: continuation lines and the name/value split
    R = RP + ".header-continuation"
    plflag, _d = _flag_param(pl)
    pstores = _store_nodes(pl, da)
    ck.floor(R, len(pstores), 1, "continuation stores in HTTPHeaders.parse_line")
    prc = env.calls(pl)
    off = flag_off(pl.cfg, plflag)
    plflow = Flow(pl)

    def _store_key(node):
        """the (expanded) expression naming the field a continuation store extends: self.<dict>[KEY][-1] += ..."""
        tgt = node.ast.target if isinstance(node.ast, ast.AugAssign) else (node.ast.targets[0] if isinstance(node.ast, ast.Assign) else None)
        if isinstance(tgt, ast.Subscript):
            base = plflow.expand(tgt.value, node)
            if isinstance(base, ast.Subscript):
                return base.slice
        return None

    def lastkey_edges(key):
        out = set()
        for tn in pl.cfg.stmt_nodes(lambda n: n.kind == "test"):
            a, flip = canon_atom(tn.ast)
            if isinstance(a, ast.Compare) and len(a.ops) == 1 and isinstance(a.ops[0], ast.Is) and q.is_const(a.comparators[0], None) and key is not None and same_expr(plflow.expand(a.left, tn), key):
                for sid, kind in pl.cfg.succ[tn.id]:
                    if kind in ("true", "false") and ((kind == "true") != flip) is False:
                        out.add((tn.id, sid, kind))
        return out
    for node, v in pstores:
        if v is None or not isinstance(v, ast.Name):
            raise AnalysisError("continuation store of an unknown shape at %s" % pl.site(node.ast))
        pos, neg = set(), set()
        for c, m, pat, subj in prc:
            if subj is not None and v.id in q.names_in(subj) and not _is_blacklist(pl, c):
                p, n = truthy_edges(pl, lambda e, c=c: e is c)
                if not p and not n:
                    raise AnalysisError("HTTPHeaders.parse_line: the result of %s is not used as a branch condition the rule can read" % q.unparse(c)[:70])
                pos |= p
                neg |= n
                value_lang(R, pl, c, m, pat, "the continuation text")
                # the tested slice must be the stored text minus its single joining space
                if isinstance(subj, ast.Subscript) and isinstance(subj.slice, ast.Slice):
                    lo = subj.slice.lower
                    ck.ob(R, pl, c, subj.slice.upper is None and isinstance(lo, ast.Constant) and lo.value == 1, "the validated text is the stored text without the one joining space")
        _undecided_unless_absent(pl, "the continuation text", {v.id}, [x[0] for x in prc], pos)
        ck.ob(R, pl, node.ast, only_through(pl.cfg, node, pos | off), "a folded line is appended only after it matched field-value (HTTP mode)")
        ck.ob(R, pl, node.ast, not rebinds_between(pl.cfg, pos, node, {v.id}), "the checked continuation text is not re-bound before the append")
        key = _store_key(node)
        if key is None or not (q.dotted(key) or "").startswith("self."):
            raise AnalysisError("continuation store: cannot identify the field it extends at %s" % pl.site(node.ast))
        ck.ob(R, pl, node.ast, only_through(pl.cfg, node, lastkey_edges(key)), "a continuation line needs a previous header (%s is not None; else HTTPInputError, not KeyError)" % q.dotted(key))
        ok, n = leads_to_raise(pl.cfg, neg, _is_input_error)
        ck.ob(R, pl, pl.node, ok and n > 0, "an invalid continuation raises HTTPInputError", construct="no-match edge (continuation)")
    # flag forwarding and defaults (strict mode is what the server uses)
    R = RP + ".strict-header-mode"
    for f in (add, pl, parse):
        fl, d = _flag_param(f)
        ck.ob(R, f, f.node, d.value is True, "%s validates in HTTP (latin-1 bytes) mode by default" % f.qualname, construct="default of %s" % fl)
    n = 0
    for f, callee in ((parse, "parse_line"), (pl, "add")):
        fl, _d = _flag_param(f)
        tfl, _d2 = _flag_param(ck.repo.func(HU, "HTTPHeaders." + callee))
        for c in q.calls(f.node):
            if q.call_attr(c) == callee and isinstance(c.func, ast.Attribute):
                n += 1
                kv = q.kwarg(c, tfl)
                ck.ob(R, f, c, kv is None or (isinstance(kv, ast.Name) and kv.id == fl) or q.is_const(kv, True), "%s forwards the validation mode to %s" % (f.qualname, callee))
    ck.floor(R, n, 2, "parse_line/add forwarding calls")
    ph = _header_splitter(ck)
    pc = [c for c in q.calls(ph.node) if resolve_call(ck.repo, ph, c) is parse]
    ck.floor(R, len(pc), 1, "HTTPHeaders.parse calls in _parse_headers")
    pfl, _d = _flag_param(parse)
    for c in pc:
        kv = q.kwarg(c, pfl)
        ck.ob(R, ph, c, (kv is None or q.is_const(kv, True)) and not any(k.arg is None for k in c.keywords), "the connection parses header blocks in strict HTTP mode")
    check_parse_line_folded(ck, RP)


def regex_folder(ck, fi):
    """fallback hook for vt.x_absint: fold ``re.<m>(<constant pattern>, text)`` and ``<module/class-level pattern>.<m>(text)``
    with the stdlib's re on the pattern text obtained by static evaluation (no tornado code runs)"""
    import re as _re
    from ..x_absint import UNK
    renv = RegexEnv(ck.repo)

    def fb(st, c, d, args):
        if not (isinstance(c.func, ast.Attribute) and c.func.attr in ("search", "match", "fullmatch", "split")) or c.keywords:
            return NotImplemented
        if q.dotted(c.func.value) == "re":
            if len(c.args) >= 2 and isinstance(c.args[0], ast.Constant) and isinstance(args[0], (str, bytes)) and isinstance(args[1], type(args[0])):
                return getattr(_re, c.func.attr)(args[0], args[1])
            return NotImplemented
        try:
            pat = renv.pattern(fi, c.func.value)
        except AnalysisError:
            pat = None
        if pat is not None and len(args) == 1 and isinstance(args[0], type(pat)):
            return getattr(_re.compile(pat), c.func.attr)(args[0])
        if pat is not None and len(args) == 1 and args[0] is not UNK and not isinstance(args[0], type(pat)):
            return UNK
        return NotImplemented

    return fb


def fold_parse_line(ck, pl, line, last_key="X-A", http_mode=True):
    """Fold HTTPHeaders.parse_line for one concrete line.  Returns [(kind, exc, add() calls, stored values of X-A)]."""
    from ..x_absint import Evaluator, Obj, UNK
    ps = [p for p in pl.params() if p != "self"]
    flag, _d = _flag_param(pl)
    adds = []
    ev = mk_evaluator(pl)
    ev.signatures["self.add"] = [p_ for p_ in ck.repo.func(HU, "HTTPHeaders.add").params() if p_ != "self"]

    def on_call(st, c, d, args):
        if d == "self.add":
            kw = {k.arg: ev.ev(k.value, st) for k in c.keywords if k.arg}
            adds.append((tuple(args), kw))

    ev.on_call = on_call
    ev.funcs["self.add"] = lambda st, *a: None
    ev.fallback = regex_folder(ck, pl)
    env = {k: v.value for k, v in pl.module.assigns.items() if isinstance(v, ast.Constant) and isinstance(v.value, (str, bytes, int))}
    me = Obj("self", _as_list={"X-A": ["v"]}, _combined_cache={"X-A": "v"}, _last_key=last_key)
    da = _dict_attr(ck)
    if da != "_as_list":
        me.attrs[da] = me.attrs.pop("_as_list")
    env.update({"self": me, ps[0]: line, flag: http_mode})
    outs = ev.run(pl.node, env)
    res = []
    for o in outs:
        stored = o.state.env["self"].attrs[da].get("X-A")
        res.append((o.kind, o.value if o.kind == "raise" else None, list(adds), stored))
    return res


PARSE_LINE_CASES = [
    # (line, last_key, expected: ("add", name, value) | ("error",) | ("cont", stored last value) | ("nothing",))
    ("Name: value\r\n", "X-A", ("add", "Name", "value")),
    ("Name:value", "X-A", ("add", "Name", "value")),
    ("Name: v\n", "X-A", ("add", "Name", "v")),
    ("Name:\t v \t\r\n", "X-A", ("add", "Name", "v")),
    ("a: b: c", "X-A", ("add", "a", "b: c")),                   # split at the first colon only
    ("Name : v", "X-A", ("add", "Name ", "v")),                 # name untouched: validation must see the blank
    ("Name: \x0bv\x0b", "X-A", ("add", "Name", "\x0bv\x0b")),   # only SP/HTAB are trimmed: validation must see VT
    ("Name: v\xa0", "X-A", ("add", "Name", "v\xa0")),
    ("Name: v\r\r\n", "X-A", ("add", "Name", "v\r")),          # exactly one CR? LF removed
    ("no colon here", "X-A", ("error",)),
    (" cont", "X-A", ("cont", "v cont")),
    ("\tcont\t \r\n", "X-A", ("cont", "v cont")),
    (" bad\x00", "X-A", ("error",)),
    (" bad\x0b", "X-A", ("error",)),
    (" cont", None, ("error",)),
    ("", "X-A", ("nothing",)),
    ("\r\n", "X-A", ("nothing",)),
]


def check_parse_line_folded(ck, RP="C01"):
    """HTTPHeaders.parse_line folded on concrete lines (helpers inlined): where the line is split, what is trimmed,
    what reaches add(), what a continuation does — independent of how the function is written."""
    pl = _F(ck, HU, "HTTPHeaders.parse_line")
    addf = ck.repo.func(HU, "HTTPHeaders.add")
    aflag, _d = _flag_param(addf)
    n = 0
    for line, last_key, want in PARSE_LINE_CASES:
        outs = fold_parse_line(ck, pl, line, last_key)
        if not outs:
            raise AnalysisError("parse_line: no outcome for %r" % line)
        for kind, exc, adds, stored in outs:
            n += 1
            if any(a is __import__("vt.x_absint", fromlist=["UNK"]).UNK for call in adds for a in call[0]):
                raise AnalysisError("parse_line: arguments of add() not decidable for %r" % line)
            tag = "line %r%s" % (line, "" if last_key else " (first line)")
            if want[0] == "add":
                R = RP + (".wire-text-exact" if ("\x0b" in line or " :" in line or "\xa0" in line or "\r\r" in line) else ".header-line-split")
                ok = kind != "raise" and len(adds) == 1 and tuple(adds[0][0][:2]) == (want[1], want[2]) and stored == ["v"]
                ck.ob(R, pl, pl.node, ok, "%s is handed to add() as name %r, value %r (split at the first ':', SP/HTAB trimmed from the value only, one line end removed) — got %s" % (
                    tag, want[1], want[2], exc if kind == "raise" else [a[0] for a in adds]), construct="parse_line %r" % line)
                if ok:
                    kw = adds[0][1]
                    fl = kw.get(aflag, adds[0][0][2] if len(adds[0][0]) > 2 else None)
                    ck.ob(RP + ".strict-header-mode", pl, pl.node, fl is True, "parse_line forwards the HTTP validation mode to add() [%s]" % tag, construct="parse_line forwards mode %r" % line)
            elif want[0] == "error":
                R = RP + (".header-line-split" if "colon" in line else ".header-continuation")
                ck.ob(R, pl, pl.node, kind == "raise" and _is_input_error(exc) and not adds and stored == ["v"], "%s raises HTTPInputError and stores nothing — got %s" % (tag, exc if kind == "raise" else (kind, adds, stored)), construct="parse_line %r%s" % (line, "" if last_key else " first"))
            elif want[0] == "cont":
                ck.ob(RP + ".header-continuation", pl, pl.node, kind != "raise" and not adds and stored == [want[1]], "%s extends the last value of the previous field by one SP and the trimmed text — got %s" % (tag, exc if kind == "raise" else stored), construct="parse_line %r" % line)
            else:
                ck.ob(RP + ".header-line-split", pl, pl.node, kind != "raise" and not adds and stored == ["v"], "%s is ignored — got %s" % (tag, exc if kind == "raise" else (adds, stored)), construct="parse_line %r" % line)
    ck.floor(RP + ".header-line-split", n, len(PARSE_LINE_CASES), "folded parse_line outcomes")


def check_multimap_for_framing(ck, RP="C01"):
    """What conflicting-Content-Length / multiple-Host detection relies on in the header multimap: a repeated
    field is *added* to the earlier ones (never replaces them), the combined value joins them with a comma, and
    obs-fold continuation goes to the field added last."""
    R = RP + ".duplicate-fields-kept"
    da = _dict_attr(ck)
    add = _F(ck, HU, "HTTPHeaders.add")
    cfg = add.cfg
    stores = _store_nodes(add, da)
    keys = set()
    for node, v in stores:
        st = node.ast
        if isinstance(st, ast.Assign):
            for t in st.targets:
                if isinstance(t, ast.Subscript) and isinstance(t.slice, ast.Name):
                    keys.add(t.slice.id)
        elif isinstance(st, ast.Expr):
            f = st.value.func.value
            if isinstance(f, ast.Subscript) and isinstance(f.slice, ast.Name):
                keys.add(f.slice.id)
    if len(keys) != 1:
        raise AnalysisError("HTTPHeaders.add: cannot identify the (normalised) key of the stores: %s" % sorted(keys))
    K = keys.pop()

    def present(a):
        if isinstance(a, ast.Compare) and len(a.ops) == 1 and isinstance(a.ops[0], ast.In) and q.dotted(a.left) == K and q.dotted(a.comparators[0]) in ("self", "self." + da):
            return True
        return None

    absent_e = atom_edges(cfg, lambda a: None if present(a) is None else False)
    present_e = atom_edges(cfg, present)
    if not absent_e:
        pm_ = q.parent_map(add.node)
        other = [n for n in cfg.stmt_nodes(lambda n: n.kind == "test") if K in q.names_in(n.ast)]
        trys = [t for t in q.walk_body(add.node) if isinstance(t, ast.Try) and any("KeyError" in q.handler_names(h) for h in t.handlers)]
        if other or trys:
            raise AnalysisError("HTTPHeaders.add: presence of the field is tested in a form the rule does not recognise")
    n_rep = n_app = 0
    for node, v in stores:
        if isinstance(node.ast, ast.Assign):
            n_rep += 1
            ck.ob(R, add, node.ast, only_through(cfg, node, absent_e), "a field value replaces the stored list only when the name is not present yet (a repeated Content-Length/Host must not overwrite the first)")
        else:
            n_app += 1
            ck.ob(R, add, node.ast, isinstance(node.ast, ast.Expr) and node.ast.value.func.attr == "append", "a repeated field is appended after the earlier values")
    if not n_app:
        ck.ob(R, add, add.node, False, "a repeated field is appended after the earlier values (no append store found)", construct="add: no append store")
    # every normal exit stored something
    ids = {n.id for n, _v in stores}
    r = reach_without(cfg, (), follow_exc=False, stop=lambda n: n.id in ids)
    ck.ob(R, add, add.node, cfg.exit.id not in r, "add() stores the value on every normal path (no silently dropped field)", construct="add: exit without store")
    gi = _F(ck, HU, "HTTPHeaders.__getitem__")
    joins = [c for c in q.calls(gi.node) if q.call_attr(c) == "join" and isinstance(c.func.value, ast.Constant)]
    ck.floor(R, len(joins), 1, "join of the values in HTTPHeaders.__getitem__")
    for c in joins:
        ck.ob(R, gi, c, isinstance(c.func.value.value, str) and "," in c.func.value.value and len(c.args) == 1 and da in q.unparse(c.args[0]), "the combined field value joins all values with a comma (the conflict checks look for ',')")
    # continuation target
    pl = _F(ck, HU, "HTTPHeaders.parse_line")
    lk = None
    plflow = Flow(pl)
    def _cont_target(node):
        """(expanded key, index) of a continuation store  self.<dict>[KEY][IDX] (+)= ..."""
        tgt = node.ast.target if isinstance(node.ast, ast.AugAssign) else (node.ast.targets[0] if isinstance(node.ast, ast.Assign) else None)
        if isinstance(tgt, ast.Subscript):
            base = plflow.expand(tgt.value, node)
            if isinstance(base, ast.Subscript):
                return q.dotted(base.slice), tgt.slice
        return None, None

    for node, v in _store_nodes(pl, da):
        k, _idx = _cont_target(node)
        if k and k.startswith("self."):
            lk = k
    if lk is None:
        raise AnalysisError("parse_line: cannot identify the attribute naming the field a continuation extends")
    sets = {n.id for n in cfg.stmt_nodes(lambda n: n.kind == "stmt" and isinstance(n.ast, ast.Assign) and lk in q.assigned_paths(n.ast) and q.dotted(n.ast.value) == K)}
    r = reach_without(cfg, (), follow_exc=False, stop=lambda n: n.id in sets)
    ck.ob(RP + ".header-continuation", add, add.node, cfg.exit.id not in r, "add() records the field it stored as the target of a following obs-fold continuation (%s = %s on every normal path)" % (lk, K), construct="add: exit without %s update" % lk)
    for node, v in _store_nodes(pl, da):
        k, idx = _cont_target(node)
        ok = k == lk and isinstance(idx, ast.UnaryOp) and isinstance(idx.op, ast.USub) and q.is_const(idx.operand, 1)
        ck.ob(RP + ".header-continuation", pl, node.ast, ok, "a continuation is appended to the last value of the field added last")


def check_read_body(ck, tree, RP="C01"):
    fi = _F(ck, H1, "HTTP1Connection._read_body")
    cfg = fi.cfg
    repo = ck.repo
    hps = {q.dotted(a.comparators[0]) for n in cfg.stmt_nodes(lambda n: n.kind == "test") for a in [canon_atom(n.ast)[0]] if _hdr_in(a, "Content-Length")}
    hps.discard(None)
    if len(hps) != 1:
        raise AnalysisError("_read_body: cannot identify the headers parameter (Content-Length membership tests on %s)" % sorted(hps))
    hp = hps.pop()
    flow = Flow(fi)
    renv = RegexEnv(repo)
    parse_int = repo.func(H1, "parse_int")

    def is_cl_value(e):
        return _hdr_get(e, "Content-Length", hp) or (isinstance(e, ast.Call) and q.call_attr(e) == "get" and q.dotted(e.func.value) == hp and e.args and _const_str(e.args[0], "Content-Length"))

    def split_of_cl(e):
        """(pattern text | ',' literal) if the expanded expression ``e`` splits the Content-Length value into list members"""
        if not isinstance(e, ast.Call) or not isinstance(e.func, ast.Attribute) or e.func.attr != "split":
            return None
        if q.dotted(e.func.value) == "re" and len(e.args) >= 2 and is_cl_value(e.args[1]):
            try:
                return __import__("vt.rx", fromlist=["eval_pattern_expr"]).eval_pattern_expr(e.args[0], {})
            except AnalysisError:
                return renv.pattern(fi, e.args[0])
        pat = renv.pattern(fi, e.func.value)
        if pat is not None and e.args and is_cl_value(e.args[0]):
            return pat
        if is_cl_value(e.func.value) and len(e.args) == 1 and _const_str(e.args[0]):
            import re as _re
            return _re.escape(e.args[0].value)
        return None

    # --- conflicting Content-Length: wherever one member of the split list is taken, all members were compared equal
    R = RP + ".cl-conflict"
    lists = {}
    for n in cfg.stmt_nodes(lambda n: n.kind == "stmt" and isinstance(n.ast, (ast.Assign, ast.AnnAssign))):
        tgt = n.ast.targets[0] if isinstance(n.ast, ast.Assign) and len(n.ast.targets) == 1 else getattr(n.ast, "target", None)
        if isinstance(tgt, ast.Name) and n.ast.value is not None:
            pat = split_of_cl(flow.expand(n.ast.value, n))
            if pat is not None:
                lists[tgt.id] = (pat, n)
    from ..rx import Rx as _Rx
    for P, (pat, defnode) in sorted(lists.items()):
        w = _Rx.from_pattern(pat).witness_not_in(_Rx.from_pattern(r",\s*"))
        ck.ob(R, fi, defnode.ast, w is None, "Content-Length list members are separated at commas (plus following whitespace) only%s" % ("" if w is None else " (also splits at %r)" % w))

        def all_equal(a, P=P):
            # any(x != P[k] for x in P) -> all-equal when False ; all(x == P[k] for x in P) -> when True ; len(set(P)) == 1
            if isinstance(a, ast.Call) and q.call_attr(a) in ("any", "all") and len(a.args) == 1 and isinstance(a.args[0], (ast.GeneratorExp, ast.ListComp)):
                g = a.args[0]
                if len(g.generators) == 1 and q.dotted(g.generators[0].iter) == P and not g.generators[0].ifs and isinstance(g.generators[0].target, ast.Name):
                    x = g.generators[0].target.id
                    e = g.elt
                    if isinstance(e, ast.Compare) and len(e.ops) == 1 and isinstance(e.ops[0], (ast.Eq, ast.NotEq)):
                        sides = [e.left, e.comparators[0]]
                        has_x = any(q.dotted(s) == x for s in sides)
                        has_p = any(isinstance(s, ast.Subscript) and q.dotted(s.value) == P and isinstance(s.slice, ast.Constant) for s in sides)
                        if has_x and has_p:
                            if q.call_attr(a) == "any" and isinstance(e.ops[0], ast.NotEq):
                                return False
                            if q.call_attr(a) == "all" and isinstance(e.ops[0], ast.Eq):
                                return True
                return None
            if isinstance(a, ast.Compare) and len(a.ops) == 1 and isinstance(a.ops[0], ast.Eq) and q.is_const(a.comparators[0], 1):
                l = a.left
                if isinstance(l, ast.Call) and q.call_attr(l) == "len" and l.args and isinstance(l.args[0], ast.Call) and q.call_attr(l.args[0]) == "set" and l.args[0].args and q.dotted(l.args[0].args[0]) == P:
                    return True
            return None

        eq = atom_edges(cfg, all_equal)
        # loop form:  for x in P: if x != P[k]: raise ...   — the loop's exhaustion edge is the all-equal fact
        loop_ok = False
        for fn_ in cfg.nodes:
            if fn_.kind == "for" and fn_.id in cfg.reachable() and q.dotted(fn_.ast.iter) == P and isinstance(fn_.ast.target, ast.Name) and not fn_.ast.orelse:
                x_ = fn_.ast.target.id
                b_ = fn_.ast.body
                if len(b_) == 1 and isinstance(b_[0], ast.If) and not b_[0].orelse and b_[0].body and isinstance(b_[0].body[-1], ast.Raise):
                    t_ = b_[0].test
                    if isinstance(t_, ast.Compare) and len(t_.ops) == 1 and isinstance(t_.ops[0], ast.NotEq):
                        sides = [t_.left, t_.comparators[0]]
                        if any(q.dotted(s_) == x_ for s_ in sides) and any(isinstance(s_, ast.Subscript) and q.dotted(s_.value) == P and isinstance(s_.slice, ast.Constant) for s_ in sides):
                            for sid, kind in cfg.succ[fn_.id]:
                                if kind == "false":
                                    eq = eq | {(fn_.id, sid, kind)}
                                    loop_ok = loop_ok or _is_input_error(raised_class(b_[0].body[-1]))
        eq_tests = {e[0] for e in eq} | {n.id for n in cfg.nodes if n.kind == "test" and any(fn2.kind == "for" and fn2.id in {e[0] for e in eq} and contains(fn2.ast, n.ast) for fn2 in cfg.nodes)}
        takes = [n for n in cfg.stmt_nodes(lambda n: n.id not in eq_tests and node_mentions(n, lambda x: isinstance(x, ast.Subscript) and isinstance(x.ctx, ast.Load) and q.dotted(x.value) == P and isinstance(x.slice, ast.Constant)))]
        takes = [n for n in takes if flow.reach.unique(n, P) is not None and flow.reach.unique(n, P).node is defnode]
        if takes and not eq:
            others = [n for n in cfg.stmt_nodes(lambda n: n.kind == "test") if P in q.names_in(n.ast)]
            if others:
                # positive evidence: if every read of the list anywhere in the function is a constant-index
                # subscript, only a fixed number of members is ever inspected, so no test can establish that
                # *all* members agree (the list has unbounded length) -> violation, not an unknown shape
                par = {}
                for a_ in ast.walk(fi.node):
                    for c_ in ast.iter_child_nodes(a_):
                        par[id(c_)] = a_
                reads = [x for x in ast.walk(fi.node) if isinstance(x, ast.Name) and x.id == P and isinstance(x.ctx, ast.Load)]
                only_fixed = bool(reads) and all(isinstance(par.get(id(x)), ast.Subscript) and par[id(x)].value is x and (isinstance(par[id(x)].slice, ast.Constant) or (isinstance(par[id(x)].slice, ast.UnaryOp) and isinstance(par[id(x)].slice.operand, ast.Constant))) for x in reads)
                if only_fixed:
                    ck.ob(R, fi, others[0].ast, False, "the agreement test of a comma-joined Content-Length compares every member (here the list %s is only ever read at fixed positions, so an interior member that differs is not seen)" % P)
                else:
                    raise AnalysisError("unrecognised Content-Length agreement test at %s" % fi.site(others[0].ast))
        for node in takes:
            ck.ob(R, fi, node.ast, bool(eq) and only_through(cfg, node, eq), "one member of a comma-joined Content-Length is used only when all members are equal (else HTTPInputError)")
        if takes:
            neg = atom_edges(cfg, lambda a: (None if all_equal(a) is None else (not all_equal(a))))
            ok, n = leads_to_raise(cfg, neg, _is_input_error)
            ck.ob(R, fi, defnode.ast, (ok and n > 0) or loop_ok or not eq, "unequal Content-Length members raise HTTPInputError", construct="unequal-pieces edge")
    ck.note("%s: %d Content-Length list(s) in _read_body" % (R, len(lists)))

    # --- integer Content-Length -> fixed reader
    R = RP + ".cl-integer"
    fixed = [(n, c) for n, c in call_sites(fi, "self._read_fixed_body")]
    ck.floor(R, len(fixed), 1, "_read_fixed_body call sites")

    def strict_length(e):
        """parse_int(<Content-Length value | one member of its split list>)"""
        if not (isinstance(e, ast.Call) and resolve_call(repo, fi, e) is parse_int and argx(repo, fi, e, 0, "s") is not None):
            return False
        a = argx(repo, fi, e, 0, "s")
        if is_cl_value(a):
            return True
        return isinstance(a, ast.Subscript) and isinstance(a.slice, ast.Constant) and split_of_cl(a.value) is not None

    for node, c in fixed:
        a0 = argx(repo, fi, c, 0, "content_length")
        if not isinstance(a0, ast.Name):
            raise AnalysisError("_read_fixed_body length argument of unknown shape at %s" % fi.site(c))
        L = a0.id
        for alt, via in flow.alternatives(a0, node):
            if q.is_const(alt, None) or (isinstance(alt, ast.Constant) and type(alt.value) is int and alt.value == 0):
                continue
            if isinstance(alt, ast.Name):
                kinds = {d.kind for d in flow.reach.defs_at(node, alt.id.split("@")[0])}
                if "aug" in kinds:
                    ck.ob(R, fi, c, False, "the body length is not adjusted after parsing")
                    continue
                raise AnalysisError("_read_fixed_body length of unknown origin (%s) at %s" % (q.unparse(alt), fi.site(c)))
            anchor = via[-1].ast if via else c
            ck.ob(R, fi, anchor, strict_length(alt), "the fixed body length is parse_int(<Content-Length value>) (strict decimal), nothing else")
        ck.ob(R, fi, c, only_through(cfg, node, atom_edges(cfg, lambda a: False if (isinstance(a, ast.Compare) and isinstance(a.ops[0], ast.Is) and q.dotted(a.left) == L and q.is_const(a.comparators[0], None)) else None)),
              "the fixed-length reader runs only when a Content-Length was parsed")
    pcs = [c for c in q.calls(fi.node) if resolve_call(repo, fi, c) is parse_int]
    for v in pcs:
        h = handler_for(fi, v, "ValueError")
        okh = h is not None and any(isinstance(s, ast.Raise) and _is_input_error(raised_class(s)) for s in q.walk_local(h))
        ck.ob(R, fi, v, okh, "a non-integer Content-Length raises HTTPInputError (ValueError handler)")

    # --- selection
    R = RP + ".body-selection"
    te = repo.func(H1, "is_transfer_encoding_chunked")
    te_calls = [(n, c) for n, c in cfg.find(lambda x: isinstance(x, ast.Call) and resolve_call(repo, fi, x) is te)]
    for node, c in te_calls:
        ck.ob(R, fi, c, q.dotted(argx(repo, fi, c, 0, "headers")) == hp, "the transfer-coding decision is taken on the message's own headers")
    te_ids = {n.id for n, _ in te_calls}
    for r in list(cfg.stmt_nodes(lambda n: n.kind == "stmt" and isinstance(n.ast, ast.Return))):
        reach = reach_without(cfg, (), stop=lambda n: n.id in te_ids)
        ck.ob(R, fi, r.ast, r.id not in reach or r.id in te_ids, "Transfer-Encoding is examined (and TE+CL / unknown codings rejected) on every path that selects a body reader")
    pos, _neg = truthy_edges(fi, lambda e: isinstance(e, ast.Call) and resolve_call(repo, fi, e) is te)
    chunked = call_sites(fi, "self._read_chunked_body")
    ck.floor(R, len(chunked), 1, "_read_chunked_body call sites")
    for node, c in chunked:
        ck.ob(R, fi, c, only_through(cfg, node, pos), "the chunked reader runs only when is_transfer_encoding_chunked() returned true")
    client = atom_edges(cfg, lambda a: True if q.dotted(a) == "self.is_client" else None)
    for node, c in call_sites(fi, "self._read_body_until_close"):
        ck.ob(R, fi, c, only_through(cfg, node, client), "a request without Content-Length/Transfer-Encoding has no body: read-until-close is client-only")


def check_transfer_encoding(ck, RP="C01"):
    fi = _F(ck, H1, "is_transfer_encoding_chunked")
    cfg = fi.cfg
    hp = [p for p in fi.params()][0]
    binds = single_bindings(fi.node)

    def te_value(e):
        while isinstance(e, ast.Call) and isinstance(e.func, ast.Attribute) and e.func.attr in ("lower", "strip", "casefold") and not e.keywords and (not e.args or e.func.attr == "strip"):
            e = e.func.value
        if isinstance(e, ast.Name) and e.id in binds:
            return te_value(binds[e.id])
        if _hdr_get(e, "Transfer-Encoding", hp):
            return True
        if isinstance(e, ast.Call) and q.call_attr(e) == "get" and q.dotted(e.func.value) == hp and e.args and _const_str(e.args[0], "Transfer-Encoding"):
            return True
        return False

    def is_chunked_eq(a):
        if isinstance(a, ast.Compare) and len(a.ops) == 1:
            l, r = a.left, a.comparators[0]
            if isinstance(a.ops[0], ast.Eq):
                if (_const_str(l, "chunked") and te_value(r)) or (_const_str(r, "chunked") and te_value(l)):
                    return True
            if isinstance(a.ops[0], ast.In) and te_value(l) and isinstance(r, (ast.Tuple, ast.List, ast.Set)) and r.elts and all(_const_str(x, "chunked") for x in r.elts):
                return True
        return None

    eq = atom_edges(cfg, is_chunked_eq)
    if not eq:
        # positively bad: substring / prefix / suffix / regex tests of the coding; anything else unrecognised is not decided
        def loose(a):
            if isinstance(a, ast.Compare) and len(a.ops) == 1 and isinstance(a.ops[0], ast.In) and _const_str(a.left) and te_value(a.comparators[0]):
                return True
            if isinstance(a, ast.Call) and isinstance(a.func, ast.Attribute) and a.func.attr in ("startswith", "endswith", "find", "count", "search", "match") and (te_value(a.func.value) or any(te_value(x) for x in a.args)):
                return True
            return False
        tests = [n for n in cfg.stmt_nodes(lambda n: n.kind == "test") if any(te_value(x) for x in ast.walk(n.ast) if isinstance(x, (ast.Subscript, ast.Call, ast.Name)))]
        tests = [n for n in tests if not _hdr_in(canon_atom(n.ast)[0], "Transfer-Encoding", hp)]
        if tests and not any(loose(canon_atom(n.ast)[0]) for n in tests):
            raise AnalysisError("is_transfer_encoding_chunked: the coding is tested in a form the rule does not recognise (%s)" % q.unparse(tests[0].ast)[:80])
    te_absent = atom_edges(cfg, _hdr_absent("Transfer-Encoding", hp, binds))
    cl_abs = _hdr_absent("Content-Length", hp, binds)
    cl_absent = atom_edges(cfg, cl_abs)
    n_true = 0
    for pid, kind in cfg.pred[cfg.exit.id]:
        node = cfg.nodes[pid]
        v = node.ast.value if (node.kind == "stmt" and isinstance(node.ast, ast.Return)) else None
        anchor = node.ast if node.ast is not None else fi.node
        if q.is_const(v, True) if v is not None else False:
            n_true += 1
            ck.ob(RP + ".te-strict", fi, anchor, only_through(cfg, node, eq), "'chunked' is recognised by equality with the (lower-cased) Transfer-Encoding value — not by substring/prefix/suffix tests")
            ck.ob(RP + ".cl-te-conflict", fi, anchor, only_through(cfg, node, cl_absent), "Transfer-Encoding together with Content-Length is rejected before chunked framing is chosen")
        else:
            ck.ob(RP + ".te-other-raises", fi, anchor, only_through(cfg, node, te_absent), "a false/absent result is returned only when there is no Transfer-Encoding header (any other coding raises)", construct=None if v is None else None)
    ck.floor(RP + ".te-strict", n_true, 1, "return True sites in is_transfer_encoding_chunked")
    ck.floor(RP + ".te-other-raises", len(cfg.pred[cfg.exit.id]) - n_true, 1, "non-true returns in is_transfer_encoding_chunked")
    cl_present = atom_edges(cfg, lambda a: None if cl_abs(a) is None else (not cl_abs(a)))
    ok, n = leads_to_raise(cfg, cl_present, _is_input_error)
    ck.ob(RP + ".cl-te-conflict", fi, fi.node, ok and n > 0, "Content-Length in a message with Transfer-Encoding raises HTTPInputError", construct="Content-Length-present edge")


def check_ints(ck, env, tree, RP="C01"):
    """SINT: strict guard for ints parsed in http1connection.py (framing), crash-freedom everywhere in the tree."""
    repo = ck.repo
    n_strict = n_all = 0
    dec, hexd = env.rx(r"[0-9]+"), env.rx(r"[0-9a-fA-F]+")
    for f in sorted(tree.values(), key=lambda f: (f.file, f.qualname)):
        ints = f.cfg.find(lambda x: isinstance(x, ast.Call) and isinstance(x.func, ast.Name) and x.func.id == "int" and x.args)
        if not ints:
            continue
        taint = wire_taint(f)
        rc = env.calls(f)
        binds = single_bindings(f.node)
        for node, c in ints:
            op = c.args[0]
            if not _mentions_taint(op, taint):
                continue
            n_all += 1
            base = c.args[1].value if len(c.args) > 1 and isinstance(c.args[1], ast.Constant) else (10 if len(c.args) == 1 else None)
            if base not in (10, 16):
                raise AnalysisError("int() with an unmodelled base at %s" % f.site(c))
            ref = dec if base == 10 else hexd
            # regex guards on the same operand
            guard_pos = set()
            bounded = False
            exact = False
            for rcall, m, pat, subj in rc:
                if same_expr(subj, op):
                    lang = env.rx(pat, m)
                    if m == "fullmatch" and lang.subset_of(ref):
                        p, _n = truthy_edges(f, lambda e, rcall=rcall: e is rcall)
                        guard_pos |= p
                        exact = True
                        ml = lang.max_length()
                        bounded = bounded or (ml is not None and ml <= INT_LIMIT)
            # operand is (through aliases / tuple unpacking) a capture group of a digits regex
            grp = False
            flow = Flow(f)
            op_e = flow.expand(op, node)
            gi = group_index(op_e)
            if gi is not None:
                u = unpack_of(op_e)
                gcall = u[0] if u is not None else op_e
                recv = gcall.func.value if isinstance(gcall, ast.Call) and isinstance(gcall.func, ast.Attribute) else (gcall.value if isinstance(gcall, ast.Subscript) else None)
                for rcall, m, pat, subj in rc:
                    rnode = flow.node_of(rcall)
                    if recv is not None and same_expr(recv, flow.expand(rcall, rnode)):
                        g = group_rx(pat, gi)
                        ml = g.max_length()
                        if g.subset_of(ref):
                            grp = True
                            exact = True
                            bounded = bounded or (ml is not None and ml <= INT_LIMIT)
            if not guard_pos and not grp:
                for rcall, m, pat, subj in rc:
                    if subj is not None and same_expr(flow.expand(subj, flow.node_of(rcall)), op_e):
                        lang = env.rx(pat, m)
                        if m == "fullmatch" and lang.subset_of(ref):
                            p, _n = truthy_edges(f, lambda e, rcall=rcall: e is rcall)
                            guard_pos |= p
                            exact = True
                            ml = lang.max_length()
                            bounded = bounded or (ml is not None and ml <= INT_LIMIT)
            guarded = grp or (bool(guard_pos) and only_through(f.cfg, node, guard_pos) and not rebinds_between(f.cfg, guard_pos, node, q.names_in(op)))
            handled = handler_for(f, c, "ValueError") is not None
            if not handled:
                sites = call_sites_in(tree, repo, f)
                handled = bool(sites) and all(handler_for(cf, cc, "ValueError") is not None for cf, cc in sites)
            if not (handled or (guarded and bounded)) or (f.file == H1 and not (guarded and exact)):
                # a violation needs a fully recognised operand: parameters, header lookups, match groups, slices and
                # decoding wrappers only — anything else (merged definitions, unknown calls) is not decided
                unknown = [x for x in ast.walk(op_e) if (isinstance(x, ast.Name) and "@" in x.id) or
                           (isinstance(x, ast.Call) and q.call_attr(x) not in ("group", "groups", "__unpack__", "native_str", "to_unicode", "decode", "fullmatch", "match", "search", "get", "strip", "lstrip", "rstrip", "lower", "split", "partition", "read_until", "read_until_regex", "read_bytes", "read_until_close"))]
                if unknown:
                    raise AnalysisError("int() operand of unrecognised origin (%s) at %s" % (q.unparse(op_e)[:80], f.site(c)))
            if f.file == H1:
                n_strict += 1
                ck.ob(RP + ".sint", f, c, guarded and exact, "int() of wire text in the framing code is guarded by fullmatch of an ASCII-%s regex on the same operand" % ("digit" if base == 10 else "hex-digit"))
            ck.ob(RP + ".int-no-crash", f, c, handled or (guarded and bounded), "int() of wire text cannot escape as ValueError: handler at every call site, or an ASCII-digit guard with a length bound <= %d" % INT_LIMIT)
    ck.floor(RP + ".sint", n_strict, 2, "int() sites in http1connection.py's read tree")
    ck.floor(RP + ".int-no-crash", n_all, 3, "int() sites on wire text in the read tree")


def check_chunked(ck, tree, RP="C01"):
    repo = ck.repo
    fi = _F(ck, H1, "HTTP1Connection._read_chunked_body")
    cfg = fi.cfg
    hexint = repo.func(H1, "parse_hex_int")
    binds_all = {}
    # size line
    R = RP + ".chunk-size-line"
    size_reads = call_sites(fi, ".read_until")
    ck.floor(R, len(size_reads), 1, "chunk-size line reads")
    size_vars = set()
    for node, c in size_reads:
        d = q.arg(c, 0, "delimiter")
        ck.ob(R, fi, c, _is_bytes(d, b"\r\n"), "the chunk-size line ends with CRLF")
        if isinstance(node.ast, ast.Assign) and isinstance(node.ast.targets[0], ast.Name):
            size_vars.add(node.ast.targets[0].id)
    hx = [(n, c) for n, c in cfg.find(lambda x: isinstance(x, ast.Call) and resolve_call(repo, fi, x) is hexint)]
    len_vars = set()
    if not hx:
        ck.ob(R, fi, fi.node, False, "the chunk size is parsed by parse_hex_int (strict hexadecimal)", construct="no parse_hex_int call")
        for st in q.walk_body(fi.node):
            if isinstance(st, ast.Assign) and isinstance(st.targets[0], ast.Name) and (q.names_in(st.value) & size_vars) and not any(_stream_read(x) for x in ast.walk(st.value)):
                len_vars.add(st.targets[0].id)
    for node, c in hx:
        a0_ = argx(repo, fi, c, 0, "s")
        a = _expand(a0_, single_bindings(fi.node), keep=size_vars) if a0_ is not None else None
        while isinstance(a, ast.Call) and q.call_attr(a) in ("native_str", "to_unicode") and a.args:
            a = a.args[0]
        ok = isinstance(a, ast.Subscript) and q.dotted(a.value) in size_vars and isinstance(a.slice, ast.Slice) and a.slice.lower is None and isinstance(a.slice.upper, ast.UnaryOp) and isinstance(a.slice.upper.op, ast.USub) and q.is_const(a.slice.upper.operand, 2)
        ck.ob(R, fi, c, ok, "the chunk size is the whole size line without its CRLF, parsed by parse_hex_int (no extensions, no lenient int)")
        h = handler_for(fi, c, "ValueError")
        okh = h is not None and any(isinstance(s, ast.Raise) and _is_input_error(raised_class(s)) for s in q.walk_local(h))
        ck.ob(R, fi, c, okh, "a malformed chunk size raises HTTPInputError (ValueError handler)")
        if isinstance(node.ast, ast.Assign) and isinstance(node.ast.targets[0], ast.Name):
            len_vars.add(node.ast.targets[0].id)
    if not len_vars:
        raise AnalysisError("_read_chunked_body: the parsed chunk length is not bound to a local")
    # end only at the zero chunk
    R = RP + ".chunk-end"

    def zero(a):
        if isinstance(a, ast.Compare) and len(a.ops) == 1 and isinstance(a.ops[0], ast.Eq) and q.dotted(a.left) in len_vars and q.is_const(a.comparators[0], 0):
            return True
        if isinstance(a, ast.Name) and a.id in len_vars:
            return False
        return None

    z = atom_edges(cfg, zero)
    exits = [cfg.nodes[p] for p, _k in cfg.pred[cfg.exit.id]]
    ck.floor(R, len(exits), 1, "normal exits of _read_chunked_body")
    for node in exits:
        ck.ob(R, fi, node.ast if node.ast is not None else fi.node, only_through(cfg, node, z), "the chunked body ends only after a chunk of size 0")
    # terminators: every fixed-size non-partial read is compared with CRLF before the next read / return
    R = RP + ".chunk-terminator"
    # terminator reads: in the reader itself, or in a helper method of the same class that the reader awaits
    # (a refactoring into `await self._expect_crlf()` is decided inside the helper)
    def is_term_read(c):
        # a fixed-size read (protocol bytes, not body data): constant size
        a0 = q.arg(c, 0, "num_bytes")
        return isinstance(_lit(a0) if a0 is not None else a0, ast.Constant)

    sites = [(fi, n, c) for n, c in call_sites(fi, ".read_bytes") if is_term_read(c)]
    helper_calls = 0
    for hc in q.calls(fi.node):
        h = resolve_call(repo, fi, hc)
        if h is not None and h is not fi and h.file == H1 and h.name not in ("_read_chunked_body", "_read_fixed_body", "_read_body_until_close"):
            hs = [(h, n, c) for n, c in call_sites(h, ".read_bytes") if is_term_read(c)]
            if hs:
                helper_calls += 1
                ck.use(h)
                sites.extend(hs)
    ck.floor(R, len([x for x in sites if x[0] is fi]) + helper_calls, 2, "terminator reads in _read_chunked_body (direct or through a helper)")
    seen_sites = set()
    for hf, node, c in sites:
        if (hf.qualname, node.id) in seen_sites:
            continue
        seen_sites.add((hf.qualname, node.id))
        hcfg = hf.cfg
        ck.ob(R, hf, c, q.is_const(_lit(q.arg(c, 0, "num_bytes")), 2), "the terminator read takes exactly 2 bytes")
        pk = q.kwarg(c, "partial") or (c.args[1] if len(c.args) > 1 else None)
        ck.ob(R, hf, c, pk is None or q.is_const(pk, False), "the terminator is read completely (a partial read may return one byte and mis-frame the stream)")
        if not (isinstance(node.ast, ast.Assign) and isinstance(node.ast.targets[0], ast.Name)):
            ck.ob(R, hf, c, False, "the terminator bytes are kept for comparison with CRLF")
            continue
        X = node.ast.targets[0].id

        def is_cmp(x, X=X):
            return (isinstance(x, ast.Compare) and len(x.ops) == 1 and isinstance(x.ops[0], (ast.Eq, ast.NotEq))
                    and ((q.dotted(x.left) == X and _is_bytes(x.comparators[0], b"\r\n"))
                         or (q.dotted(x.comparators[0]) == X and _is_bytes(x.left, b"\r\n"))))

        ok, bad = forward_until(hcfg, node, lambda n: node_mentions(n, is_cmp), lambda n: node_mentions(n, _stream_read) or (n.kind == "stmt" and isinstance(n.ast, ast.Return)))
        if not ok:
            fwd_ = reach_without(hcfg, (), start=node.id, follow_exc=False, stop=lambda n: node_mentions(n, _stream_read))
            fwd_ = {i_ for i_ in fwd_ if not node_mentions(hcfg.nodes[i_], _stream_read)}
            used = [n for n in hcfg.stmt_nodes() if n.id != node.id and n.id in fwd_ and node_mentions(n, lambda x: isinstance(x, ast.Name) and x.id == X and isinstance(x.ctx, ast.Load))]
            if used:
                raise AnalysisError("%s: the terminator bytes are used in a form the rule does not recognise (%s)" % (hf.qualname, q.unparse(used[0].ast)[:80]))
        ck.ob(R, hf, c, ok, "the 2 bytes after chunk data / the last chunk are compared with CRLF before anything else is read")
        mism = atom_edges(hcfg, lambda a, is_cmp=is_cmp: False if is_cmp(a) else None)
        mism = {e for e in mism if e[0] in reach_without(hcfg, (), start=node.id, follow_exc=False)}
        if mism:
            okr, n = leads_to_raise(hcfg, mism, lambda cls: cls is not None)
            ck.ob(R, hf, c, okr, "a wrong chunk terminator aborts the message (raise), it is not skipped")
    # counted data reads
    check_counted_reads(ck, fi, len_vars, RP=RP)


def check_counted_reads(ck, fi, length_sources=None, RP="C01"):
    """Body byte accounting of a reader, decided by folding it on a scripted stream whose partial reads return fewer
    bytes than requested: a read never asks for more than is still owed, every byte read is delivered exactly once and
    in order, and exactly the declared number of bytes is consumed.  (No recogniser for the loop's shape is needed.)"""
    from . import c04 as _c04
    from . import c08 as _c08
    R = RP + ".body-byte-count"
    name = fi.name
    n = 0
    if name == "_read_chunked_body":
        for sizes in ((3, 2), (7,), (1, 1, 1), (9, 4)):
            for is_client, wf in ((False, False), (True, True), (False, True)):
                outs = _c04.eval_chunked(ck, fi, sizes, 100, is_client=is_client, write_finished=wf)
                det = _c04.eval_chunked.last_detail
                if not outs:
                    raise AnalysisError("_read_chunked_body: no outcome")
                for (kind, exc, delivered, data_read), (over, short, rb, db) in zip(outs, det):
                    n += 1
                    tag = "chunks %s" % "+".join(map(str, sizes))
                    ck.ob(R, fi, fi.node, not over, "a data read never asks for more than the bytes still owed of the current chunk [%s]" % tag, construct="chunked %s: no over-request" % (sizes,))
                    ck.ob(R, fi, fi.node, kind != "raise" and not short and data_read == sum(sizes), "exactly the declared number of body bytes is consumed, although partial reads return less than asked [%s: %d of %d, %s]" % (tag, data_read, sum(sizes), exc if kind == "raise" else kind), construct="chunked %s: consumed" % (sizes,))
                    if is_client or not wf:
                        ck.ob(R, fi, fi.node, db == rb, "exactly the bytes read are delivered to the delegate, once and in order [%s]" % tag, construct="chunked %s: delivered = read" % (sizes,))
                    else:
                        ck.ob(R, fi, fi.node, db == b"", "after the handler finished early the rest of the body is consumed but not delivered [%s]" % tag, construct="chunked %s: diverted" % (sizes,))
    elif name == "_read_fixed_body":
        for length, is_client, wf in ((1, True, True), (5, False, False), (9, True, True), (0, False, False), (5, False, True)):
            outs = _c08.fold_fixed(ck, length, write_finished=wf, is_client=is_client)
            for (kind, exc, delivered), det in zip(outs, _c08.fold_fixed.details):
                n += 1
                ck.ob(R, fi, fi.node, not det["over_request"], "a data read never asks for more than the bytes still owed [Content-Length %d]" % length, construct="fixed %d: no over-request" % length)
                ck.ob(R, fi, fi.node, kind != "raise" and len(det["read_bytes"]) == length, "exactly Content-Length bytes are consumed, although partial reads return less than asked [%d: %d read, %s]" % (length, len(det["read_bytes"]), exc if kind == "raise" else kind), construct="fixed %d: consumed" % length)
                if is_client or not wf:
                    ck.ob(R, fi, fi.node, det["delivered_bytes"] == det["read_bytes"], "exactly the bytes read are delivered to the delegate, once and in order [Content-Length %d]" % length, construct="fixed %d: delivered = read" % length)
                else:
                    ck.ob(R, fi, fi.node, det["delivered_bytes"] == b"", "after the handler finished early the rest of the body is consumed but not delivered [Content-Length %d]" % length, construct="fixed %d: diverted" % length)
    else:
        raise AnalysisError("no byte-accounting scenarios for %s" % fi.qualname)
    ck.floor(R, n, 4, "folded byte-accounting outcomes of %s" % name)


def check_error_discipline(ck, tree, RP="C01"):
    repo = ck.repo
    rm = _F(ck, H1, "HTTP1Connection._read_message")
    loop = _F(ck, H1, "HTTP1ServerConnection._server_request_loop")
    # oracle: extracted handlers
    outer = [t for t in q.walk_body(rm.node) if isinstance(t, ast.Try) and any(_is_input_error(nm) for h in t.handlers for nm in handler_class_names(rm, h))]
    if not outer:
        raise AnalysisError("_read_message has no HTTPInputError handler")
    quiet = set()
    for t in q.walk_body(loop.node):
        if isinstance(t, ast.Try):
            for h in t.handlers:
                logs = [c for c in q.calls(h) if q.call_attr(c) in ("error", "exception", "warning", "critical")]
                if not logs and h.type is not None:
                    quiet |= {nm.split(".")[-1] for nm in handler_class_names(loop, h)}
    quiet.discard("_QuietException")
    ck.note("clean exception classes extracted from the handlers: HTTPInputError + %s" % sorted(quiet))
    if "StreamClosedError" not in quiet:
        raise AnalysisError("_server_request_loop no longer handles StreamClosedError quietly")

    # 1. asserts on wire data (with a positive control for the detector)
    ctl = ModuleInfo("/", "control.py", source=_POSITIVE_CONTROL)
    if len(wire_asserts(ctl.funcs["reader"])) != 1:
        raise AnalysisError("positive control of the wire-assert detector failed")
    n_f = 0
    for f in sorted(tree.values(), key=lambda f: (f.file, f.qualname)):
        n_f += 1
        bad = wire_asserts(f)
        for a in bad:
            ck.ob(RP + ".no-assert-on-wire", f, a, False, "peer-controlled data is validated with 'raise HTTPInputError', never with assert (AssertionError is logged as an uncaught error, and vanishes under -O)")
        if not bad:
            ck.ob(RP + ".no-assert-on-wire", f, f.node, True, "no assert on peer-controlled data in %s" % f.qualname)
    ck.floor(RP + ".no-assert-on-wire", n_f, 14, "functions in the read call tree")

    # 2. explicit raises
    n_r = 0
    for f in sorted(tree.values(), key=lambda f: (f.file, f.qualname)):
        pm = q.parent_map(f.node)
        for st in q.walk_body(f.node):
            if not isinstance(st, ast.Raise):
                continue
            cls = raised_class(st)
            if cls is None:
                if st.exc is None:
                    continue
                raise AnalysisError("raise of a non-class expression at %s" % f.site(st))
            n_r += 1
            short = cls.split(".")[-1]
            ok = _is_input_error(cls) or short in quiet
            if not ok:
                ok = q.protected_by(pm, st, short) is not None
            if not ok:
                sites = call_sites_in(tree, repo, f)
                ok = bool(sites) and all(handler_for(cf, cc, short) is not None for cf, cc in sites)
            ck.ob(RP + ".raise-discipline", f, st, ok, "every exception raised on the read path is HTTPInputError / a quiet stream error, or is converted by a handler at every call site")
    ck.floor(RP + ".raise-discipline", n_r, 15, "raise statements in the read call tree")

    # 3. decode of wire bytes
    n_d = 0
    for f in sorted(tree.values(), key=lambda f: (f.file, f.qualname)):
        taint = wire_taint(f)
        bytes_names = {t.id for n in q.walk_body(f.node) if isinstance(n, ast.Assign) and any(_stream_read(x) for x in ast.walk(n.value)) for t in n.targets if isinstance(t, ast.Name)}
        a = f.node.args
        bytes_names |= {x.arg for x in a.posonlyargs + a.args + a.kwonlyargs if x.annotation is not None and q.unparse(x.annotation) == "bytes"}
        for c in q.calls(f.node):
            if isinstance(c.func, ast.Attribute) and c.func.attr == "decode" and _mentions_taint(c.func.value, taint):
                n_d += 1
                codec = c.args[0] if c.args else q.kwarg(c, "encoding")
                total = isinstance(codec, ast.Constant) and str(codec.value).lower().replace("-", "").replace("_", "") in ("latin1", "iso88591", "l1")
                ck.ob(RP + ".decode-total", f, c, total or handler_for(f, c, "UnicodeDecodeError") is not None, "wire bytes are decoded with a total codec (latin-1) or under a handler")
            elif q.call_attr(c) in ("native_str", "to_unicode") and c.args and (q.names_in(c.args[0]) & bytes_names) and not any(isinstance(x, ast.Call) and q.call_attr(x) == "decode" for x in ast.walk(c.args[0])):
                n_d += 1
                ck.ob(RP + ".decode-total", f, c, handler_for(f, c, "UnicodeDecodeError") is not None, "UTF-8 decoding of raw wire bytes happens under a ValueError/UnicodeDecodeError handler")
    ck.floor(RP + ".decode-total", n_d, 2, "decode sites on wire bytes")

    # 4. HTTPInputError passes the delegate logging context untouched
    R = RP + ".input-error-passthrough"
    ex = _F(ck, H1, "_ExceptionLoggingContext.__exit__")
    passes = atom_edges(ex.cfg, lambda a: False if (isinstance(a, ast.Call) and q.call_attr(a) == "isinstance" and len(a.args) == 2 and _is_input_error(q.dotted(a.args[1]))) else None)
    n = 0
    for node in ex.cfg.stmt_nodes(lambda n: n.kind == "stmt" and (isinstance(n.ast, ast.Raise) or node_mentions(n, lambda x: isinstance(x, ast.Call) and q.call_attr(x) in ("error", "exception", "warning")))):
        if isinstance(node.ast, ast.Assert):
            continue
        n += 1
        ck.ob(R, ex, node.ast, only_through(ex.cfg, node, passes), "HTTPInputError raised inside a delegate callback (e.g. Host validation) is neither logged as uncaught nor converted")
    ck.floor(R, n, 2, "log/raise statements in _ExceptionLoggingContext.__exit__")
    delegs = [c for c in q.calls(rm.node) if q.call_attr(c) == "headers_received"]
    pm = q.parent_map(rm.node)
    for c in delegs:
        w = [a for a in q.ancestors(pm, c) if isinstance(a, ast.With) and any(isinstance(it.context_expr, ast.Call) and q.call_attr(it.context_expr) == "_ExceptionLoggingContext" for it in a.items)]
        ck.ob(R, rm, c, bool(w) and any(contains(outer[0], x) and any(x is s or contains(s, x) for s in outer[0].body) for x in w), "delegate.headers_received runs inside the logging context inside the HTTPInputError try")


HOST_CASES = [
    # (version, Host field value or None when the header is absent, expected: "ok" host value | "error")
    ("HTTP/1.1", None, "error"),                       # missing
    ("HTTP/1.0", None, ("ok", "127.0.0.1")),           # HTTP/1.0 does not require it
    ("HTTP/1.1", "", ("ok", "")),                      # present but empty is a legal Host (RFC 9112 3.2), not a missing one
    ("HTTP/1.0", "", ("ok", "")),
    ("HTTP/1.1", "example.com", ("ok", "example.com")),
    ("HTTP/1.1", "example.com:8080", ("ok", "example.com:8080")),
    ("HTTP/1.1", "[::1]:80", ("ok", "[::1]:80")),
    ("HTTP/1.0", "example.com", ("ok", "example.com")),
    ("HTTP/1.1", "a.example,b.example", "error"),      # multiple
    ("HTTP/1.1", "bad host", "error"),
    ("HTTP/1.1", "a/b", "error"),
    ("HTTP/1.1", "user@host", "error"),
    ("HTTP/1.0", "bad\thost", "error"),
]


def check_host_folded(ck, RP="C01"):
    """HTTPServerRequest.__init__ folded on concrete (version, Host) pairs: which requests get an object, with which
    host, and which are refused with HTTPInputError — however the lookup is written (try/KeyError, get(), in)."""
    from ..x_absint import Obj, UNK, HeaderMap
    R = RP + ".host-validated"
    fi = _F(ck, HU, "HTTPServerRequest.__init__")
    names = fi.params()
    n = 0
    for version, host, want in HOST_CASES:
        ev = mk_evaluator(fi)
        ev.fallback = regex_folder(ck, fi)
        h = HeaderMap({"Accept": "*/*"})
        if host is not None:
            h["Host"] = host
        env = {p_: None for p_ in names}
        env.update({"self": Obj("self"), "headers": h, "start_line": ("GET", "/", version), "version": "HTTP/1.0", "connection": Obj("connection", context=Obj("context", remote_ip="1.2.3.4", protocol="http"))})
        if "headers" not in names or "start_line" not in names:
            raise AnalysisError("HTTPServerRequest.__init__: expected headers= and start_line= parameters")
        outs = ev.run(fi.node, env)
        if not outs:
            raise AnalysisError("HTTPServerRequest.__init__: no outcome")
        for o in outs:
            n += 1
            tag = "%s request, %s" % (version, "no Host header" if host is None else "Host: %r" % host)
            if o.kind == "raise" and not _is_input_error(o.value):
                ck.ob(R, fi, o.node, False, "%s: refused with HTTPInputError, nothing else (got %s)" % (tag, o.value), construct="host %s %r" % (version, host))
                continue
            if want == "error":
                ck.ob(R, fi, fi.node, o.kind == "raise", "%s is refused with HTTPInputError (400)" % tag, construct="host %s %r" % (version, host))
            else:
                got = o.state.env["self"].attrs.get("host", UNK) if o.kind != "raise" else None
                if got is UNK:
                    raise AnalysisError("HTTPServerRequest.__init__: host not decidable by folding (%s)" % tag)
                ck.ob(R, fi, fi.node, o.kind != "raise" and got == want[1], "%s is accepted with host %r — only an absent header counts as missing (got %s)" % (tag, want[1], "HTTPInputError" if o.kind == "raise" else repr(got)), construct="host %s %r" % (version, host))
    ck.floor(R, n, len(HOST_CASES), "folded Host scenarios")


def check_host(ck, env, RP="C01"):
    R = RP + ".host-validated"
    check_host_folded(ck, RP)
    fi = _F(ck, HU, "HTTPServerRequest.__init__")
    cfg = fi.cfg
    from ..x_http import _stable_path_aliases, _subst_aliases
    al = _stable_path_aliases(cfg)
    rc = [(c_, m_, p_, _subst_aliases(s_, al) if s_ is not None else s_) for c_, m_, p_, s_ in env.calls(fi)]
    rc = [x for x in rc if x[3] is not None and (q.dotted(x[3]) or "").startswith("self.")]
    ck.floor(R, len(rc), 1, "regex tests on request attributes in HTTPServerRequest.__init__")
    up, lo = env.rx(HOST_UPPER), env.rx(HOST_LOWER)
    exit_nodes = [cfg.nodes[p] for p, _k in cfg.pred[cfg.exit.id]]
    host_attr = None
    pos, neg = set(), set()
    for c, m, pat, subj in rc:
        host_attr = q.dotted(subj)
        p, n = truthy_edges(fi, lambda e, c=c: e is c)
        pos |= p
        neg |= n
        ck.ob(R, fi, c, m == "fullmatch", "the Host value is tested with fullmatch; found %s" % m)
        lang = env.rx(pat, m)
        w = lang.witness_not_in(up)
        ck.ob(R, fi, c, w is None, "Host language ⊆ uri-host[:port] characters (no CTL, whitespace, '/', '@', '?', '#')%s" % ("" if w is None else " (accepts %r)" % w))
        w = lo.witness_not_in(lang)
        ck.ob(R, fi, c, w is None, "every RFC 3986 reg-name / IP-literal host with optional port is accepted%s" % ("" if w is None else " (rejects %r)" % w))
        comma_free = lang.excludes_symbols([ord(",")])
    comma = atom_edges(cfg, lambda a: False if (isinstance(a, ast.Compare) and isinstance(a.ops[0], ast.In) and _const_str(a.left, ",") and q.dotted(a.comparators[0]) == host_attr) else None)
    comma_t = atom_edges(cfg, lambda a: True if (isinstance(a, ast.Compare) and isinstance(a.ops[0], ast.In) and _const_str(a.left, ",") and q.dotted(a.comparators[0]) == host_attr) else None)
    if not comma and not comma_free:
        other = [n for n in cfg.stmt_nodes(lambda n: n.kind == "test") if any(_const_str(x, ",") for x in ast.walk(n.ast)) or any(isinstance(x, ast.Call) and q.call_attr(x) == "get_list" for x in ast.walk(n.ast))]
        if other:
            raise AnalysisError("HTTPServerRequest.__init__: multiple Host values are tested in a form the rule does not recognise (%s)" % q.unparse(other[0].ast)[:80])
    for node in exit_nodes:
        anchor = node.ast if node.ast is not None else fi.node
        ck.ob(R, fi, anchor, only_through(cfg, node, pos), "a request object exists only if its Host matched", construct="exit: host matched")
        ck.ob(R, fi, anchor, comma_free or only_through(cfg, node, comma), "multiple (comma-joined) Host values are rejected", construct="exit: single host")
        ck.ob(R, fi, anchor, not rebinds_between(cfg, pos, node, {host_attr}), "the validated host is not re-bound afterwards", construct="exit: host stable")
    ok, n = leads_to_raise(cfg, neg | comma_t, _is_input_error)
    ck.ob(R, fi, fi.node, ok and n > 0, "invalid or multiple Host raises HTTPInputError", construct="host no-match / comma edges")
    # missing Host
    v10 = atom_edges(cfg, lambda a: True if (isinstance(a, ast.Compare) and isinstance(a.ops[0], ast.Eq) and q.dotted(a.left) == "self.version" and _const_str(a.comparators[0], "HTTP/1.0")) else None)
    # every lookup of the Host header is protected (KeyError handler whose non-raising path is HTTP/1.0-only) or guarded
    hflow = Flow(fi)
    lookups = [n for n in cfg.stmt_nodes(lambda n: node_mentions(n, lambda x: _hdr_get(x, "Host") and isinstance(x.ctx, ast.Load)))]
    gets = [n for n in cfg.stmt_nodes(lambda n: node_mentions(n, lambda x: isinstance(x, ast.Call) and q.call_attr(x) == "get" and x.args and _const_str(x.args[0], "Host")))]
    ck.floor(R, len(lookups) + len(gets), 1, "Host header lookups")
    present = atom_edges(cfg, lambda a: True if _hdr_in(a, "Host") else None)
    for node in lookups:
        h = handler_for(fi, node.ast, "KeyError")
        if h is None:
            ck.ob(R, fi, node.ast, only_through(cfg, node, present), "a missing Host header is handled (KeyError handler or membership test), not an uncaught KeyError")
            continue
        raises = [s_ for s_ in q.walk_local(h) if isinstance(s_, ast.Raise)]
        ck.ob(R, fi, h, any(_is_input_error(raised_class(s_)) for s_ in raises), "a missing Host header raises HTTPInputError (except for HTTP/1.0)", construct="except KeyError: missing Host")
        # the handler completes normally only for HTTP/1.0
        hn = [n for n in cfg.nodes if n.kind == "handler" and n.ast is h]
        for hnode in hn:
            sub = reach_without(cfg, v10, start=hnode.id, follow_exc=False, stop=lambda n: n.kind == "stmt" and isinstance(n.ast, ast.Raise))
            leaves = [i_ for i_ in sub if cfg.nodes[i_].ast is not None and not contains(h, cfg.nodes[i_].ast) and cfg.nodes[i_].kind in ("stmt", "test")]
            ck.ob(R, fi, h, not leaves, "without a Host header only an HTTP/1.0 request gets past the handler", construct="except KeyError: non-1.0 falls through")
    for node in cfg.stmt_nodes(lambda n: n.kind == "stmt" and isinstance(n.ast, ast.Assign) and host_attr in q.assigned_paths(n.ast)):
        v = hflow.expand(node.ast.value, node)
        if _hdr_get(v, "Host") or (isinstance(v, ast.Call) and q.call_attr(v) == "get" and v.args and _const_str(v.args[0], "Host")):
            continue
        if isinstance(v, ast.Constant):
            ck.ob(R, fi, node.ast, only_through(cfg, node, v10), "a default host is assumed only for HTTP/1.0 requests")
        else:
            raise AnalysisError("unknown source of the request host at %s" % fi.site(node.ast))


def check_400(ck, RP="C01"):
    R = RP + ".bad-request-400"
    fi = _F(ck, H1, "HTTP1Connection._read_message")
    cfg = fi.cfg
    hs = [n for n in cfg.nodes if n.kind == "handler" and any(_is_input_error(nm) for nm in q.handler_names(n.ast)) and n.id in cfg.reachable()]
    ck.floor(R, len(hs), 1, "reachable HTTPInputError handlers in _read_message")
    ref = __import__("vt.rx", fromlist=["Rx"]).Rx.from_pattern(BAD_REQUEST)
    client = atom_edges(cfg, lambda a: True if q.dotted(a) == "self.is_client" else None)
    for hn in hs:
        h = hn.ast
        in_h = lambda n: n.ast is not None and contains(h, n.ast)
        writes = [n for n in cfg.stmt_nodes(lambda n: in_h(n) and node_mentions(n, lambda x: isinstance(x, ast.Call) and q.call_attr(x) == "write" and (q.dotted(x.func.value) or "").endswith("stream")))]
        closes = [n for n in cfg.stmt_nodes(lambda n: in_h(n) and node_mentions(n, lambda x: q.is_call(x, "self.close", "self.stream.close")))]
        rets = [n for n in cfg.stmt_nodes(lambda n: in_h(n) and n.kind == "stmt" and isinstance(n.ast, ast.Return))]
        good_w = set()
        for w in writes:
            for x in q.walk_local(w.ast):
                if isinstance(x, ast.Call) and q.call_attr(x) == "write":
                    a = x.args[0] if x.args else q.kwarg(x, "data")
                    if isinstance(a, ast.Name) and isinstance(fi.module.assigns.get(a.id), ast.Constant):
                        a = fi.module.assigns[a.id]
                    if not (isinstance(a, ast.Constant) and isinstance(a.value, bytes)):
                        raise AnalysisError("_read_message: the error response is not a bytes constant (%s)" % q.unparse(x)[:80])
                    okc = isinstance(a, ast.Constant) and isinstance(a.value, bytes) and ref.accepts(a.value)
                    ck.ob(R, fi, x, okc, "the error response is a complete 'HTTP/1.x 400 ...' header block")
                    if okc:
                        good_w.add(w.id)
        ck.floor(R, len(rets), 1, "returns in the HTTPInputError handler")
        for r in rets:
            ck.ob(R, fi, r.ast, q.is_const(r.ast.value, False), "after malformed input _read_message returns False (the serving loop must stop)")
            # server mode: 400 written and connection closed before returning
            r1 = reach_without(cfg, client, start=hn.id, follow_exc=False, stop=lambda n: n.id in good_w)
            ck.ob(R, fi, r.ast, r.id not in r1, "in server mode a 400 response is written on every path through the handler", construct="return without 400")
            r2 = reach_without(cfg, (), start=hn.id, follow_exc=False, stop=lambda n: n.id in {c.id for c in closes})
            ck.ob(R, fi, r.ast, r.id not in r2, "the connection is closed on every path through the handler", construct="return without close")
        # no fall-through to `return True`
        r3 = reach_without(cfg, (), start=hn.id, follow_exc=False, stop=lambda n: n.id in {r.id for r in rets})
        other = [n for n in cfg.stmt_nodes(lambda n: n.kind == "stmt" and isinstance(n.ast, ast.Return) and not in_h(n)) if n.id in r3]
        ck.ob(R, fi, h, not other, "the handler never falls through to the success return", construct="except HTTPInputError: fall-through")

    check_serving_loop(ck, RP + ".loop-stops")


def check_serving_loop(ck, R):
    """_server_request_loop (helpers inlined), by abstract interpretation over the possible outcomes of one
    read_response(): another request is read iff the previous one returned a truthy value."""
    from ..x_absint import Evaluator, Obj, UNK, Raised
    lp = _F(ck, H1, "HTTP1ServerConnection._server_request_loop")
    ps = [p for p in lp.params() if p != "self"]
    n = 0
    for mode in (True, False, None, "iostream.StreamClosedError", "iostream.UnsatisfiableReadError", "_QuietException", "ValueError"):
        def fb(st, c, d, args, mode=mode):
            if q.call_attr(c) == "read_response":
                if isinstance(mode, str):
                    raise Raised(mode)
                return mode
            return NotImplemented

        ev = mk_evaluator(lp)
        ev.fallback = fb
        me = Obj("self", stream=Obj("stream"), params=Obj("params"), context=None)
        outs = ev.run(lp.node, dict({"self": me}, **{p: Obj("delegate") for p in ps}))
        if not outs:
            raise AnalysisError("_server_request_loop: no outcome for read_response -> %r" % (mode,))
        for o in outs:
            n += 1
            reads = sum(1 for e in o.state.events if q.call_attr(e[2]) == "read_response")
            if reads == 0:
                raise AnalysisError("_server_request_loop: read_response not reached on an evaluated path")
            if mode is True:
                ck.ob(R, lp, lp.node, reads >= 2, "after a message that ended cleanly (truthy result) the loop reads the next request", construct="read_response -> True: next request read")
            else:
                ck.ob(R, lp, lp.node, reads == 1, "after %s no further request is read on this connection" % ("a falsy result" if not isinstance(mode, str) else mode), construct="read_response -> %r: loop ends" % (mode,))
    ck.floor(R, n, 7, "evaluated serving-loop outcomes")


def check_stream_api(ck, RP="C01"):
    R = RP + ".stream-api-only"
    m = ck.repo.module(H1)
    n = 0
    forbidden = {"socket", "read_from_fd", "write_to_fd", "fileno", "close_fd"}
    for f in m.funcs.values():
        for x in q.walk_body(f.node):
            if isinstance(x, ast.Attribute) and q.dotted(x.value) in ("self.stream", "stream"):
                n += 1
                bad = x.attr.startswith("_") or x.attr in forbidden
                if bad:
                    ck.ob(R, f, x, False, "http1connection.py uses only IOStream's public read/write API (segmentation is IOStream's business)")
    ck.ob(R, None, m.tree, True, "%d stream attribute uses in http1connection.py, all public API" % n, construct="stream uses", file=H1)
    ck.floor(R, n, 15, "stream attribute uses")


NORMALISERS = {
    "strip", "lstrip", "rstrip", "replace", "lower", "upper", "casefold", "title", "capitalize", "swapcase", "translate", "expandtabs",
    "split", "rsplit", "splitlines", "partition", "rpartition", "join", "removeprefix", "removesuffix", "zfill", "center", "ljust", "rjust", "format", "sub", "subn",
}


def _expand(e, binds, depth=0, keep=()):
    """the expression with single-binding local aliases substituted (for inspection only);
    names in ``keep`` and names bound to an awaited value (stream reads) are left alone"""
    if depth > 6:
        return e

    class T(ast.NodeTransformer):
        def visit_Name(self, n):
            if isinstance(n.ctx, ast.Load) and n.id in binds and n.id not in keep and not isinstance(binds[n.id], ast.Await):
                return _expand(binds[n.id], binds, depth + 1, keep)
            return n

    import copy as _copy
    return T().visit(_copy.deepcopy(e))


def _normaliser_calls(e, allow=lambda c: False):
    out = []
    for x in ast.walk(e):
        if isinstance(x, ast.Call) and isinstance(x.func, ast.Attribute) and x.func.attr in NORMALISERS and not allow(x):
            out.append(x)
    return out


def _strip_of(chars):
    """predicate: a strip/lstrip/rstrip call whose single argument is a constant made only of ``chars``"""
    def ok(c, repo_consts=None):
        if c.func.attr not in ("strip", "lstrip", "rstrip") or len(c.args) != 1 or c.keywords:
            return False
        a = c.args[0]
        if isinstance(a, ast.Constant) and isinstance(a.value, str) and a.value and set(a.value) <= set(chars):
            return True
        return False
    return ok


def check_wire_exact(ck, tree, RP="C01"):
    """Wire text must reach the validators byte-exact: only the RFC's own trimming (OWS = SP/HTAB around field
    values, CR/LF around the start line) is applied; nothing is normalised before the strict integer parsers;
    header lines are separated at LF only."""
    R = RP + ".wire-text-exact"
    repo = ck.repo
    strict = {repo.func(H1, "parse_int"), repo.func(H1, "parse_hex_int")}
    n = 0
    for f in sorted(tree.values(), key=lambda f: (f.file, f.qualname)):
        if f.file != H1:
            continue
        binds = single_bindings(f.node)
        for c in q.calls(f.node):
            callee = resolve_call(repo, f, c)
            is_int = isinstance(c.func, ast.Name) and c.func.id == "int" and c.args
            a0_ = c.args[0] if c.args else (argx(repo, f, c, 0, "s") if callee in strict else None)
            if (callee in strict or is_int) and a0_ is not None:
                if f in strict:
                    continue
                n += 1
                full = _expand(a0_, binds)
                bad = _normaliser_calls(full)
                ck.ob(R, f, c, not bad, "the text handed to the strict integer parser is the wire text itself (no %s before validation)" % (", ".join(sorted({b.func.attr for b in bad})) or "strip/replace/lower/split"))
    ck.floor(R, n, 2, "strict integer parser calls in http1connection.py")
    # module constant used for OWS trimming
    hu = repo.module(HU)

    def const_str(e):
        if isinstance(e, ast.Constant) and isinstance(e.value, str):
            return e.value
        if isinstance(e, ast.Name) and e.id in hu.assigns and isinstance(hu.assigns[e.id], ast.Constant) and isinstance(hu.assigns[e.id].value, str):
            return hu.assigns[e.id].value
        return None

    def ows_strip(c):
        return c.func.attr in ("strip", "lstrip", "rstrip") and len(c.args) == 1 and not c.keywords and const_str(c.args[0]) is not None and const_str(c.args[0]) != "" and set(const_str(c.args[0])) <= {" ", "\t"}

    # (parse_line's own trimming is decided by folding it on concrete lines: check_parse_line_folded)
    pl = _F(ck, HU, "HTTPHeaders.parse_line")
    ph = _header_splitter(ck)
    crlf_strip = lambda c: c.func.attr in ("lstrip", "rstrip", "strip") and len(c.args) == 1 and not c.keywords and isinstance(c.args[0], ast.Constant) and isinstance(c.args[0].value, str) and c.args[0].value != "" and set(c.args[0].value) <= {"\r", "\n"}
    k = 0
    for c in q.calls(ph.node):
        if isinstance(c.func, ast.Attribute) and c.func.attr in NORMALISERS:
            k += 1
            ck.ob(R, ph, c, crlf_strip(c), "the header block is only trimmed of CR/LF (blank lines before the start line, the CR of the line end); nothing else is normalised before parsing")
    ck.floor(R, k, 1, "trimming calls in _parse_headers")
    # line separation at LF only
    ps = _F(ck, HU, "HTTPHeaders.parse")
    k = 0
    for f in (ps, pl, ph):
        for c in q.calls(f.node):
            if isinstance(c.func, ast.Attribute) and c.func.attr == "splitlines":
                ck.ob(R, f, c, False, "header lines are separated at LF only (splitlines() also splits at VT, FF, FS..US, NEL — bytes that may occur inside a field value)")
            if f is not pl and isinstance(c.func, ast.Attribute) and c.func.attr in ("find", "index", "split") and c.args and isinstance(c.args[0], ast.Constant) and isinstance(c.args[0].value, str):
                k += 1
                ck.ob(R, f, c, c.args[0].value == "\n", "lines are located by searching for LF")
    ck.floor(R, k, 1, "line-separator searches in parse/_parse_headers")
    env = RegexEnv(repo)
    eol = [x for x in env.calls(pl) if x[3] is not None and q.dotted(x[3]) == pl.params()[1]]
    for c, m, pat, subj in eol:
        w = env.rx(pat, "search").difference_witness(env.rx(r"\r?\n$", "search")) if m == "search" else ("", "not a search")
        ck.ob(R, pl, c, w is None, "parse_line removes exactly one trailing CR? LF%s" % ("" if w is None else " (differs on %r: %s)" % w))


def run(ck):
    from ..x_http import GuardedCheck
    ck = GuardedCheck(ck)
    ck.rule("C01.header-block-delimiter", "the header block is read up to the first blank line: the read_until_regex delimiter denotes (CR? LF){2}")
    ck.rule("C01.request-line", "parse_request_start_line accepts exactly token SP target SP HTTP/1.x by fullmatch and raises HTTPInputError otherwise")
    ck.rule("C01.header-name", "HTTPHeaders.add stores only names that fullmatch RFC 9110 token; others raise HTTPInputError")
    ck.rule("C01.header-value", "HTTPHeaders.add stores (HTTP mode) only values that fullmatch RFC 9110 field-value; others raise HTTPInputError")
    ck.rule("C01.header-continuation", "obs-fold continuation text is validated as field-value before it is appended; needs a previous header")
    ck.rule("C01.duplicate-fields-kept", "a repeated header field is appended to the earlier values (never replaces them); the combined value joins with ','; add() always stores")
    ck.rule("C01.strict-header-mode", "the connection parses header blocks in HTTP (latin-1 bytes) validation mode; the mode is forwarded parse -> parse_line -> add")
    ck.rule("C01.header-line-split", "a header line is split at the first ':'; a line without ':' raises HTTPInputError")
    ck.rule("C01.cl-conflict", "a comma-joined Content-Length is used only if all pieces are equal; otherwise HTTPInputError")
    ck.rule("C01.cl-integer", "the fixed body length is parse_int(Content-Length) and a non-integer raises HTTPInputError")
    ck.rule("C01.body-selection", "Transfer-Encoding is examined on every path; chunked reader only if chunked; no close-delimited request bodies")
    ck.rule("C01.te-strict", "chunked is recognised by equality with the lower-cased Transfer-Encoding value")
    ck.rule("C01.te-other-raises", "any Transfer-Encoding other than chunked raises HTTPInputError (never treated as 'not chunked')")
    ck.rule("C01.cl-te-conflict", "Content-Length together with Transfer-Encoding raises HTTPInputError")
    ck.rule("C01.sint", "int() of wire text in http1connection.py is guarded by fullmatch of an ASCII digit/hex-digit regex on the same operand")
    ck.rule("C01.int-no-crash", "no int() of wire text in the read call tree can escape as ValueError (handler at all call sites, or bounded ASCII-digit guard)")
    ck.rule("C01.chunk-size-line", "chunk-size line: CRLF-delimited, whole line parsed by parse_hex_int, malformed -> HTTPInputError")
    ck.rule("C01.chunk-end", "the chunked body ends only after a zero-size chunk")
    ck.rule("C01.chunk-terminator", "the two bytes after chunk data and after the last chunk are compared with CRLF; a mismatch aborts")
    ck.rule("C01.body-byte-count", "body data reads are bounded by, and decrement, the count of bytes still owed; exactly the bytes read are delivered")
    ck.rule("C01.no-assert-on-wire", "no assert statement in the read call tree tests peer-controlled data")
    ck.rule("C01.raise-discipline", "every raise in the read call tree is HTTPInputError / quiet stream error or is converted at every call site")
    ck.rule("C01.decode-total", "wire bytes are decoded with latin-1 or under a ValueError handler")
    ck.rule("C01.input-error-passthrough", "_ExceptionLoggingContext lets HTTPInputError through unlogged; headers_received runs inside it inside the HTTPInputError try")
    ck.rule("C01.host-validated", "HTTPServerRequest.__init__: Host fullmatches uri-host[:port], is single, missing only for HTTP/1.0; else HTTPInputError")
    ck.rule("C01.bad-request-400", "the HTTPInputError handler of _read_message writes a 400 (server), closes, returns False, never falls through")
    ck.rule("C01.loop-stops", "_server_request_loop reads another request only after a truthy read_response result")
    ck.rule("C01.wire-text-exact", "wire text reaches the validators byte-exact: nothing is normalised before the strict integer parsers; only SP/HTAB around field values and CR/LF around the block are trimmed; lines are separated at LF only")
    ck.rule("C01.stream-api-only", "http1connection.py touches the stream only through IOStream's public API")

    env = RegexEnv(ck.repo)
    init_modules(ck)
    tree = read_tree(ck)
    check_header_block(ck, env)
    check_request_line(ck, env)
    check_header_fields(ck, env)
    check_multimap_for_framing(ck)
    check_read_body(ck, tree)
    check_transfer_encoding(ck)
    check_ints(ck, env, tree)
    check_chunked(ck, tree)
    check_counted_reads(ck, _F(ck, H1, "HTTP1Connection._read_fixed_body"), set())
    check_error_discipline(ck, tree)
    check_host(ck, env)
    check_400(ck)
    check_stream_api(ck)
    check_wire_exact(ck, tree)



# ---------------------------------------------------------------------------------------
# mutants (thorough tier)


def _m(rel, qn, edit):
    return lambda repo: mutate(repo, rel, qn, edit)


def _u(n):
    return ast.unparse(n)


def _attr_call(name_from, name_to, recv_contains=""):
    """rename the method of the first call ``<recv>.name_from(...)`` whose receiver text contains ``recv_contains``"""
    def pred(n):
        return isinstance(n, ast.Call) and isinstance(n.func, ast.Attribute) and n.func.attr == name_from and recv_contains in _u(n.func.value)

    def new(n):
        n.func.attr = name_to
        return n

    return replace_expr(pred, new)


def _if_raise(test_contains):
    return lambda st: isinstance(st, ast.If) and test_contains in _u(st.test) and any(isinstance(x, ast.Raise) for x in st.body)


def _abnf(name, new_value_src):
    def edit(root):
        for st in root.body:
            if isinstance(st, ast.Assign) and isinstance(st.targets[0], ast.Name) and st.targets[0].id == name:
                st.value = parse_expr(new_value_src)
                return True
        return False
    return lambda repo: mutate(repo, HU, "_ABNF", edit)


def _module_assign(rel, name, new_value_src):
    def edit(root):
        for st in root.body:
            if isinstance(st, ast.Assign) and isinstance(st.targets[0], ast.Name) and st.targets[0].id == name:
                st.value = parse_expr(new_value_src)
                return True
        return False
    return lambda repo: mutate(repo, rel, None, edit)


def _unwrap_try(pred):
    """replace the first ``try`` whose body satisfies pred by its body (handlers dropped)"""
    return replace_stmt(lambda st: isinstance(st, ast.Try) and pred(st), lambda st: list(st.body))


def _by_line(pred, which, new=None):
    """remove (new=None) or replace the first/last statement in *source order* satisfying pred"""
    def edit(root):
        hits = []
        for node in ast.walk(root):
            for fld in ("body", "orelse", "finalbody"):
                body = getattr(node, fld, None)
                if isinstance(body, list):
                    for st in body:
                        if isinstance(st, ast.stmt) and pred(st):
                            hits.append((st.lineno, body, st))
        if not hits:
            return False
        _ln, body, st = (max if which == "last" else min)(hits, key=lambda h: h[0])
        if new is not None:
            body[body.index(st)] = ast.copy_location(new(st), st)
        elif len(body) == 1:
            body[0] = ast.Pass()
        else:
            body.remove(st)
        return True
    return edit


def _cl_alias_replace(root):
    """cl = headers["Content-Length"].replace("_", ""); ... parse_int(cl)"""
    for node in ast.walk(root):
        if isinstance(node, ast.Try) and "parse_int" in ast.unparse(node.body[0]):
            node.body.insert(0, parse_stmt('cl_text = headers["Content-Length"].replace("+", "")'))
            for c in ast.walk(node.body[1]):
                if isinstance(c, ast.Call) and ast.unparse(c.func) == "parse_int":
                    c.args = [ast.Name(id="cl_text", ctx=ast.Load())]
                    return True
    return False


def _use_splitlines(root):
    root.body = [st for st in root.body if not isinstance(st, (ast.While, ast.Return)) and not (isinstance(st, ast.Assign) and ast.unparse(st.targets[0]) == "start")]
    root.body.append(parse_stmt("for line in headers.splitlines():\n    h.parse_line(line, _chars_are_bytes=_chars_are_bytes)"))
    root.body.append(parse_stmt("return h"))
    return True


def _empty_host_is_missing(root):
    for node in ast.walk(root):
        body = getattr(node, "body", None)
        if isinstance(body, list):
            for i, st in enumerate(body):
                if isinstance(st, ast.Try) and "Host" in ast.unparse(st.body[0]) and st.handlers:
                    new = [parse_stmt('self.host = self.headers.get("Host", "")'), ast.If(test=parse_expr("not self.host"), body=st.handlers[0].body, orelse=[])]
                    body[i:i + 1] = new
                    return True
    return False


RM = "HTTP1Connection._read_message"
MUTANTS = [
    ("request line: fullmatch -> match", _m(HU, "parse_request_start_line", _attr_call("fullmatch", "match")), "C01.request-line"),
    ("request line: method may contain ':' (tchar widened)", _abnf("tchar", 're.compile(r"[!#$%&\'*+\\-.^_`|~0-9A-Za-z:]")'), ("C01.request-line", "C01.header-name")),
    ("request line: several spaces allowed before the version", _abnf("request_line", 're.compile(rf"({method.pattern}) ({request_target.pattern}) +({HTTP_version.pattern})")'), "C01.request-line"),
    ("request line: version gate dropped (HTTP/2.0 accepted)", _m(HU, "parse_request_start_line", remove_stmts(_if_raise("startswith"))), "C01.request-line"),
    ("header block delimiter requires CRLF CRLF only", _m(H1, RM, replace_expr(lambda n: isinstance(n, ast.Constant) and n.value == b"\r?\n\r?\n", lambda n: ast.Constant(value=b"\r\n\r\n"))), "C01.header-block-delimiter"),
    ("TE: == 'chunked' -> 'chunked' in value", _m(H1, "is_transfer_encoding_chunked", replace_expr(lambda n: isinstance(n, ast.Compare) and isinstance(n.ops[0], ast.Eq) and "chunked" in _u(n), lambda n: parse_expr('"chunked" in headers["Transfer-Encoding"].lower()'))), "C01.te-strict"),
    ("TE: endswith('chunked')", _m(H1, "is_transfer_encoding_chunked", replace_expr(lambda n: isinstance(n, ast.Compare) and isinstance(n.ops[0], ast.Eq) and "chunked" in _u(n), lambda n: parse_expr('headers["Transfer-Encoding"].lower().endswith("chunked")'))), "C01.te-strict"),
    ("TE: drop the Content-Length + Transfer-Encoding raise", _m(H1, "is_transfer_encoding_chunked", remove_stmts(_if_raise("Content-Length"))), "C01.cl-te-conflict"),
    ("TE: unsupported coding returns False instead of raising", _m(H1, "is_transfer_encoding_chunked", replace_stmt(lambda st: isinstance(st, ast.Raise) and "Unsupported" in _u(st), lambda st: [parse_stmt("return False")])), "C01.te-other-raises"),
    ("TE: unsupported coding raises ValueError", _m(H1, "is_transfer_encoding_chunked", replace_stmt(lambda st: isinstance(st, ast.Raise) and "Unsupported" in _u(st), lambda st: [parse_stmt('raise ValueError("unsupported transfer encoding")')])), "C01.raise-discipline"),
    ("chunk size: parse_hex_int(x) -> int(x, 16)", _m(H1, "HTTP1Connection._read_chunked_body", replace_expr(lambda n: isinstance(n, ast.Call) and _u(n.func) == "parse_hex_int", lambda n: ast.Call(func=ast.Name(id="int", ctx=ast.Load()), args=[n.args[0], ast.Constant(value=16)], keywords=[]))), ("C01.sint", "C01.chunk-size-line")),
    ("Content-Length: parse_int -> int", _m(H1, "HTTP1Connection._read_body", replace_expr(lambda n: isinstance(n, ast.Call) and _u(n.func) == "parse_int", lambda n: ast.Call(func=ast.Name(id="int", ctx=ast.Load()), args=n.args, keywords=[]))), ("C01.sint", "C01.cl-integer")),
    ("DIGITS widened to \\d+ (Unicode digits)", _module_assign(H1, "DIGITS", 're.compile(r"\\d+")'), "C01.sint"),
    ("HEXDIGITS allows a 0x prefix", _module_assign(H1, "HEXDIGITS", 're.compile(r"(?:0x)?[0-9a-fA-F]+")'), "C01.sint"),
    ("parse_int: fullmatch -> match (trailing garbage accepted)", _m(H1, "parse_int", _attr_call("fullmatch", "match")), "C01.sint"),
    ("Content-Length: conflicting values collapse to the first", _m(H1, "HTTP1Connection._read_body", remove_stmts(_if_raise("any("))), "C01.cl-conflict"),
    ("Content-Length: conflict checked by assert", _m(H1, "HTTP1Connection._read_body", replace_stmt(_if_raise("any("), lambda st: [parse_stmt("assert not any(i != pieces[0] for i in pieces)")])), ("C01.no-assert-on-wire", "C01.cl-conflict")),
    ("Content-Length: ValueError handler dropped", _m(H1, "HTTP1Connection._read_body", _unwrap_try(lambda t: "parse_int" in _u(t.body[0]))), ("C01.cl-integer", "C01.int-no-crash", "C01.raise-discipline")),
    ("server reads a close-delimited request body", _m(H1, "HTTP1Connection._read_body", replace_expr(lambda n: isinstance(n, ast.Attribute) and _u(n) == "self.is_client", lambda n: ast.Constant(value=True))), "C01.body-selection"),
    ("chunked reader chosen before Transfer-Encoding is validated", _m(H1, "HTTP1Connection._read_body", replace_expr(lambda n: isinstance(n, ast.Call) and _u(n.func) == "is_transfer_encoding_chunked", lambda n: parse_expr('"Transfer-Encoding" in headers'))), "C01.body-selection"),
    ("HTTPHeaders.add: value check removed", _m(HU, "HTTPHeaders.add", remove_stmts(_if_raise("field_value"))), "C01.header-value"),
    ("HTTPHeaders.add: value check fullmatch -> match", _m(HU, "HTTPHeaders.add", _attr_call("fullmatch", "match", "field_value")), "C01.header-value"),
    ("HTTPHeaders.add: name check removed", _m(HU, "HTTPHeaders.add", remove_stmts(_if_raise("field_name"))), "C01.header-name"),
    ("HTTPHeaders.add: invalid name silently dropped", _m(HU, "HTTPHeaders.add", replace_stmt(lambda st: isinstance(st, ast.Raise) and "name" in _u(st), lambda st: [parse_stmt("return")])), "C01.header-name"),
    ("field_value allows a bare CR", _abnf("field_vchar", 're.compile(rf"(?:{VCHAR.pattern}|{obs_text.pattern}|\\r)")'), ("C01.header-value", "C01.header-continuation")),
    ("parse_line: continuation text not validated", _m(HU, "HTTPHeaders.parse_line", remove_stmts(_if_raise("field_value"))), "C01.header-continuation"),
    ("parse_line: continuation before any header -> KeyError", _m(HU, "HTTPHeaders.parse_line", remove_stmts(_if_raise("_last_key is None"))), "C01.header-continuation"),
    ("parse_line: missing colon not converted", _m(HU, "HTTPHeaders.parse_line", _unwrap_try(lambda t: "split" in _u(t.body[0]))), "C01.header-line-split"),
    ("_parse_headers parses in lenient (non-HTTP) mode", _m(H1, "HTTP1Connection._parse_headers", replace_expr(lambda n: isinstance(n, ast.Call) and _u(n.func).endswith("HTTPHeaders.parse"), lambda n: ast.Call(func=n.func, args=n.args, keywords=[ast.keyword(arg="_chars_are_bytes", value=ast.Constant(value=False))]))), "C01.strict-header-mode"),
    ("_parse_headers decodes as utf-8", _m(H1, "HTTP1Connection._parse_headers", replace_expr(lambda n: isinstance(n, ast.Constant) and n.value == "latin1", lambda n: ast.Constant(value="utf-8"))), "C01.decode-total"),
    ("F2 repair undone: CRLF after chunk data checked by assert again", _m(H1, "HTTP1Connection._read_chunked_body", _by_line(_if_raise("crlf"), "last", lambda st: parse_stmt('assert crlf == b"\\r\\n"'))), "C01.no-assert-on-wire"),
    ("last-chunk terminator checked by assert", _m(H1, "HTTP1Connection._read_chunked_body", _by_line(_if_raise("crlf"), "first", lambda st: parse_stmt('assert crlf == b"\\r\\n"'))), "C01.no-assert-on-wire"),
    ("chunk terminator after data not checked", _m(H1, "HTTP1Connection._read_chunked_body", _by_line(_if_raise("crlf"), "last")), "C01.chunk-terminator"),
    ("last-chunk terminator not checked", _m(H1, "HTTP1Connection._read_chunked_body", _by_line(_if_raise("crlf"), "first")), "C01.chunk-terminator"),
    ("last-chunk terminator mismatch ignored (return)", _m(H1, "HTTP1Connection._read_chunked_body", replace_stmt(lambda st: isinstance(st, ast.Raise) and "improperly" in _u(st), lambda st: [parse_stmt("return")])), ("C01.chunk-terminator", "C01.chunk-end")),
    ("chunk data read not bounded by the owed count", _m(H1, "HTTP1Connection._read_chunked_body", replace_expr(lambda n: isinstance(n, ast.Call) and _u(n.func) == "min", lambda n: parse_expr("self.params.chunk_size"))), "C01.body-byte-count"),
    ("fixed body: count decremented by the requested size", _m(H1, "HTTP1Connection._read_fixed_body", replace_stmt(lambda st: isinstance(st, ast.AugAssign), lambda st: [parse_stmt("content_length -= min(self.params.chunk_size, content_length)")])), "C01.body-byte-count"),
    ("chunked body also ends on a size line of '0'-prefixed garbage (end test on the text)", _m(H1, "HTTP1Connection._read_chunked_body", replace_expr(lambda n: isinstance(n, ast.Compare) and _u(n) == "chunk_len == 0", lambda n: parse_expr('chunk_len_str.startswith(b"0")'))), "C01.chunk-end"),
    ("400 response not written", _m(H1, RM, remove_stmts(lambda st: isinstance(st, ast.If) and "400" in _u(st))), "C01.bad-request-400"),
    ("HTTPInputError handler returns True (loop continues on a desynchronised stream)", _m(H1, RM, replace_stmt(lambda st: isinstance(st, ast.Return) and _u(st) == "return False" , lambda st: [parse_stmt("return True")], limit=10)), "C01.bad-request-400"),
    ("HTTPInputError handler does not close", _m(H1, RM, remove_stmts(lambda st: _u(st) == "self.close()" , limit=1) if False else replace_stmt(lambda st: isinstance(st, ast.Try) and any("HTTPInputError" in _u(h.type) for h in st.handlers if h.type is not None), lambda st: [_drop_close(st)])), "C01.bad-request-400"),
    ("serving loop ignores the result of read_response", _m(H1, "HTTP1ServerConnection._server_request_loop", remove_stmts(lambda st: isinstance(st, ast.If) and _u(st.test) == "not ret")), "C01.loop-stops"),
    ("_ExceptionLoggingContext logs/convert HTTPInputError too", _m(H1, "_ExceptionLoggingContext.__exit__", remove_stmts(lambda st: isinstance(st, ast.If) and "HTTPInputError" in _u(st.test))), "C01.input-error-passthrough"),
    ("seeded C01-adv5: present-but-empty Host treated as missing", _m(HU, "HTTPServerRequest.__init__", _empty_host_is_missing), "C01.host-validated"),
    ("HTTP/1.0 default host also replaces a supplied empty Host", _m(HU, "HTTPServerRequest.__init__", replace_stmt(lambda st: isinstance(st, ast.If) and "fullmatch" in _u(st.test) and "host" in _u(st.test), lambda st: [parse_stmt('if not self.host and self.version == "HTTP/1.0":\n    self.host = "127.0.0.1"'), st])), "C01.host-validated"),
    ("Host: comma (multiple Host) check removed", _m(HU, "HTTPServerRequest.__init__", remove_stmts(_if_raise("','"))), "C01.host-validated"),
    ("Host: fullmatch -> match", _m(HU, "HTTPServerRequest.__init__", _attr_call("fullmatch", "match", "host")), "C01.host-validated"),
    ("Host: missing Host tolerated for every version", _m(HU, "HTTPServerRequest.__init__", replace_expr(lambda n: isinstance(n, ast.Compare) and "HTTP/1.0" in _u(n), lambda n: ast.Constant(value=True))), "C01.host-validated"),
    ("uri_host allows '/' and '@'", _abnf("uri_host", 're.compile(rf"(?:[\\[\\]:/@]|{uri_unreserved.pattern}|{uri_sub_delims.pattern}|{uri_pct_encoded.pattern})*")'), "C01.host-validated"),
    ("F24 repair undone: split_host_and_port converts the unbounded port without a ValueError handler", _m(HU, "split_host_and_port", _unwrap_try(lambda t: "int(" in _u(t.body[0]))), "C01.int-no-crash"),
    ("chunk size line cleaned with .strip() instead of cutting the CRLF (whitespace-padded sizes accepted)", _m(H1, "HTTP1Connection._read_chunked_body", replace_expr(lambda n: isinstance(n, ast.Call) and _u(n.func) == "native_str" and "[:-2]" in _u(n), lambda n: parse_expr("native_str(chunk_len_str).strip()"))), ("C01.wire-text-exact", "C01.chunk-size-line")),
    ("Content-Length value stripped of all whitespace before parse_int", _m(H1, "HTTP1Connection._read_body", replace_expr(lambda n: isinstance(n, ast.Call) and _u(n.func) == "parse_int", lambda n: parse_expr('parse_int(headers["Content-Length"].strip())'))), ("C01.wire-text-exact", "C01.cl-integer")),
    ("Content-Length underscores/plus removed before parse_int (local alias)", _m(H1, "HTTP1Connection._read_body", _cl_alias_replace), "C01.wire-text-exact"),
    ("parse_line trims the value with a bare .strip() (VT/FF/NBSP hidden from validation)", _m(HU, "HTTPHeaders.parse_line", replace_expr(lambda n: isinstance(n, ast.Call) and _u(n) == "value.strip(HTTP_WHITESPACE)", lambda n: parse_expr("value.strip()"))), "C01.wire-text-exact"),
    ("parse_line trims the field name ('Content-Length : 5' accepted)", _m(HU, "HTTPHeaders.parse_line", replace_expr(lambda n: isinstance(n, ast.Call) and _u(n.func) == "self.add", lambda n: ast.Call(func=n.func, args=[parse_expr("name.rstrip()")] + n.args[1:], keywords=n.keywords))), "C01.wire-text-exact"),
    ("_parse_headers strips the start line of all whitespace", _m(H1, "HTTP1Connection._parse_headers", replace_expr(lambda n: isinstance(n, ast.Call) and _u(n).endswith(".rstrip('\\r')"), lambda n: ast.Call(func=ast.Attribute(value=n.func.value, attr="strip", ctx=ast.Load()), args=[], keywords=[]))), "C01.wire-text-exact"),
    ("HTTPHeaders.parse separates lines with splitlines()", _m(HU, "HTTPHeaders.parse", _use_splitlines), "C01.wire-text-exact"),
    ("HTTPHeaders.add: a repeated field replaces the earlier value (last Content-Length wins)", _m(HU, "HTTPHeaders.add", replace_stmt(lambda st: isinstance(st, ast.If) and _u(st.test) == "norm_name in self", lambda st: list(st.orelse))), "C01.duplicate-fields-kept"),
    ("HTTPHeaders.add: repeated field test inverted", _m(HU, "HTTPHeaders.add", replace_expr(lambda n: isinstance(n, ast.Compare) and _u(n) == "norm_name in self", lambda n: parse_expr("norm_name not in self"))), "C01.duplicate-fields-kept"),
    ("HTTPHeaders.__getitem__ joins repeated values with ';'", _m(HU, "HTTPHeaders.__getitem__", replace_expr(lambda n: isinstance(n, ast.Constant) and n.value == ",", lambda n: ast.Constant(value=";"))), "C01.duplicate-fields-kept"),
    ("HTTPHeaders.add forgets to update _last_key (continuation lines extend an earlier field)", _m(HU, "HTTPHeaders.add", remove_stmts(lambda st: isinstance(st, ast.Assign) and "_last_key" in _u(st))), "C01.header-continuation"),
    ("Content-Length list also split at blanks ('5 5' accepted)", _m(H1, "HTTP1Connection._read_body", replace_expr(lambda n: isinstance(n, ast.Constant) and n.value == ",\\s*", lambda n: ast.Constant(value="[,\\s]\\s*"))), "C01.cl-conflict"),
    ("http1connection peeks into the stream's private buffer", _m(H1, "HTTP1Connection._read_fixed_body", replace_stmt(lambda st: isinstance(st, ast.AugAssign), lambda st: [st, parse_stmt("if self.stream._read_buffer_size: pass")])), "C01.stream-api-only"),
]


def _drop_close(trystmt):
    for h in trystmt.handlers:
        if h.type is not None and "HTTPInputError" in _u(h.type):
            h.body = [s for s in h.body if _u(s) != "self.close()"]
    return trystmt
